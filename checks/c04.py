"""C04 — fetch returns each stored document verbatim; unknown IDs are just 'not found'.

Specs: FetchCases.tla (relational part: present/absent IDs at every relative position, two fractions,
hints; reference QueryRef-style `Expected`) and FetchStream.tla (the adaptive chunk loop of
storeapi/docs_stream.go as a state machine with invariants ChunkPositive / Progress /
EveryIDAnsweredOnce and the liveness property Terminates).  TLC enumerates the scopes and emits the
cases; the driver `fetch` replays them through GrpcV1.Fetch of a real store (in-memory client) with a
watchdog, so a crash or hang of the store is observed as such."""
import json
import os
import vlib

LEVEL = "model_checking"


def run(ctx):
    drv = vlib.build_driver("fetch")
    quick = ctx.quick()
    tot = {"cases": 0, "evals": 0, "nontrivial": 0}
    plan = [("pos-exh", "FetchCases.tla", "FetchCases_exh.cfg" if quick else "FetchCases_exh3.cfg", None, ["-kind", "pos"]),
            ("pos-rand", "FetchCases.tla", "FetchCases_rand.cfg", "num=%d" % (300 if quick else 3000), ["-kind", "pos"]),
            ("stream", "FetchStream.tla", "FetchStream_quick.cfg" if quick else "FetchStream.cfg", None, ["-kind", "stream"])]
    r = vlib.run_tlc(ctx, "FetchStream.tla", "FetchStream_live.cfg", timeout=1200, deadlock=False)
    if r.violated:
        raise vlib.Infra("TLC: %s violated in FetchStream.tla (liveness)" % r.violated)
    vlib.require_tlc_ok(r, "FetchStream liveness")
    for label, mod, cfg, sim, args in plan:
        cf = os.path.join(ctx.scratch, "fetch-%s.jsonl" % label)
        r = vlib.run_tlc(ctx, mod, cfg, case_file=cf, simulate=sim, depth=40 if sim else None,
                         workers=(1 if quick else 8) if sim else None, timeout=3400)
        if r.violated:
            raise vlib.Infra("TLC: %s violated in %s (%s)" % (r.violated, mod, cfg))
        vlib.require_tlc_ok(r, mod + " " + cfg)
        mism, summ, _ = vlib.run_cases(ctx, drv, args + ["-workers", str(vlib.NCPU)], cf, label=label, timeout=3400)
        for k in tot:
            tot[k] += summ[k]
        for m in mism:
            w = (m.get("what") or "")
            kindw = "crash" if w == "crash" else w.split(":")[0][:40]
            ctx.violation("fetch:%s:%s" % (label.split("-")[0], kindw), m,
                          what="Fetch disagrees with the specification: " + w[:200] + (" | " + m.get("stderr", "")[-300:] if w == "crash" else ""))
        with open(cf) as fh:
            for i, ln in enumerate(fh):
                if i % 4001 == 3 and len(ctx.cov["samples"]) < 4:
                    ctx.cov["samples"].append(json.loads(ln))
    # fractions of real size and every form: document blocks (many per fraction, 4 KiB blocks in half of the shapes),
    # ID blocks, a second fraction sealed in the same process, restart: IndexLayout.tla's shapes (C03's machinery),
    # fetch lists around the ID-block borders with absent IDs mixed in
    import re
    from checks import c03
    sdrv = vlib.build_driver("shapes")
    scf, ssumm = c03.replay_shapes(ctx, sdrv, "IndexLayout_real_small.cfg" if quick else "IndexLayout_real.cfg", "fetch:big", only_fetch=True)
    c03.pooled_seal_stage(ctx, sdrv, scf, "fetch:big")
    for k in tot:
        tot[k] += ssumm[k]
    # fractions that are skipped by their time range / occupancy map (Sealed.Contains): TimePrune.tla's real stores (C14's module)
    tdrv = vlib.build_driver("timeprune")
    tf = os.path.join(ctx.scratch, "fetch-time.jsonl")
    r = vlib.run_tlc(ctx, "TimePrune.tla", "TimePrune_real.cfg", case_file=tf, heap="3g", timeout=3400, workers=1,
                     simulate="num=%d" % (120 if quick else 600), depth=7)
    if r.violated:
        raise vlib.Infra("TLC: %s violated in TimePrune.tla" % r.violated)
    vlib.require_tlc_ok(r, "TimePrune real (for C04)")
    mism, summ, _ = vlib.run_cases(ctx, tdrv, ["-mode", "e2e", "-workers", str(vlib.NCPU)], tf, label="fetch-time", timeout=3000, chunk=500)
    for k in tot:
        tot[k] += summ[k]
    for m in mism:
        if m.get("level") == "conformance" or "fetch" not in str(m.get("what", "")):
            continue
        what = re.sub(r"\d+", "N", str(m.get("what", "")))
        ctx.violation("fetch:time:%s:%s" % (m.get("path", m.get("form")), what[:48]), m,
                      what="a stored document is not fetched from a fraction that is consulted by time range: " + str(m.get("what"))[:160])
    # "never crash or hang the store": fetches of stored and absent IDs while bulks are being indexed, fractions rotated
    # and sealed (the concurrent workload of C07's stress driver; every fetched document is compared byte for byte)
    sdr = vlib.build_driver("stress")
    rc, outs, err = vlib.run_driver(sdr, ["-bulks", "1500" if quick else "6000", "-seed", str(ctx.seed), "-readers", "16"], timeout=3000, ok_codes=range(0, 256))
    ssum = next((o for o in outs if o.get("summary")), None)
    if rc != 0 or not ssum:
        ctx.violation("fetch:concurrent:crash", {"stderr": err[-2000:]}, what="the store died while documents were fetched during ingestion: " + err[-300:])
    else:
        tot["evals"] += ssum["evals"]
        for o in outs:
            if "what" in o and ("fetch" in str(o["what"]) or "did not return" in str(o["what"])):
                ctx.violation("fetch:concurrent:%s" % str(o["what"])[:40], o, what="fetch during ingestion: " + str(o["what"]))
    ctx.cov["traces_validated_against_impl"] = tot["cases"]
    ctx.cov["evaluations"] = tot["evals"]
    ctx.cov["distinct_nontrivial"] = tot["nontrivial"]
    ctx.cov["exhaustive"] = True
    ctx.cov["rule"] = ("pos: (corpus of <=MaxDocs docs in two fractions: part 1 sealed, part 2 active or sealed) x request of <=MaxIDs distinct IDs over "
                       "stored IDs and absent IDs (timestamps 0..4, random part below/between/above), any order, with or without the right hint; "
                       "exhaustive for <=2 (thorough 3) docs x <=3 IDs over XIDs, simulated for <=5 docs x <=5 IDs. "
                       "stream: every request of <=2 (thorough 3) runs <<count in {1,10,999,1001}, doc size in {absent,1,7,100,5000 bytes}>> with "
                       "MaxFetchSizeBytes=4096, active and sealed; non-trivial = at least one stored ID requested")
    ctx.assumptions += ["hints are only ever the right fraction (the proxy copies them from the search answer)",
                        "document size classes up to 5000 bytes with MaxFetchSizeBytes lowered to 4096 stand for documents larger than the 4 MiB default",
                        "100k-ID requests are not generated (count classes up to 1001 per run)"]
