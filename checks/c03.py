"""C03 — answers do not depend on the form of a fraction: active = sealed = reloaded = any cache.

Spec: IndexLayout.tla.  The on-disk layout of a sealed fraction is transcribed as arithmetic over
posting counts and TLC decides, exhaustively with small block capacities (Cap = 3 LIDs per block,
3 IDs per block, 16-byte token blocks):
  layout   getLIDsBlockGenerator x lids.Table: every token's chunks are exactly the chunks the
           iterators reach from First/LastBlockIndexForTID, chunk counts = MaxTID - adjMinTID + 1,
           no empty block, pack/unpack round trip, monotone tables under the binary searches, and
           the arithmetic short cut for runs of unique tokens equals single steps (LayoutOK);
  iter     IteratorDesc/IteratorAsc + narrowLIDsRange over every field of <= 2..3 tokens with
           arbitrary LID sets and every [minLID, maxLID] = the token's LIDs in range (IterOK);
  ids      sealedIDsIndex.LessOrEqual (min-ID registry short cuts), getLIDsBorders and findLIDs =
           plain ID comparison for every ID table with repeated / skipped timestamps (IdsOK);
  tokens   getTokensBlocksGenerator x writeTokensBlocks: every TID addressed by exactly one table
           entry, the generator always advances (TokensOK; the as-is formula of finding #9 is kept
           as the named deviation Finding9 = TRUE and must violate it: non-vacuity self-test);
  ref      the interval arithmetic that computes expected answers = plain set semantics (RefOK), incl. the
           aggregation answers (count / unique grouped by g, k, u, x; numeric samples of the u values
           grouped by g or ungrouped) and the preconditions of the probe generator (ProbeSane);
  realall  the same layout invariants for every combination of the boundary classes at the REAL
           constants (65536 LIDs, 4096 IDs, 16 KiB).
Binding: mode `real` emits shape classes at the real constants (a fixed core list + shapes drawn
from the seed) with a store configuration, the predicted block layout and 100-450 probes with their
answers (searches, histograms, fetch lists and aggregations; the aggregation probes over the u / k
dictionaries are derived from the predicted token-table entries: the documents whose token is the
first / last one of every picked entry (token block), all borders at once, each border token alone,
a time cut around it, the whole dictionary when it is small); harness/cmd/shapes builds each corpus
for real and asks every probe of the active
fraction, the freshly sealed one, the store restarted from files and the store restarted with the
other cache class, and compares the .index file read back through the real readers with the
predicted layout."""
import json
import os
import re
from concurrent.futures import ThreadPoolExecutor

import vlib

LEVEL = "model_checking"

DESIGN_QUICK = [("layout", "LayoutOK"), ("iter", "IterOK"), ("ids", "IdsOK"), ("tokens", "TokensOK"),
                ("ref", "RefOK"), ("realall", "RealLayoutOK")]
DESIGN_THOROUGH = [("layout3", "LayoutOK"), ("iter3", "IterOK"), ("ids8", "IdsOK"), ("tokens3", "TokensOK"),
                   ("ref8", "RefOK"), ("realall3", "RealLayoutOK")]


def _design(ctx, name):
    r = vlib.run_tlc(ctx, "IndexLayout.tla", "IndexLayout_%s.cfg" % name, tags=("NOCASE",), timeout=3300)
    return name, r


def emit_shapes(ctx, cfg, prefix):
    cf = os.path.join(ctx.scratch, "shapes-%s.jsonl" % prefix)
    r = vlib.run_tlc(ctx, "IndexLayout.tla", cfg, case_file=cf, env={"C03_SEED": ctx.seed}, timeout=3300)
    if r.violated:
        raise vlib.Infra("TLC: %s violated while emitting real shapes" % r.violated)
    vlib.require_tlc_ok(r, "IndexLayout real emission")
    if r.ncases == 0:
        raise vlib.Infra("no shapes emitted")
    return cf


def replay_shapes(ctx, drv, cfg, prefix, only_search=False, only_fetch=False):
    """Emit shapes at the real constants (mode `real`) and replay them on real fractions in four forms.
    Also used by C02 (search answers over posting lists that span several LID / ID / token blocks)."""
    cf = emit_shapes(ctx, cfg, prefix)
    mism, summ, _ = vlib.run_cases(ctx, drv, ["-workers", str(max(4, vlib.NCPU))], cf, label="shapes", chunk=200, timeout=3400)
    for m in mism:
        what = str(m.get("what", ""))
        if m.get("path") == "seal" and m.get("f9"):
            sig = "%s:finding9:seal-panic" % prefix
        elif what == "crash":
            sig = "%s:crash:%s" % (prefix, m.get("form"))
        else:
            kind = re.split(r"[ :\[]", what.strip(), 1)[0][:24]       # ids / total / histogram / agg / fetch / panic / ...
            if only_search and kind in ("fetch", "layout"):
                continue
            if only_fetch and kind not in ("fetch", "panic", "error"):
                continue
            sig = "%s:%s:%s:%s" % (prefix, m.get("form"), m.get("path"), kind)
        ctx.violation(sig, m, what="shape %s, form %s via %s: %s" % (m.get("i"), m.get("form"), m.get("path"), what[:300]))
    return cf, summ


def pooled_seal_stage(ctx, drv, cf, prefix):
    """Objects that sealing takes from sync.Pools (document-block writers, buffers) must not stay referenced by the
    sealed fraction: a few small shapes with 4 KiB document blocks are sealed one after the other by ONE goroutine on
    ONE processor with the collector off, so that the next seal certainly gets the previous seal's pooled objects;
    the first fraction is probed again after the second seal (form sealed2)."""
    picked = []
    with open(cf) as fh:
        for ln in fh:
            c = json.loads(ln)
            if c["i"] % 2 == 1 and not c.get("f9") and not c["cfg"].get("skipSort"):     # 4 KiB document blocks, sorted-docs rewriting on
                picked.append((c["shape"]["n"] * c["shape"].get("bsz", 40), ln))
    picked = [ln for _, ln in sorted(picked)[:4]]
    if not picked:
        return
    pth = os.path.join(ctx.scratch, "shapes-pool-%s.jsonl" % prefix.replace(":", "_"))
    with open(pth, "w") as fh:
        fh.writelines(picked)
    rc, outs, err = vlib.run_driver(drv, ["-workers", "1", "-forms", "active,sealed,sealed2"], stdin_path=pth, timeout=1800,
                                    env={"GOMAXPROCS": "1", "GOGC": "off"}, ok_codes=range(0, 256))
    if rc != 0 and not any("what" in o for o in outs):
        raise vlib.Infra("shapes (pooled seal stage) died: " + err[-1500:])
    for o in outs:
        if o.get("infra"):
            raise vlib.Infra("shapes (pooled seal stage): " + str(o["infra"]))
        if "what" in o and not o.get("summary"):
            kind = re.split(r"[ :\[]", str(o["what"]).strip(), 1)[0][:24]
            ctx.violation("%s:pooled-seal:%s:%s:%s" % (prefix, o.get("form"), o.get("path"), kind), o,
                          what="shape %s, form %s via %s (fractions sealed one after the other on one processor): %s" % (
                              o.get("i"), o.get("form"), o.get("path"), str(o["what"])[:300]))


def run(ctx):
    drv = vlib.build_driver("shapes")
    quick = ctx.quick()
    # 1. the design, decided on the model
    plan = DESIGN_QUICK if quick else DESIGN_THOROUGH
    with ThreadPoolExecutor(max_workers=3) as ex:
        results = list(ex.map(lambda nv: _design(ctx, nv[0]), plan))
    for (name, inv), (_, r) in zip(plan, results):
        if r.violated:
            raise vlib.Infra("TLC: %s violated in IndexLayout.tla (%s)" % (r.violated, name))
        vlib.require_tlc_ok(r, "IndexLayout " + name)
    # non-vacuity: the as-is block-size formula (finding #9) must break TokensOK
    r = vlib.run_tlc(ctx, "IndexLayout.tla", "IndexLayout_tokens_asis9.cfg", tags=("NOCASE",), timeout=600, quiet=True)
    if r.violated != "TokensOK":
        raise vlib.Infra("self-test failed: TokensOK is not violated by the as-is blockSize formula (violated=%s)" % r.violated)
    ctx.cov["selftest"] = "IndexLayout_tokens_asis9.cfg (Finding9 = TRUE) violates TokensOK as required"
    # 2. shapes at the real constants -> real fractions in every form
    cf, summ = replay_shapes(ctx, drv, "IndexLayout_real.cfg" if quick else "IndexLayout_realth.cfg", "c03")
    pooled_seal_stage(ctx, drv, cf, "c03")
    nshape = nprobe = 0
    nagg = {}
    with open(cf) as fh:
        for ln in fh:
            c = json.loads(ln)
            nshape += 1
            nprobe += len(c["probes"])
            for pe in c["probes"]:
                if pe["p"]["t"] == "a":
                    k = "%s by %s" % (pe["p"]["fn"], pe["p"]["by"] or "-")
                    nagg[k] = nagg.get(k, 0) + 1
            if len(ctx.cov["samples"]) < 3 and c["i"] in (2, 4, 11):
                ctx.cov["samples"].append({"i": c["i"], "shape": c["shape"], "cfg": c["cfg"], "f9": c["f9"],
                                           "layout.lids": c["layout"]["lids"], "idBlocks": len(c["layout"]["idBlocks"]),
                                           "probes": len(c["probes"]), "probe_sample": c["probes"][7:9]})
    ctx.cov["traces_validated_against_impl"] = summ["cases"]
    ctx.cov["evaluations"] = summ["evals"]
    ctx.cov["distinct_nontrivial"] = summ["nontrivial"]
    ctx.cov["layouts_compared_with_index_file"] = summ["corpora"]
    ctx.cov["probes_emitted"] = nprobe
    ctx.cov["aggregation_probes_emitted"] = dict(sorted(nagg.items()))
    ctx.cov["exhaustive"] = True
    ctx.cov["rule"] = (
        "design: every state of the small-scope modes is one input (layout: <=2 fields x <=2 (thorough 3) tokens x 1..7 postings, Cap 3; "
        "iter: fields of <=2 tokens over all non-empty LID subsets of 1..6 (thorough 3 tokens over 1..5), Cap 2, every [minLID,maxLID]; "
        "ids: every ID table of <=7 (8) documents with timestamp steps 0/1/2, 3 IDs per block; tokens: <=2 fields x <=3 tokens x 8 sizes around a "
        "16-byte block; ref: every shape of 3..6 (8) documents with <=2 k intervals x every probe; realall: every combination of the count classes "
        "{1,2,Cap-1,Cap,Cap+1,2Cap-1,2Cap,2Cap+1} for <=2 (3) tokens x document classes x u-dictionary classes at the real constants). "
        "cases: one per real shape = 8 core shapes + 2 over-size-token shapes + NCases shapes drawn from the seed over the classes "
        "(documents around 4096-ID and 65536-LID borders, 1/3/5000 documents per timestamp, posting intervals low/mid/high, token names of "
        "2 B..17 KiB, u dictionaries around one 16 KiB block and around the packing threshold, bodies 12/40/700 B) x store configuration "
        "(sorted-docs rewriting on/off, cache 64 KiB with the real cleaner every 1 ms or 256 MiB, zstd level, bulk size, arrival order); "
        "probes per shape: searches / histograms / fetch lists as before, and aggregations = count and unique grouped by g, k, u, x and the "
        "numeric samples (count, min, max, sum, not-exists) of the u values grouped by g / ungrouped, over document sets derived from the "
        "predicted token-table entries of the u dictionary (<= 7, thorough <= 40 entries: all; else 6 picked) and over the documents with "
        "exactly one k token, every k token alone, the field after the dictionary; "
        "evaluations = probe executions (each unique probe x 6 forms, a third also through the Searcher, one fetch list through GrpcV1.Fetch); "
        "non-trivial = search probes with a non-empty expected answer")
    ctx.assumptions += [
        "sizes are boundary classes, not every size; inside a class one representative corpus is built (documents i = 1..n with timestamp base + i div d, RID = i)",
        "k tokens hold contiguous document intervals, u tokens are zero-padded decimals (prefix queries = intervals); the iterators are decided for arbitrary LID sets only in the small scope",
        "every document carries the _all_ token (as the proxy emits it)",
        "group-by k is asked only of document sets on which every document has at most one k token (which token stands for a multi-valued document is unspecified); aggregation literals are `<field>:*` as storeapi builds them; quantiles are not asked",
        "cache coherence under forced schedules is C18's subject; here the real cleaner runs every millisecond with a 64 KiB budget while the probes run",
        "PreloadedData tables are compared with the tables loaded from the file only through the answers they produce (no accessor for the tables of a Sealed); the file itself is compared with the model",
    ]
