"""C01 — acknowledged bulks survive any crash/restart history, intact and uncorrupted.

Spec: WritePath.tla (write path of the active fraction: mutex, docs write+fsync, meta write+fsync,
unlock, ack; crash keeping the synced prefix plus any prefix of the unsynced suffix; replay).  TLC
checks NoForeignBytes, AckedDurable, AlwaysComesUp and the action property AckOnlyDurable
exhaustively for the repaired design (Fixed = TRUE) — the pinned design (Fixed = FALSE) violates the
first and the third, which is how the two defects repaired by the `fix:` commit were found.
Binding: (B1) every crash/restart history of the as-is model (one behaviour per Restart edge, no
VIEW, so histories that the repaired model would merge are kept) is replayed on a real store by the
`crash` driver; (B2) concurrent executions of the real write path recorded through the verif hooks
are validated against WritePathTrace.tla, with a corrupted-trace self-test; (B2, whole store)
histories of real store processes with several fractions, rotation, seals, retention and process
deaths at random hook points are validated against StoreTrace.tla (checks/_store.py)."""
import json
import os
import shutil
import vlib
from checks import _store

LEVEL = "model_checking"


def run(ctx):
    quick = ctx.quick()
    drv = vlib.build_driver("crash")
    rec = vlib.build_driver("wptrace")
    # 1. the design
    r = vlib.run_tlc(ctx, "WritePath.tla", "WritePath.cfg" if quick else "WritePath_4.cfg", workers=1, tags=("NOCASE",), timeout=3000)
    if r.violated:
        raise vlib.Infra("TLC: %s violated in WritePath.tla (repaired design)" % r.violated)
    vlib.require_tlc_ok(r, "WritePath design")
    # 2. behaviours -> real store
    cf = os.path.join(ctx.scratch, "wp.jsonl")
    r = vlib.run_tlc(ctx, "WritePath.tla", "WritePath_emit.cfg" if quick else "WritePath_emit3.cfg", workers=1, case_file=cf, timeout=3000)
    vlib.require_tlc_ok(r, "WritePath emission")
    mism, summ, _ = vlib.run_cases(ctx, drv, ["-seed", str(ctx.seed), "-workers", str(vlib.NCPU)], cf, label="crash", chunk=400, timeout=3400)
    for m in mism:
        w = str(m.get("what"))
        kind = "crash-in-load" if w == "crash" else w.split(":")[0][:40]
        ctx.violation("writepath:replay:%s" % kind, m, what="after crash/restart the store differs from WritePath.tla: " + w[:200] + (" | " + m.get("stderr", "")[-400:] if w == "crash" else ""))
    with open(cf) as fh:
        for i, ln in enumerate(fh):
            if i % 701 == 13 and len(ctx.cov["samples"]) < 3:
                ctx.cov["samples"].append(json.loads(ln))
    # 3. recorded executions -> trace spec
    tr = os.path.join(ctx.scratch, "wp-trace.ndjson")
    runs = 25 if quick else 300
    rc, outs, err = vlib.run_driver(rec, ["-runs", str(runs), "-seed", str(ctx.seed), "-out", tr], timeout=1800)
    ev = next((o for o in outs if o.get("summary")), None)
    if not ev:
        raise vlib.Infra("wptrace produced no summary: " + err[-500:])
    res = vlib.validate_trace(ctx, "WritePathTrace.tla", "WritePathTrace.cfg", tr, timeout=3000)
    if not res["accepted"]:
        keep = os.path.join(vlib.OUT, "C01")
        os.makedirs(keep, exist_ok=True)
        dst = os.path.join(keep, "trace-%s-%d.ndjson" % (ctx.tier, ctx.seed))
        shutil.copy(tr, dst)
        ctx.violation("writepath:trace:%s" % (res["violated"] or "rejected"),
                      {"trace": dst, "matched_lines": res["matched"], "first_unmatched": res["next_line"], "violated": res["violated"]},
                      what="recorded write-path execution is not a behaviour of WritePath.tla (matched %d of %d events; next: %s; violated: %s)" % (
                          res["matched"], res["total"], res["next_line"], res["violated"]))
    else:
        def swap(lines):
            for i in range(len(lines) - 1):
                if '"DS"' in lines[i] and '"MW"' in lines[i + 1]:
                    lines[i], lines[i + 1] = lines[i + 1], lines[i]
                    return lines
            return lines[:-1]

        def drop(lines):
            idx = [i for i, l in enumerate(lines) if '"MS"' in l]
            del lines[idx[len(idx) // 2]]
            return lines
        vlib.selftest_trace(ctx, "WritePathTrace.tla", "WritePathTrace.cfg", tr, swap)
        vlib.selftest_trace(ctx, "WritePathTrace.tla", "WritePathTrace.cfg", tr, drop)
    # 3a. recorded executions of OTHER drivers of the real write path: the repository's own tests (fsync on) and a concurrent
    # workload of writers, readers and the maintenance loop over one store run with --skip-fsync (WritePath.tla's SkipFsync
    # mode); every active fraction's life, cut into segments of 24 bulks, must be a behaviour of WritePath.tla
    from checks import _suite, _wpsuite
    r = vlib.run_tlc(ctx, "WritePath.tla", "WritePath_skipfsync.cfg", tags=("NOCASE",), timeout=600)
    if r.violated:
        raise vlib.Infra("TLC: %s violated in WritePath.tla (SkipFsync)" % r.violated)
    vlib.require_tlc_ok(r, "WritePath skip-fsync")
    pkgs = ["./fracmanager/", "./storeapi/", "./frac/"] if quick else ["./fracmanager/", "./storeapi/", "./frac/", "./proxyapi/", "./tests/integration_tests/", "./cmd/..."]
    sfiles = _suite.record(ctx, pkgs)
    ht = vlib.build_driver("handtrace")
    for i in range(2 if quick else 10):
        d = os.path.join(ctx.scratch, "wp-handtrace-%d" % i)
        os.makedirs(d)
        rc, outs, err = vlib.run_driver(ht, ["-bulks", "150", "-seed", str(ctx.seed * 10 + i), "-total", "0", "-writers", "4"] + (["-skip"] if i % 2 else []),
                                        timeout=1200, ok_codes=range(0, 256), env={"VERIF_TRACE_DIR": d, "LOG_LEVEL": "error"})
        if rc != 0 or not any(o.get("summary") for o in outs):
            ctx.violation("writepath:workload:crash", {"stderr": err[-2000:]}, what="the store died during a concurrent ingest workload: " + err[-300:])
        sfiles += [os.path.join(d, f) for f in sorted(os.listdir(d))]
    nseg, nev = _wpsuite.validate(ctx, sfiles, "suite", "writepath:suitetrace")
    ctx.cov["suite_writepath_traces"] = {"segments": nseg, "events": nev, "packages": pkgs}
    # 3a'. documents of fractions with MANY document blocks, sealed one after the other in one process (what a start does with
    # the unsealed fractions a crash left behind): objects the sealer takes from pools must not stay referenced by the
    # sealed fraction - IndexLayout.tla's shapes with 4 KiB document blocks, C03's pooled-seal stage (fetch, byte-exact)
    from checks import c03
    sdrv = vlib.build_driver("shapes")
    scf = c03.emit_shapes(ctx, "IndexLayout_real_small.cfg", "writepath:big")
    c03.pooled_seal_stage(ctx, sdrv, scf, "writepath:big")
    # 3b. long behaviours in the same action alphabet (hundreds of acknowledged bulks with a size profile: one very large
    # bulk, >200 very small ones, again; one or two index workers; restarts in between): the per-worker buffers that
    # outlive a bulk and are re-sized from statistics over the last 200 bulks
    nsoak = 6 if quick else 60
    rc, outs, err = vlib.run_driver(drv, ["-soak", str(nsoak), "-seed", str(ctx.seed)], timeout=1800, ok_codes=(0, 2))
    sk = next((o for o in outs if o.get("summary")), None)
    if not sk and rc == 2 and ("panic:" in err or "fatal error:" in err):
        # the store process (in-process here) died while ingesting / replaying acknowledged bulks
        ctx.violation("writepath:soak:store-died", {"stderr": err[-3000:], "args": ["-soak", str(nsoak), "-seed", str(ctx.seed)]},
                      what="the store died during a long history of acknowledged bulks: " + err[-300:])
        sk = {}
    elif not sk:
        raise vlib.Infra("crash -soak produced no summary: " + err[-500:])
    for m in outs:
        if m.get("op") == "soak":
            ctx.violation("writepath:soak:%s" % str(m.get("what")).split(": ", 2)[-1][:40], m,
                          what="a long history of acknowledged bulks (WritePath.tla: AckedDurable / NoForeignBytes): " + str(m.get("what"))[:300])
    ctx.cov["soak"] = {"histories": nsoak, "bulks": sk.get("bulks"), "check_points": sk.get("evals")}
    # 3c. crashes at every step of the seal and of the release that follows it (Lifecycle.tla's crash states, C08/C15's
    # machinery): the acknowledged documents of the fraction must be served after the restart whatever file set the
    # crash left behind (the random process deaths of stage 4 reach the few-instruction windows of Release only by luck)
    from checks import _lifecycle as lc
    lc.design(ctx)
    lsumm = lc.replay_states(ctx, lc.states(ctx, lambda c: True), "writepath")
    ctx.cov["lifecycle_crash_states"] = lsumm.get("cases")
    # 4. whole-store histories (several fractions, rotation, seals, retention, process deaths at hook points)
    sruns, sev = _store.histories(ctx, "writepath", runs=120 if quick else 2500, scenario_runs=0)
    ctx.cov["traces_validated_against_impl"] = summ["cases"] + runs + sruns
    ctx.cov["trace_events"] = ev.get("events", 0)
    ctx.cov["evaluations"] = summ["evals"] + ev.get("events", 0)
    ctx.cov["distinct_nontrivial"] = summ["nontrivial"]
    ctx.cov["exhaustive"] = True
    ctx.cov["rule"] = ("behaviours: every history of <=3 bulks with <=2 (thorough 3) crashes at every point of the write path (between the file operations "
                       "and with the unsynced suffix kept / dropped / torn) followed by restart and further ingestion, one behaviour per Restart edge of the as-is "
                       "model; torn lengths are drawn per case from {1,32,33,34,len/2,len-1} bytes, bulk shapes from the seed; every second restart is preceded by a start that is cancelled after 0, 1 or 2 replayed meta blocks (AbortedStart); after every restart every acked "
                       "document is searched by its own and by the shared token and fetched byte-exact, unacked bulks must be all-or-nothing. traces: "
                       "%d recorded runs of 24 bulks from 1..4 concurrent writers with real fsync. non-trivial = behaviours with >=1 crash; plus %d long histories (about 500 bulks each, sizes 600/300/900 then >200 bulks of 1-2 documents, restarts in between) checked at every phase end" % (runs, nsoak))
    ctx.assumptions += ["a crash keeps the fsynced prefix of a file and an arbitrary prefix of what was written after it (no reordering inside a file)",
                        "crash images are produced by letting the real write path finish the bulk in flight and cutting the two files back",
                        "the byte-level crash images use a single active fraction; several fractions, rotation, sealing and retention are covered by the whole-store histories (process deaths at hook points, page cache kept) and by C08/C15", "the kernel honours fsync"]
