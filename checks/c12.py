"""C12 — query parsing is total and preserves the boolean meaning of the query.

Spec: Parser.tla.  TLC
  (a) decides the design: the transcription of parser/ast_node.go:propagateNot keeps the truth table of
      every tree and leaves at most one NOT, at the root (NotPropagationPreservesMeaning, AtMostOneTopNot);
      the transcriptions of the two-accumulator loops (parseSeqQLFilter, parseExpr) accept exactly the
      reference precedence grammar and build a tree with the denotation of the written expression
      (RenderIsWellFormed, RenderDenotesTree, ParserEqualsReference, LegacyEqualsSeqQL,
      AcceptsExactlyTheGrammar); the transcriptions of the loops that cut the value of a field filter into words
      and terms (parseSeqQLText, parseSeqQLKeyword over the encoded token, byte offsets advanced by the decoded
      width; textTokenBuilder / keywordTokenBuilder over runes) give, for every rune string over a palette of word
      runes / separators / wildcard of every UTF-8 width 1..4, both cases and an invalid byte, exactly the maximal
      runs of word runes of the declarative reference (ValueSplitsIntoWords), and each such phrase keeps its meaning
      under not / or / and-not / in(...) (PhraseContextsKeepMeaning);
      the palette holds the letters at both ends of the ASCII / Latin-1 / Cyrillic case ranges with their non-letter
      neighbours, and both languages must return the same case-folded terms; a filter on field f is read with the type
      of the untitled entry of f's declared type list wherever it stands, f.title with that entry's (QueryType);
      the transcription of the pipe part (parsePipes / parsePipeFields / parseFieldList / parseCompositeToken over the lexer's
      tokens, and the tail of ParseSeqQL with its "lexer is not end" panic) ends, for every tail of tokens - bar, fields,
      except, commas, bare names, quoted tokens of the three kinds incl. the empty one and those spelling a keyword or a
      separator, with and without spaces - in the outcome and field list of the declarative reference RefPipes, never in
      the panic (PipesEqualReference);
  (b) emits every rune string of the phrase walk as the value of a text and of a keyword field in each context and
      spelling (quoted with ", ' or `, or bare where the lexer allows it), with the truth table over its words;
      emits every (tree, parenthesisation, spelling) with the truth table of the tree, every well-formed
      lexeme sequence of the grammar walk with its table, every pipe tail behind each kind of filter expression with
      the outcome (query / error), the pipes and the truth table the reference requires, and every hostile lexeme
      sequence of the totality walk with the allowed outcomes {ok, err}.
The Go driver `parserdrv` feeds the spelled strings to parser.ParseSeqQL / ParseQuery /
ParseAggregationFilter under the declared mapping of the case (written as a mapping file and converted by the real
seq.ReadMapping: single-type fields, multi-type fields with the main type first / last / in the middle), the nil
mapping and per-type mappings: the returned AST (incl. NAND) must have the
table of the specification and no leaf that is not a word of the expression; a panic or a call that does not return is a totality violation.  A short walk
is also sent through GrpcV1.Search of a real store."""
import concurrent.futures
import json
import os
import re

import vlib

LEVEL = "model_checking"

def _plan(quick, seed):
    """(label, cfg, tlc kwargs, driver args, emits cases)"""
    nw = max(2, vlib.NCPU // 2)
    sim = dict(workers=2 if quick else 4)
    p = [
        ("pn2", "Parser_pn2.cfg", dict(workers=nw), [], True),
        ("rich2", "Parser_rich2q.cfg" if quick else "Parser_rich2.cfg", dict(workers=nw), [], True),
        ("gwalk", "Parser_gwalk6.cfg" if quick else "Parser_gwalk8.cfg", dict(workers=nw), [], True),
        # RandomElement draws the same sequence in every TLC worker: one worker
        ("randtree", "Parser_rand.cfg", dict(simulate="num=%d" % (120 if quick else 1500), depth=6, workers=1), [], True),
        # (iv) field values as rune strings: every string of <= 2 (thorough 3) runes over the 26-rune palette and of
        # <= 3 (thorough 5) runes over one rune per (class, width), in the contexts, plus seeded random strings of <= 10
        ("phraseP", "Parser_phraseP2.cfg" if quick else "Parser_phraseP3.cfg", dict(workers=nw), [], True),
        ("phraseQ", "Parser_phraseQ3.cfg" if quick else "Parser_phraseQ5.cfg", dict(workers=nw), [], True),
        ("randphrase", "Parser_randphrase.cfg", dict(simulate="num=%d" % (8 if quick else 60), depth=11, **sim), [], True),
        ("walkA", "Parser_walkA3q.cfg" if quick else "Parser_walkA4.cfg", dict(workers=nw), [], True),
        ("walkB", "Parser_walkB3q.cfg" if quick else "Parser_walkB4.cfg", dict(workers=nw), [], True),
        ("randwalkA", "Parser_randwalkA.cfg", dict(simulate="num=%d" % (40 if quick else 400), depth=17, **sim), [], True),
        ("randwalkB", "Parser_randwalkB.cfg", dict(simulate="num=%d" % (40 if quick else 400), depth=17, **sim), [], True),
        ("walkU", "Parser_walkU3q.cfg" if quick else "Parser_walkU4.cfg", dict(workers=nw), [], True),
        ("randwalkU", "Parser_randwalkU.cfg", dict(simulate="num=%d" % (40 if quick else 400), depth=17, **sim), [], True),
        # (vi) the pipe part: every tail of <= 3 (thorough 4) tokens behind  nothing / | fields / | fields except / | fields a |  over the 15-token
        # pipe alphabet in 5 spacings, with the outcome and field list of the reference grammar; seeded random tails of
        # <= 12 tokens; hostile walk over pieces (quote characters, backslash, comment, 0xFF) behind  f:x|fields
        ("pipeT", "Parser_pipeT3.cfg" if quick else "Parser_pipeT4.cfg", dict(workers=nw), [], True),
        ("randpipe", "Parser_randpipe.cfg", dict(simulate="num=%d" % (8 if quick else 40), depth=13, **sim), [], True),
        ("walkP", "Parser_walkP3q.cfg" if quick else "Parser_walkP4.cfg", dict(workers=nw), [], True),
        ("store", "Parser_walkS.cfg", dict(workers=2), ["-store"], True),
        ("deep", "Parser_deepq.cfg" if quick else "Parser_deep.cfg", dict(workers=2), ["-hang", "300s", "-deepworkers"], True),
    ]
    if not quick:
        p.insert(1, ("pn3", "Parser_pn3.cfg", dict(workers=vlib.NCPU), [], False))
        # every tail of the quick scope with each of the three quote kinds at each position
        p.append(("pipeQ", "Parser_pipeQ3.cfg", dict(workers=nw), [], True))
        p.append(("randwalkP", "Parser_randwalkP.cfg", dict(simulate="num=400", depth=17, **sim), [], True))
    return p


def _sig(label, m):
    what = m.get("what", "")
    if what == "outcome":
        got = str(m.get("got", ""))
        kind, _, msg = got.partition(": ")
        msg = re.sub(r"[0-9]+", "N", re.sub(r"[&{].*$", "", msg))[:60].strip()
        return "totality:%s:map=%s:%s:%s" % (m.get("fn"), m.get("map"), kind, msg)
    if what == "crash":
        err = m.get("stderr", "") or ""
        h = re.search(r"HANG n=\d+ fn=(\S+) map=(\S+)", err)
        if h:
            return "totality:%s:map=%s:hang" % (h.group(1), h.group(2))
        pm = re.search(r"^(panic|fatal error): (.*)$", err, re.M)
        return "totality:crash:%s" % ((pm.group(2)[:60] if pm else "driver died"),)
    if what == "pipe grammar":
        got = str(m.get("got", ""))
        kind, _, msg = got.partition(": ")
        return "pipes:%s:map=%s:%s where the grammar says %s:%s" % (
            m.get("fn"), m.get("map"), kind, str(m.get("exp", "")).split(" ")[0], re.sub(r"[0-9]+", "N", msg)[:50].strip())
    if what == "pipes":
        return "pipes:%s:map=%s:field list" % (m.get("fn"), m.get("map"))
    return "meaning:%s:%s" % (what, m.get("fn"))


_SHOW = {"<SP>": " ", "<DQ>": '"', "<SQ>": "'", "<BQ>": "`", "<BS>": "\\", "<NL>": "\\n", "<BAD>": "\\xff", "<PUA>": "\\ue000"}


def _show(pieces):
    s = "".join(_SHOW.get(x, x) for x in pieces)
    for k, v in _SHOW.items():          # names inside a piece (<BS>*)
        s = s.replace(k, v)
    return re.sub(r"<U\+([0-9A-F]{4,6})>", lambda m: "\\u{%s}" % m.group(1), s)


def _sample(label, c):
    """a real case, shortened for the evidence file"""
    if c.get("kind") == "sem":
        return {"family": label, "kind": "sem", "query": _show(c["q"]), "parsers": c["langs"], "atoms": c["atoms"],
                "required_truth_table": c["tt"]}
    if c.get("kind") == "pipe":
        return {"family": label, "kind": "pipe", "query": _show(c["q"]), "tail_tokens": c["toks"], "required_outcome": c["exp"],
                "required_pipes": c["pipes"], "atoms": c["atoms"], "required_truth_table": c["tt"]}
    if c.get("kind") == "deep":
        return {"family": label, "kind": "deep", "shape": c["shape"], "n": c["n"], "allowed": c["allowed"]}
    return {"family": label, "kind": "tot", "prefix": _show(c["pre"]), "extended_by_up_to": c["k"],
            "mappings_of_f": c["maps"], "allowed": c["allowed"]}


def run(ctx):
    drv = vlib.build_driver("parserdrv")
    quick = ctx.quick()
    if getattr(ctx, "replay", None):
        return _replay(ctx, drv)
    plan = _plan(quick, ctx.seed)
    files = {}

    def tlc(item):
        label, cfg, kw, _, emits = item
        cf = os.path.join(ctx.scratch, "parser-%s.jsonl" % label)
        open(cf, "w").close()
        r = vlib.run_tlc(ctx, "Parser.tla", cfg, case_file=cf, timeout=3400, **kw)
        return label, cfg, r, cf

    # TLC runs are independent; four at a time keep the 16 cores busy through the JVM start-ups (most runs are short)
    with concurrent.futures.ThreadPoolExecutor(max_workers=4) as ex:
        results = list(ex.map(tlc, plan))
    ctx.cov["states"] = sum(x["distinct"] for x in ctx.cov["tlc_runs"])
    ctx.cov["transitions"] = sum(x["generated"] for x in ctx.cov["tlc_runs"])
    for label, cfg, r, cf in results:
        if r.violated:
            # a counterexample inside the specification (transcription vs reference): a design-level
            # statement, not an observation of the real code -> infrastructure error
            raise vlib.Infra("TLC: %s violated in Parser.tla (%s)" % (r.violated, cfg))
        vlib.require_tlc_ok(r, "Parser " + cfg)
        files[label] = cf

    tot = {"cases": 0, "evals": 0, "nontrivial": 0, "corpora": 0}
    shape_equal = shape_drift = 0
    per = {}
    found = {}      # signature -> [shortest example, number of inputs, families]
    for label, cfg, kw, dargs, emits in plan:
        if not emits:
            continue
        cf = files[label]
        if os.path.getsize(cf) == 0:
            raise vlib.Infra("TLC emitted no case for %s" % cfg)
        if "-deepworkers" in dargs:     # every deep case grows a 1 GB stack in a child process: few at a time
            dargs = [a for a in dargs if a != "-deepworkers"] + ["-workers", "4"]
        else:
            dargs = dargs + ["-workers", str(vlib.NCPU)]
        mism, summ, _ = vlib.run_cases(ctx, drv, dargs, cf, label=label, timeout=3400)
        per[label] = dict(summ)
        for k in tot:
            tot[k] += summ[k]
        for m in mism:
            if m.get("what") == "info":
                shape_equal += int(m.get("shape_equal", 0))
                shape_drift += int(m.get("shape_diff", 0))
                continue
            if m.get("what") == "shape drift":
                vlib.log("  [drift] %s: AST of %r has the required truth table but not the shape of the "
                         "transcription in Parser.tla" % (label, m.get("q")))
                continue
            m["family"] = label
            sig = _sig(label, m)
            cnt = int(m.get("count", 1))
            if sig not in found:
                found[sig] = [m, cnt, [label]]
            else:
                f = found[sig]
                f[1] += cnt
                if label not in f[2]:
                    f[2].append(label)
                if len(str(m.get("q", ""))) < len(str(f[0].get("q", ""))):
                    f[0] = m
        with open(cf) as fh:
            head = [ln for _, ln in zip(range(38), fh)]
        if head and len(ctx.cov["samples"]) < 10:
            ctx.cov["samples"].append(_sample(label, json.loads(head[-1])))
    # one report per signature (entry point, mapping type, outcome), with the shortest input that shows it
    # (a panic / hang first: only the first few are printed)
    for sig in sorted(found, key=lambda x: (not x.startswith("totality:"), x)):
        m, cnt, fams = found[sig]
        m["inputs_with_this_signature"] = cnt
        m["families"] = fams
        what = {"outcome": "the parser must return a query or an error (Parser.tla AllowedOutcomes)",
                "crash": "the driver process died or a call did not return inside a parser entry point",
                "truth table": "the returned AST does not select the documents the written expression denotes",
                "returned tree": "the returned AST is not a tree over the atoms of the expression",
                "parsers disagree": "ParseQuery and ParseSeqQL return different terms for the same text",
                "pipe grammar": "ParseSeqQL accepts / rejects a query whose pipe part the reference grammar (Parser.tla RefPipes) rejects / accepts",
                "pipes": "the pipes of the returned query are not the field list the query spells (Parser.tla RefPipes)"}.get(
                    m.get("what"), m.get("what", ""))
        if m.get("what") in ("returned tree", "pipe grammar", "pipes"):
            what += " (got %s, required %s)" % (m.get("got"), m.get("exp")) if m.get("exp") else " (%s)" % m.get("got")
        ctx.violation(sig, m, what="%s; input %s (%d inputs)" % (what, m.get("q"), cnt))
    # range filters (RangeFold.tla): the ends of `f:[a, b]` are values of the field - folded like any other value under the
    # case-insensitive configuration, `*` the open end, brackets decide inclusion; every case into the real ParseSeqQL
    rdrv = vlib.build_driver("rangefold")
    rcf = os.path.join(ctx.scratch, "rangefold.jsonl")
    rr = vlib.run_tlc(ctx, "RangeFold.tla", "RangeFold.cfg", case_file=rcf, workers=1, timeout=600)
    if rr.violated:
        raise vlib.Infra("TLC: %s violated in RangeFold.tla" % rr.violated)
    vlib.require_tlc_ok(rr, "RangeFold")
    rmism, rsumm, _ = vlib.run_cases(ctx, rdrv, [], rcf, label="rangefold", timeout=1200)
    for m in rmism:
        ctx.violation("range:%s" % str(m.get("what"))[:40], m, what="a SeqQL range filter does not denote what RangeFold.tla says: %s; query %s" % (str(m.get("what"))[:300], m.get("query")))
    for k in ("cases", "evals", "nontrivial"):
        tot[k] += rsumm[k]
    ctx.cov["traces_validated_against_impl"] = tot["cases"]
    ctx.cov["evaluations"] = tot["evals"]
    ctx.cov["distinct_nontrivial"] = tot["nontrivial"]
    ctx.cov["input_strings"] = tot["corpora"]
    ctx.cov["per_family"] = per
    ctx.cov["ast_shape_equal_to_transcription"] = shape_equal
    ctx.cov["ast_shape_drift"] = shape_drift
    ctx.cov["exhaustive"] = True
    ctx.cov["rule"] = (
        "cases = states of Parser.tla. sem (pn2/rich2/gwalk/randtree): one per (source tree, parenthesisation in "
        "{min,full,red}, spelling in s1..s4 = keyword case x spacing x quote kind x trailing pipe); pn2 = every tree of depth <= 2 over "
        "3 keyword atoms; rich2 = every tree of depth <= 2 over 5 leaves incl. in(x,y), a two-word text phrase and a path field; "
        "gwalk = every well-formed lexeme sequence of length <= 6 (thorough 8) over {a:x, b:x, and, or, not, (, )}; randtree = seeded "
        "random trees of depth <= 3; each is parsed by ParseSeqQL and (where the legacy syntax can write it) ParseQuery, under the typed and "
        "(without text phrases) the nil mapping; evaluations = parser calls; non-trivial sem case = truth table not constant. "
        "phrase (phraseP/phraseQ/randphrase): every string of <= 2 (thorough 3) runes over the 26-rune palette of Parser.tla (word runes: ASCII lower/upper, "
        "digit, _, Cyrillic lower/upper, 1/2, CJK, Gothic = 1..4 bytes, escaped *; separators: space - . : # ) newline, no-break space, guillemet, em dash, "
        "ellipsis, U+FFFD, emoji = 1..4 bytes, byte 0xFF; wildcard) and every string of <= 3 (thorough 5) runes over one rune per (class, width), plus seeded random "
        "strings of <= 10 runes with full fan-out, each as the value of text field t alone / under not / in or / in and-not / first and middle element of in(...) / "
        "between two other phrases, and as the value of keyword field a, spelled in styles s1..s4 (quoted \", ', `, or bare when every rune may stand outside quotes); "
        "the palette (43 runes) also has A Z a z 0 9 and their neighbours / @ [ ` {, the first and last capital of Latin-1 and Cyrillic, the multiplication sign "
        "and the Kelvin sign; two more contexts put the value on the additional fields t.keyword / a.text of a multi-type declaration (alone and in a negated in(...)). "
        "Every sem case is parsed under one of 4 declared mappings (single types; each field with a second type of the other tokenizer class declared after / before "
        "its main type; three types with the main one in the middle), rotating with spelling, context and string, converted by seq.ReadMapping. "
        "required: the truth table over the words decided by RefLits/RefKw under QueryType, no leaf outside them, and the same terms from ParseQuery and ParseSeqQL. "
        "tot (walkA/walkB/walkU/randwalk*): alphabet U = multi-byte separators (2, 3, 4 bytes), a 2-byte letter, 0xFF and U+E000 next to quotes, backslash, *, in( , );  every lexeme sequence of length <= 4 (thorough: 6 over A, 5 over B) over an 18-lexeme hostile alphabet A (quotes of 3 kinds, "
        "backslash, #, newline, 0xFF, U+E000, *, parentheses, keywords) and B (ranges, in, pipes, commas), plus seeded random walks of "
        "length <= 16 with full fan-out at every step, x 12 mappings of field f (incl. text+keyword declared main-first and main-last) x {ParseSeqQL, ParseQuery} + ParseAggregationFilter; "
        "non-trivial tot input = accepted by at least one parser/mapping; input_strings = strings built from the cases (distinct within the exhaustive walks; random walks can repeat short prefixes). "
        "pipe (pipeT/pipeQ/randpipe): every tail of <= 3 (thorough 4) lexer tokens appended to nothing, to '| fields', to '| fields except' and to '| fields a |' (a second pipe) over the 15-token "
        "alphabet of Parser.tla section (vi) (bar, fields, except, comma, names a b, - * :, and QUOTED tokens with content c / empty / | / , / fields / except), "
        "written in 5 spacings (space before every token / only between two name parts / before every second token, both phases / none: words run together and "
        "names are glued) with the quote kind (\", ', `) rotating by position (thorough: also all three rotations of the <= 3 scope), keywords in lower and upper case, "
        "behind one of 8 filter expressions (*, a:x, not, or of and-not, in(...), quoted text phrase, parenthesised and, wildcard value) rotating with the tail, "
        "plus seeded random tails of <= 12 tokens with full fan-out; required of ParseSeqQL (declared and nil mapping): the outcome query / error of the reference grammar "
        "RefPipes, for a query exactly its pipes (field list, except flag) and the truth table of the filter; ParseQuery / ParseAggregationFilter on the same string: query or error; "
        "non-trivial pipe case = a query with a pipe. "
        "walkP (thorough also randwalkP): tot walks over an 18-piece alphabet (bar, fields, except, comma, two names, space, the three quote characters, backslash, *, -, #, newline, :, (, 0xFF) "
        "started behind 'f:x|fields '. "
        "store: every sequence of length <= 3 over a 10-lexeme alphabet through GrpcV1.Search (SeqQL and legacy) of real stores, one per mapping type. "
        "deep: nesting-depth classes open^n f:x close^n for 5 shapes (parentheses, unclosed parentheses, not, not(, and-not chain) x n in {1000, 3*10^6, 3*10^7 (while the query stays under 200 MB: parentheses, unclosed, not, not( )} "
        "(thorough also 10^5, 10^6), each call in a child process so that a fatal stack overflow is observed as an outcome.")
    ctx.assumptions += [
        "totality is decided over the enumerated lexeme alphabets (bounded length) and seeded random walks over them, not over arbitrary byte strings; no byte-level mutation fuzzing",
        "a hang is a parser call that does not return within 20 s (observed calls take microseconds; 300 s for the deep classes)",
        "nesting depth is sampled at a few sizes (B4 shape classes) up to 3*10^7, a query of 30-150 MB, which the store's gRPC server (256 MB limit) accepts",
        "the truth table is evaluated on the returned parser.ASTNode with NAND read as children[1] AND NOT children[0] (as frac/processor/eval_tree.go builds node.NewNAnd); leaves are one-word literals",
        "field values are modelled as rune strings over the palette of Parser.tla (section iv): what is a word rune is taken from unicode.IsLetter/IsNumber/'_' as the "
        "text tokenizer (tokenizer/text_tokenizer.go) has it, represented by one or two runes per (class, UTF-8 width, case) plus the ends of the ASCII, Latin-1 and Cyrillic case ranges; other escapes than \\*, runes whose "
        "lower case has another width (except the Kelvin sign), and U+E000 typed by the user are not in the palette",
        "two adjacent wildcards are compared for SeqQL only (the legacy builder reads ** in its own way), and the lower-casing of an invalid byte inside a keyword value is not demanded",
        "a leaf of the returned tree that is none of the words of the expression is reported as a violation (the parser never adds conditions of its own)",
        "shape equality with the TLA+ transcription (PFilter/PExpr + PNot) is measured (ast_shape_equal_to_transcription) but a pure shape difference is reported as drift, not as a violation",
        "TLC evaluates the reference grammar (WF/RefTree) correctly",
        "the pipe part is modelled over whole lexer tokens (Parser.tla section vi): quoted names are the contents c, empty, |, \",\", fields, except; escapes, wildcards and "
        "comments inside a field list are reached by the totality walks walkP / randwalkP only (outcome query | error, no required field list); the pipe tails are not sent through the store",
        "that a tail which does not begin with a bar is an error is decided with one space between the filter expression and the tail",
    ]


def _replay(ctx, drv):
    with open(ctx.replay) as fh:
        rec = json.load(fh)
    m = rec.get("replay", {})
    case = m.get("case")
    if not case:
        raise vlib.Infra("replay file has no case")
    args = ["-workers", "1"]
    if str(m.get("fn", "")).startswith("GrpcV1"):
        args.append("-store")
    mism, summ, _ = vlib.run_cases(ctx, drv, args, [case], label="replay")
    want = rec.get("signature")
    seen = False
    for x in mism:
        if x.get("what") in ("info", "shape drift"):
            continue
        sig = _sig("replay", x)
        vlib.log("  replayed: %s | %s" % (sig, x.get("got")))
        if sig == want and not seen:
            # reproduced: point at the replayed file instead of writing a copy of it
            seen = True
            known = [f for f in ctx.findings.get("findings", [])
                     if f.get("property") == ctx.pid and re.search(f["match"], sig)]
            if known:
                print("KNOWN-FINDING: property=%s %s" % (ctx.pid, known[0]["what"]), flush=True)
            else:
                print("VIOLATION property=%s replay=%s" % (ctx.pid, ctx.replay), flush=True)
                ctx._nviol += 1
    if not seen:
        vlib.log("  the recorded signature %s did not reproduce" % want)
    ctx.cov["traces_validated_against_impl"] = summ["cases"]
    ctx.cov["evaluations"] = summ["evals"]
    ctx.cov["distinct_nontrivial"] = summ["nontrivial"]
    ctx.cov["samples"] = [_sample("replay", case)]
    ctx.cov["rule"] = "replay of one recorded case"
