"""C12 — query parsing is total and preserves the boolean meaning of the query.

Spec: Parser.tla.  TLC
  (a) decides the design: the transcription of parser/ast_node.go:propagateNot keeps the truth table of
      every tree and leaves at most one NOT, at the root (NotPropagationPreservesMeaning, AtMostOneTopNot);
      the transcriptions of the two-accumulator loops (parseSeqQLFilter, parseExpr) accept exactly the
      reference precedence grammar and build a tree with the denotation of the written expression
      (RenderIsWellFormed, RenderDenotesTree, ParserEqualsReference, LegacyEqualsSeqQL,
      AcceptsExactlyTheGrammar);
  (b) emits every (tree, parenthesisation, spelling) with the truth table of the tree, every well-formed
      lexeme sequence of the grammar walk with its table, and every hostile lexeme sequence of the totality
      walk with the allowed outcomes {ok, err}.
The Go driver `parserdrv` feeds the spelled strings to parser.ParseSeqQL / ParseQuery /
ParseAggregationFilter (typed, nil and per-type mappings): the returned AST (incl. NAND) must have the
table of the specification; a panic or a call that does not return is a totality violation.  A short walk
is also sent through GrpcV1.Search of a real store."""
import concurrent.futures
import json
import os
import re

import vlib

LEVEL = "model_checking"

TREE_INVS = ("NotPropagationPreservesMeaning AtMostOneTopNot RenderIsWellFormed RenderDenotesTree "
             "ParserEqualsReference LegacyEqualsSeqQL AcceptsExactlyTheGrammar")


def _plan(quick, seed):
    """(label, cfg, tlc kwargs, driver args, emits cases)"""
    nw = max(2, vlib.NCPU // 2)
    sim = dict(workers=2 if quick else 4)
    p = [
        ("pn2", "Parser_pn2.cfg", dict(workers=nw), [], True),
        ("rich2", "Parser_rich2q.cfg" if quick else "Parser_rich2.cfg", dict(workers=nw), [], True),
        ("gwalk", "Parser_gwalk6.cfg" if quick else "Parser_gwalk8.cfg", dict(workers=nw), [], True),
        ("randtree", "Parser_rand.cfg", dict(simulate="num=%d" % (60 if quick else 600), depth=6, **sim), [], True),
        ("walkA", "Parser_walkA3q.cfg" if quick else "Parser_walkA4.cfg", dict(workers=nw), [], True),
        ("walkB", "Parser_walkB3q.cfg" if quick else "Parser_walkB4.cfg", dict(workers=nw), [], True),
        ("randwalkA", "Parser_randwalkA.cfg", dict(simulate="num=%d" % (40 if quick else 400), depth=17, **sim), [], True),
        ("randwalkB", "Parser_randwalkB.cfg", dict(simulate="num=%d" % (40 if quick else 400), depth=17, **sim), [], True),
        ("store", "Parser_walkS.cfg", dict(workers=2), ["-store"], True),
    ]
    if not quick:
        p.insert(1, ("pn3", "Parser_pn3.cfg", dict(workers=vlib.NCPU), [], False))
    return p


def _sig(label, m):
    what = m.get("what", "")
    if what == "outcome":
        got = str(m.get("got", ""))
        kind, _, msg = got.partition(": ")
        msg = re.sub(r"[&{].*$", "", msg)[:60].strip()
        return "totality:%s:map=%s:%s:%s" % (m.get("fn"), m.get("map"), kind, msg)
    if what == "crash":
        err = m.get("stderr", "") or ""
        h = re.search(r"HANG n=\d+ fn=(\S+) map=(\S+)", err)
        if h:
            return "totality:%s:map=%s:hang" % (h.group(1), h.group(2))
        pm = re.search(r"^(panic|fatal error): (.*)$", err, re.M)
        return "totality:crash:%s" % ((pm.group(2)[:60] if pm else "driver died"),)
    return "meaning:%s:%s" % (what, m.get("fn"))


def run(ctx):
    drv = vlib.build_driver("parserdrv")
    quick = ctx.quick()
    if getattr(ctx, "replay", None):
        return _replay(ctx, drv)
    plan = _plan(quick, ctx.seed)
    files = {}

    def tlc(item):
        label, cfg, kw, _, emits = item
        cf = os.path.join(ctx.scratch, "parser-%s.jsonl" % label)
        open(cf, "w").close()
        r = vlib.run_tlc(ctx, "Parser.tla", cfg, case_file=cf, timeout=3400, **kw)
        return label, cfg, r, cf

    # TLC runs are independent; three at a time keep the 16 cores busy through the JVM start-ups
    with concurrent.futures.ThreadPoolExecutor(max_workers=3) as ex:
        results = list(ex.map(tlc, plan))
    ctx.cov["states"] = sum(x["distinct"] for x in ctx.cov["tlc_runs"])
    ctx.cov["transitions"] = sum(x["generated"] for x in ctx.cov["tlc_runs"])
    for label, cfg, r, cf in results:
        if r.violated:
            # a counterexample inside the specification (transcription vs reference): a design-level
            # statement, not an observation of the real code -> infrastructure error
            raise vlib.Infra("TLC: %s violated in Parser.tla (%s)" % (r.violated, cfg))
        vlib.require_tlc_ok(r, "Parser " + cfg)
        files[label] = cf

    tot = {"cases": 0, "evals": 0, "nontrivial": 0, "corpora": 0}
    shape_equal = shape_drift = 0
    per = {}
    found = {}      # signature -> [shortest example, number of inputs, families]
    for label, cfg, kw, dargs, emits in plan:
        if not emits:
            continue
        cf = files[label]
        if os.path.getsize(cf) == 0:
            raise vlib.Infra("TLC emitted no case for %s" % cfg)
        mism, summ, _ = vlib.run_cases(ctx, drv, dargs + ["-workers", str(vlib.NCPU)], cf, label=label, timeout=3400)
        per[label] = dict(summ)
        for k in tot:
            tot[k] += summ[k]
        for m in mism:
            if m.get("what") == "info":
                shape_equal += int(m.get("shape_equal", 0))
                shape_drift += int(m.get("shape_diff", 0))
                continue
            if m.get("what") == "shape drift":
                vlib.log("  [drift] %s: AST of %r has the required truth table but not the shape of the "
                         "transcription in Parser.tla" % (label, m.get("q")))
                continue
            m["family"] = label
            sig = _sig(label, m)
            cnt = int(m.get("count", 1))
            if sig not in found:
                found[sig] = [m, cnt, [label]]
            else:
                f = found[sig]
                f[1] += cnt
                f[2].append(label)
                if len(str(m.get("q", ""))) < len(str(f[0].get("q", ""))):
                    f[0] = m
        with open(cf) as fh:
            for i, ln in enumerate(fh):
                if i == 37 and len(ctx.cov["samples"]) < 6:
                    c = json.loads(ln)
                    c.pop("fields", None)
                    c.pop("maps", None)
                    ctx.cov["samples"].append(c)
                if i > 37:
                    break
    # one report per signature (entry point, mapping type, outcome), with the shortest input that shows it
    for sig in sorted(found):
        m, cnt, fams = found[sig]
        m["inputs_with_this_signature"] = cnt
        m["families"] = fams
        what = {"outcome": "the parser must return a query or an error (Parser.tla AllowedOutcomes)",
                "crash": "the driver process died or a call did not return inside a parser entry point",
                "truth table": "the returned AST does not select the documents the written expression denotes",
                "returned tree": "the returned AST is not a tree over the atoms of the expression"}.get(
                    m.get("what"), m.get("what", ""))
        ctx.violation(sig, m, what="%s; input %s (%d inputs)" % (what, m.get("q"), cnt))
    ctx.cov["traces_validated_against_impl"] = tot["cases"]
    ctx.cov["evaluations"] = tot["evals"]
    ctx.cov["distinct_nontrivial"] = tot["nontrivial"]
    ctx.cov["input_strings"] = tot["corpora"]
    ctx.cov["per_family"] = per
    ctx.cov["ast_shape_equal_to_transcription"] = shape_equal
    ctx.cov["ast_shape_drift"] = shape_drift
    ctx.cov["exhaustive"] = True
    ctx.cov["rule"] = (
        "cases = states of Parser.tla. sem (pn2/rich2/gwalk/randtree): one per (source tree, parenthesisation in "
        "{min,full,red}, spelling in s1..s4 = keyword case x spacing x quote kind x trailing pipe); pn2 = every tree of depth <= 2 over "
        "3 keyword atoms; rich2 = every tree of depth <= 2 over 5 leaves incl. in(x,y), a two-word text phrase and a path field; "
        "gwalk = every well-formed lexeme sequence of length <= 6 (thorough 8) over {a:x, b:x, and, or, not, (, )}; randtree = seeded "
        "random trees of depth <= 3; each is parsed by ParseSeqQL and (where the legacy syntax can write it) ParseQuery, under the typed and "
        "(without text phrases) the nil mapping; evaluations = parser calls; non-trivial sem case = truth table not constant. "
        "tot (walkA/walkB/randwalk*): every lexeme sequence of length <= 4 (thorough 6) over an 18-lexeme hostile alphabet A (quotes of 3 kinds, "
        "backslash, #, newline, 0xFF, U+E000, *, parentheses, keywords) and B (ranges, in, pipes, commas), plus seeded random walks of "
        "length <= 16 with full fan-out at every step, x 11 mappings of field f x {ParseSeqQL, ParseQuery} + ParseAggregationFilter; "
        "non-trivial tot input = accepted by at least one parser/mapping; input_strings = distinct strings built from the cases. "
        "store: every sequence of length <= 3 over a 10-lexeme alphabet through GrpcV1.Search (SeqQL and legacy) of real stores, one per mapping type.")
    ctx.assumptions += [
        "totality is decided over the enumerated lexeme alphabets (bounded length) and seeded random walks over them, not over arbitrary byte strings; no byte-level mutation fuzzing",
        "a hang is a parser call that does not return within 5 s (observed calls take microseconds)",
        "the truth table is evaluated on the returned parser.ASTNode with NAND read as children[1] AND NOT children[0] (as frac/processor/eval_tree.go builds node.NewNAnd); leaves are one-word literals",
        "the lexer/tokenizer of field values (quotes, escapes, wildcards inside terms) is not modelled: its meaning is covered only as 'same atoms come back' for the plain words x, y",
        "shape equality with the TLA+ transcription (PFilter/PExpr + PNot) is measured (ast_shape_equal_to_transcription) but a pure shape difference is reported as drift, not as a violation",
        "TLC evaluates the reference grammar (WF/RefTree) correctly",
    ]


def _replay(ctx, drv):
    with open(ctx.replay) as fh:
        rec = json.load(fh)
    m = rec.get("replay", {})
    case = m.get("case")
    if not case:
        raise vlib.Infra("replay file has no case")
    args = ["-workers", "1"]
    if str(m.get("fn", "")).startswith("GrpcV1"):
        args.append("-store")
    mism, summ, _ = vlib.run_cases(ctx, drv, args, [case], label="replay")
    for x in mism:
        if x.get("what") in ("info", "shape drift"):
            continue
        ctx.violation(_sig("replay", x), x, what="replayed")
    ctx.cov["traces_validated_against_impl"] = summ["cases"]
    ctx.cov["evaluations"] = summ["evals"]
    ctx.cov["rule"] = "replay of one recorded case"
