"""C02 — Search returns exactly the matching documents, ordered, limited, counted.

Spec: QueryRef.tla (reference semantics) walked by SearchCases.tla.  TLC enumerates a small scope
exhaustively and samples a larger scope with -simulate; every case (corpus in arrival order, query,
expected ids/total) is replayed into a real store: active fraction and sealed fraction, once with the
AST handed to the real Searcher and once rendered to SeqQL and sent through GrpcV1.Search.  Corpora of
real size (posting lists spanning several LID / ID / token blocks) come from IndexLayout.tla's shape
emission (C03's machinery) and are probed for search answers in every form of the fraction."""
import os
import vlib

LEVEL = "model_checking"


def run(ctx):
    drv = vlib.build_driver("qref")
    quick = ctx.quick()
    cf = os.path.join(ctx.scratch, "search-exh.jsonl")
    r1 = vlib.run_tlc(ctx, "SearchCases.tla", "SearchCases_exh.cfg" if quick else "SearchCases_exhfull.cfg",
                      case_file=cf, timeout=3000)
    vlib.require_tlc_ok(r1, "SearchCases exhaustive")
    cf2 = os.path.join(ctx.scratch, "search-rand.jsonl")
    r2 = vlib.run_tlc(ctx, "SearchCases.tla", "SearchCases_rand.cfg", workers=1 if quick else 8,
                      simulate="num=%d" % (400 if quick else 2500), depth=30, case_file=cf2, timeout=3000)
    vlib.require_tlc_ok(r2, "SearchCases simulate")
    total = {"cases": 0, "evals": 0, "nontrivial": 0, "corpora": 0}
    for label, path in (("exh", cf), ("rand", cf2)):
        mism, summ, crashes = vlib.run_cases(ctx, drv, ["-forms", "active,sealed", "-paths", "ast,seqql", "-workers", str(vlib.NCPU)],
                                             path, label=label)
        for k in total:
            total[k] += summ[k]
        if label == "rand" or not quick:
            # once more with random parts spread over the whole uint64 range (as the proxy's IDs are): the order
            # "(timestamp, random part)" must hold for them as well
            mism2, summ2, _ = vlib.run_cases(ctx, drv, ["-forms", "active,sealed", "-paths", "ast", "-workers", str(vlib.NCPU), "-wide"],
                                             path, label=label + "-wide")
            for k in total:
                total[k] += summ2[k]
            mism = list(mism) + list(mism2)
        for m in mism:
            sig = "search:%s:%s:%s" % (m.get("form"), m.get("path"), m.get("what", "")[:40])
            ctx.violation(sig, m, what="engine answer differs from QueryRef!Search")
        with open(path) as fh:
            import json
            for i, ln in enumerate(fh):
                if i % 997 == 0 and len(ctx.cov["samples"]) < 3:
                    ctx.cov["samples"].append(json.loads(ln))
    # posting lists that span several 64 Ki LID blocks / 4096-ID blocks / 16 KiB token blocks: the shapes of
    # IndexLayout.tla at the real constants (C03's machinery), search probes only
    from checks import c03
    sdrv = vlib.build_driver("shapes")
    _, ssumm = c03.replay_shapes(ctx, sdrv, "IndexLayout_real_small.cfg" if quick else "IndexLayout_real.cfg", "search-big", only_search=True)
    total["cases"] += ssumm["cases"]
    total["evals"] += ssumm["evals"]
    total["nontrivial"] += ssumm["nontrivial"]
    # "cut to the first `limit` of that order" over SEVERAL fractions: the searcher visits the fractions in chunks
    # and stops early (calcEnsuredIDsCount, List.Sort): MultiFrac.tla's store family (C05's module: every 4-ID corpus x
    # partition into <=3 fractions x fractions-per-iteration x limit x order x total) against the one-fraction answer
    mdrv = vlib.build_driver("multifrac")
    mcf = os.path.join(ctx.scratch, "search-multifrac.jsonl")
    r3 = vlib.run_tlc(ctx, "MultiFrac.tla", "MultiFrac_store.cfg", case_file=mcf, timeout=3400)
    if r3.violated:
        raise vlib.Infra("TLC: %s violated in MultiFrac.tla" % r3.violated)
    vlib.require_tlc_ok(r3, "MultiFrac store (for C02)")
    margs = [["-workers", str(vlib.NCPU)]] + ([] if quick else [["-workers", str(vlib.NCPU), "-wide"]])
    for a in margs:
        mism, msumm, _ = vlib.run_cases(ctx, mdrv, a, mcf, label="limit-multifrac")
        total["cases"] += msumm["cases"]
        total["evals"] += msumm["evals"]
        total["nontrivial"] += msumm["nontrivial"]
        for m in mism:
            ctx.violation("search:multifrac:%s" % (m.get("what") or "")[:20], m,
                          what="ids / total over several fractions differ from the first `limit` documents of the order: " + str(m.get("what"))[:120])
    # which tokens a wildcard leaf selects (the step before any posting list is read): Pattern.tla's families
    # "match" and "infix" (C13's module) through pattern.Search on an unordered, an ordered and a sealed dictionary
    pdrv = vlib.build_driver("pat")
    for fam, cfg in (("match", "Pattern_match.cfg"), ("infix", "Pattern_infix.cfg")):
        pcf = os.path.join(ctx.scratch, "search-pat-%s.jsonl" % fam)
        rp = vlib.run_tlc(ctx, "Pattern.tla", cfg, case_file=pcf, timeout=3400)
        if rp.violated:
            raise vlib.Infra("TLC: %s violated in Pattern.tla (%s)" % (rp.violated, cfg))
        vlib.require_tlc_ok(rp, "Pattern %s (for C02)" % cfg)
        mism, psumm, _ = vlib.run_cases(ctx, pdrv, [], pcf, label="wildcard-" + fam)
        total["cases"] += psumm["cases"]
        total["evals"] += psumm["evals"]
        total["nontrivial"] += psumm["nontrivial"]
        for m in mism:
            ctx.violation("search:wildcard:%s:%s" % (fam, m.get("path")), m, what="the tokens a wildcard filter selects differ from the glob reference (Pattern.tla)")
    # fractions are consulted or skipped by their time range (borders, per-minute occupancy bitmap of sealed fractions
    # with late documents): TimePrune.tla's real stores (C14's module), search answers only
    from checks import c14
    tsumm = c14.timeprune_e2e_stage(ctx, "search", quick, what_filter=lambda w: "fetch" not in w)
    total["cases"] += tsumm["cases"]
    total["evals"] += tsumm["evals"]
    total["nontrivial"] += tsumm["nontrivial"]
    # the stored documents may have arrived in partly repeated bulks (proxy retries): what a token finds may not depend on it.
    # Redeliver.tla's exhaustive histories (C17's module; its driver searches every document by its own token after each step)
    rdrv = vlib.build_driver("redeliver")
    rcf = os.path.join(ctx.scratch, "search-redeliver.jsonl")
    r5 = vlib.run_tlc(ctx, "Redeliver.tla", "Redeliver_exh.cfg", case_file=rcf, workers=1, timeout=3400)
    if r5.violated:
        raise vlib.Infra("TLC: %s violated in Redeliver.tla" % r5.violated)
    vlib.require_tlc_ok(r5, "Redeliver (for C02)")
    mism, rsumm, _ = vlib.run_cases(ctx, rdrv, ["-workers", str(vlib.NCPU)], rcf, label="search-redeliver", timeout=3400)
    for m in mism:
        ctx.violation("search:redeliver:%s:%s" % (m.get("op"), (m.get("what") or "")[:24]), m,
                      what="documents delivered in partly repeated bulks are not found by their own tokens / foreign documents are: " + str(m.get("what"))[:160])
    for k in ("cases", "evals", "nontrivial"):
        total[k] += rsumm[k]
    ctx.cov["traces_validated_against_impl"] = total["cases"]
    ctx.cov["evaluations"] = total["evals"]
    ctx.cov["distinct_nontrivial"] = total["nontrivial"]
    ctx.cov["corpora"] = total["corpora"]
    ctx.cov["exhaustive"] = True
    ctx.cov["rule"] = ("cases = states of SearchCases (exhaustive small scope: every corpus of <=2 docs over the X* universes x "
                       "every query of XQA u XQB; plus seeded -simulate over <=4 docs, AST depth <=2); each case is evaluated on an active "
                       "and on a sealed fraction via AST and via SeqQL; non-trivial = expected total > 0; plus 16 (thorough 40) "
                       "real-size shapes of IndexLayout.tla (posting lists over several LID/ID/token blocks) with 100-400 search probes each, asked of the active, sealed and reloaded fraction; plus MultiFrac.tla's store family (81 648 cases: limit and early stop over several fractions)")
    ctx.assumptions += ["TLC evaluates QueryRef correctly", "documents carry the _all_ token as the proxy emits it",
                        "timestamps >= 1 (MID 0 makes DocProvider substitute wall clock)"]
