"""C02 — Search returns exactly the matching documents, ordered, limited, counted.

Spec: QueryRef.tla (reference semantics) walked by SearchCases.tla.  TLC enumerates a small scope
exhaustively and samples a larger scope with -simulate; every case (corpus in arrival order, query,
expected ids/total) is replayed into a real store: active fraction and sealed fraction, once with the
AST handed to the real Searcher and once rendered to SeqQL and sent through GrpcV1.Search."""
import os
import vlib

LEVEL = "model_checking"


def run(ctx):
    drv = vlib.build_driver("qref")
    quick = ctx.quick()
    cf = os.path.join(ctx.scratch, "search-exh.jsonl")
    r1 = vlib.run_tlc(ctx, "SearchCases.tla", "SearchCases_exh.cfg" if quick else "SearchCases_exhfull.cfg",
                      case_file=cf, timeout=3000)
    vlib.require_tlc_ok(r1, "SearchCases exhaustive")
    cf2 = os.path.join(ctx.scratch, "search-rand.jsonl")
    r2 = vlib.run_tlc(ctx, "SearchCases.tla", "SearchCases_rand.cfg", workers=1 if quick else 8,
                      simulate="num=%d" % (400 if quick else 2500), depth=30, case_file=cf2, timeout=3000)
    vlib.require_tlc_ok(r2, "SearchCases simulate")
    total = {"cases": 0, "evals": 0, "nontrivial": 0, "corpora": 0}
    for label, path in (("exh", cf), ("rand", cf2)):
        mism, summ, crashes = vlib.run_cases(ctx, drv, ["-forms", "active,sealed", "-paths", "ast,seqql", "-workers", str(vlib.NCPU)],
                                             path, label=label)
        for k in total:
            total[k] += summ[k]
        for m in mism:
            sig = "search:%s:%s:%s" % (m.get("form"), m.get("path"), m.get("what", "")[:40])
            ctx.violation(sig, m, what="engine answer differs from QueryRef!Search")
        with open(path) as fh:
            import json
            for i, ln in enumerate(fh):
                if i % 997 == 0 and len(ctx.cov["samples"]) < 3:
                    ctx.cov["samples"].append(json.loads(ln))
    ctx.cov["traces_validated_against_impl"] = total["cases"]
    ctx.cov["evaluations"] = total["evals"]
    ctx.cov["distinct_nontrivial"] = total["nontrivial"]
    ctx.cov["corpora"] = total["corpora"]
    ctx.cov["exhaustive"] = True
    ctx.cov["rule"] = ("cases = states of SearchCases (exhaustive small scope: every corpus of <=2 docs over the X* universes x "
                       "every query of XQA u XQB; plus seeded -simulate over <=4 docs, AST depth <=2); each case is evaluated on an active "
                       "and on a sealed fraction via AST and via SeqQL; non-trivial = expected total > 0")
    ctx.assumptions += ["TLC evaluates QueryRef correctly", "documents carry the _all_ token as the proxy emits it",
                        "timestamps >= 1 (MID 0 makes DocProvider substitute wall clock)"]
