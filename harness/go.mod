module verifharness

go 1.24

require (
	github.com/ozontech/seq-db v0.0.0
	github.com/prometheus/client_golang v1.22.0
	github.com/prometheus/client_model v0.6.1
	go.uber.org/zap v1.27.0
	google.golang.org/grpc v1.73.0
	google.golang.org/protobuf v1.36.6
)

require (
	contrib.go.opencensus.io/exporter/jaeger v0.2.1 // indirect
	github.com/KimMachineGun/automemlimit v0.7.3 // indirect
	github.com/beorn7/perks v1.0.1 // indirect
	github.com/c2h5oh/datasize v0.0.0-20200112174442-28bbd4740fee // indirect
	github.com/cep21/circuit/v3 v3.2.2 // indirect
	github.com/cespare/xxhash/v2 v2.3.0 // indirect
	github.com/golang/groupcache v0.0.0-20210331224755-41bb18bfe9da // indirect
	github.com/google/uuid v1.6.0 // indirect
	github.com/grpc-ecosystem/grpc-gateway/v2 v2.27.1 // indirect
	github.com/klauspost/compress v1.18.0 // indirect
	github.com/munnerz/goautoneg v0.0.0-20191010083416-a7dc8b61c822 // indirect
	github.com/oklog/ulid/v2 v2.1.1 // indirect
	github.com/ozontech/insane-json v0.1.9 // indirect
	github.com/pbnjay/memory v0.0.0-20210728143218-7b4eea64cf58 // indirect
	github.com/pierrec/lz4/v4 v4.1.22 // indirect
	github.com/planetscale/vtprotobuf v0.6.1-0.20240319094008-0393e58bdf10 // indirect
	github.com/prometheus/common v0.62.0 // indirect
	github.com/prometheus/procfs v0.15.1 // indirect
	github.com/uber/jaeger-client-go v2.25.0+incompatible // indirect
	github.com/valyala/fastrand v1.1.0 // indirect
	github.com/valyala/gozstd v1.22.0 // indirect
	go.opencensus.io v0.24.0 // indirect
	go.uber.org/atomic v1.11.0 // indirect
	go.uber.org/automaxprocs v1.6.0 // indirect
	go.uber.org/multierr v1.11.0 // indirect
	golang.org/x/net v0.38.0 // indirect
	golang.org/x/sync v0.15.0 // indirect
	golang.org/x/sys v0.31.0 // indirect
	golang.org/x/text v0.26.0 // indirect
	google.golang.org/api v0.95.0 // indirect
	google.golang.org/genproto/googleapis/api v0.0.0-20250603155806-513f23925822 // indirect
	google.golang.org/genproto/googleapis/rpc v0.0.0-20250603155806-513f23925822 // indirect
	gopkg.in/yaml.v2 v2.4.0 // indirect
)

replace github.com/ozontech/seq-db => /repo
