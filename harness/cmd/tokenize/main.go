// tokenize replays Tokenize.tla cases (C11) into the real seq-db code.
//
// A case is a value given as a sequence of character classes, a mapping shape/type, case sensitivity, size limits and
// partial indexing, together with what the specification derived from it: the expected index tokens, and the probes
// (own-content queries: whole keyword value, every word, every leading path, field existence) rendered in every
// admissible SeqQL quoting style with the flag "the property demands that this finds the document".
//
// For each case the driver
//   - draws a concrete character per class from the palette below (seeded; -reps draws per case),
//   - writes the DECLARED mapping of the case as YAML and has the real seq.ReadMapping convert it; this map (not one built by
//     hand) is given to the ingestor, to the parser and to the store,
//   - sends the document through the real bulk.Ingestor (real indexer + tokenizers) and reads the tokens back from the
//     metas the ingestor hands to its storage client,
//   - builds each query string from the units TLC emitted (no quoting logic here), parses it with the real
//     parser.ParseSeqQL under the same mapping / conf.CaseSensitive and evaluates the AST with the real pattern.Search
//     over the emitted tokens (unordered and ordered provider),
//   - reports: a demanded probe that does not find the document; an emitted token that no own-content probe matches
//     and that the specification does not list as exempt.
//   - every -e2e'th case additionally goes end to end: the same ingestor writes into a real store (harness/env) and
//     the queries are answered by GrpcV1.Search, on the active fraction and again after sealing.
//
// No seq-db semantics are re-implemented: expected outcomes come from the case; the only evaluation done here is the
// AND/OR/NOT combination of leaf results and the substitution of palette characters into emitted atoms.
package main

import (
	"bufio"
	"bytes"
	"context"
	"encoding/binary"
	"encoding/hex"
	"encoding/json"
	"flag"
	"fmt"
	"hash/fnv"
	"math/rand"
	"os"
	"sort"
	"strconv"
	"strings"
	"sync"
	"time"
	"unicode"
	"unicode/utf8"

	"github.com/ozontech/seq-db/conf"
	"github.com/ozontech/seq-db/disk"
	"github.com/ozontech/seq-db/frac"
	"github.com/ozontech/seq-db/parser"
	"github.com/ozontech/seq-db/pattern"
	pb "github.com/ozontech/seq-db/pkg/storeapi"
	"github.com/ozontech/seq-db/proxy/bulk"
	"github.com/ozontech/seq-db/seq"

	"verifharness/env"
)

// ---------------------------------------------------------------- palette (B4: representatives per class)

type pchar struct {
	raw   string // bytes as they stand in the document
	lower string // simple (per-rune) lower case, given as data - not computed by the code under test
}

func same(ss ...string) []pchar {
	out := make([]pchar, len(ss))
	for i, s := range ss {
		out[i] = pchar{s, s}
	}
	return out
}

func pairs(ss ...string) []pchar {
	out := make([]pchar, 0, len(ss)/2)
	for i := 0; i+1 < len(ss); i += 2 {
		out = append(out, pchar{ss[i], ss[i+1]})
	}
	return out
}

// 'n'/'N' are left out of the ASCII letters: an unquoted value `in` is the in(...) filter keyword, a character-level
// exception the class model cannot see.
var palette = map[string][]pchar{
	"lo": same("a", "b", "c", "e", "i", "k", "o", "r", "s", "t", "x", "z"),
	"up": pairs("A", "a", "B", "b", "E", "e", "I", "i", "K", "k", "O", "o", "R", "r", "S", "s", "T", "t", "Z", "z"),
	"dg": same("0", "1", "2", "5", "7", "9"),
	"us": same("_"),
	"st": same("*"),
	"sp": same(" ", ":", ",", "(", ")", "=", "@", "#", "|", "[", "]", "!", "{", "}", "+", "~", "&", "<", ">", ";", "%", "$", "^", "?"),
	"dd": same("-", "."),
	"sl": same("/"),
	"dq": same("\""),
	"sq": same("'"),
	"bt": same("`"),
	"bs": same("\\"),
	// 2-byte letters that are lower case or have no case: Cyrillic zhe/ya, e-acute, sharp s, n-tilde, final sigma, dotless i,
	// dz-caron digraph, Hebrew alef, feminine ordinal, o-umlaut, long s
	"nl": same("\u0436", "\u044f", "\u00e9", "\u00df", "\u00f1", "\u03c2", "\u0131", "\u01c6", "\u05d0", "\u00aa", "\u00f6", "\u017f"),
	// 2-byte upper/title case letters with a 2-byte lower case (incl. title-case U+01C5, Greek capital sigma and omega)
	"nu": pairs("\u0416", "\u0436", "\u042f", "\u044f", "\u00c9", "\u00e9", "\u00d1", "\u00f1", "\u03a3", "\u03c3", "\u01c5", "\u01c6",
		"\u01c4", "\u01c6", "\u00d6", "\u00f6", "\u0100", "\u0101", "\u03a9", "\u03c9"),
	// 2-byte letters whose lower case is 1 or 3 bytes wide: I with dot above, A with stroke, T with diagonal stroke
	"d2": pairs("\u0130", "i", "\u023a", "\u2c65", "\u023e", "\u2c66"),
	// 3-byte letters whose lower case is 1 or 2 bytes wide: Kelvin sign, Ohm sign, Angstrom sign, capital sharp s
	"d3": pairs("\u212a", "k", "\u2126", "\u03c9", "\u212b", "\u00e5", "\u1e9e", "\u00df"),
	// 2-byte decimal digits: Arabic-Indic, extended Arabic-Indic, NKo
	"nd": same("\u0660", "\u0663", "\u0669", "\u06f5", "\u06f9", "\u07c1"),
	// 3-byte numbers that are not decimal digits: circled 2 and 10, roman numerals (cased), parenthesised ideograph one,
	// Ethiopic one, superscript four
	"no": pairs("\u2461", "\u2461", "\u2469", "\u2469", "\u2167", "\u2177", "\u2177", "\u2177", "\u3220", "\u3220", "\u1369", "\u1369",
		"\u2074", "\u2074", "\u216f", "\u217f"),
	// 3-byte runes that are neither letters nor numbers: em dash, line separator, euro, arrow, ideographic space, U+FFFD itself,
	// circled A (a symbol with a case pair), ideographic comma
	"ns": pairs("\u2014", "\u2014", "\u2028", "\u2028", "\u20ac", "\u20ac", "\u2192", "\u2192", "\u3000", "\u3000", "\ufffd", "\ufffd",
		"\u24b6", "\u24d0", "\u3001", "\u3001", "\ufeff", "\ufeff", "\u2029", "\u2029", "\u200b", "\u200b"),
	// bytes that are not UTF-8 and cannot combine with a neighbour into a valid sequence (no usable lead bytes)
	// (0x80 and 0xbf are lone continuation bytes, the others are bytes that can never start a valid sequence)
	"iv": same("\xff", "\xc0", "\x80", "\xfe", "\xbf", "\xc1", "\xf8"),
	// 4-byte letters that are lower case or have no lower-case mapping: Linear B, CJK extension B, Gothic, Deseret small,
	// mathematical double-struck small a and bold capital A (category Lu without a case pair), Miao, Adlam small
	"l4": same("\U00010000", "\U00020000", "\U00010330", "\U00010428", "\U0001d552", "\U0001d400", "\U00016f00", "\U0001e922"),
	// 4-byte upper-case letters (lower case is 4 bytes as well): Deseret, Osage, Old Hungarian, Warang Citi, Adlam, Medefaidrin
	"u4": pairs("\U00010400", "\U00010428", "\U000104b0", "\U000104d8", "\U00010c80", "\U00010cc0", "\U000118a0", "\U000118c0",
		"\U0001e900", "\U0001e922", "\U00016e40", "\U00016e60"),
	// 4-byte decimal digits: mathematical bold 0 / sans-serif 9 / monospace 9, Osmanya, Brahmi, Adlam
	"n4": same("\U0001d7ce", "\U0001d7eb", "\U0001d7ff", "\U000104a0", "\U00011066", "\U0001e950"),
	// 4-byte runes that are neither letters nor numbers: emoji, musical symbol, regional indicator, language tag, skin tone
	// modifier, Aegean word separator
	"s4": same("\U0001f600", "\U0001f4a9", "\U0001d11e", "\U0001f680", "\U0001f1e6", "\U000e0001", "\U0001f3fb", "\U00010100"),
	// control bytes: one class per reason some literal spelling could treat the byte specially (Tokenize.tla); cr, lf, z0 and
	// pu are single-member classes (the table gives their code points), ws and cc list ALL their members
	"cr": same("\r"),
	"lf": same("\n"),
	"ws": same("\t", "\v", "\f"),
	"z0": same("\x00"),
	"cc": same("\x01", "\x02", "\x03", "\x04", "\x05", "\x06", "\a", "\b", "\x0e", "\x0f", "\x10", "\x11", "\x12", "\x13", "\x14",
		"\x15", "\x16", "\x17", "\x18", "\x19", "\x1a", "\x1b", "\x1c", "\x1d", "\x1e", "\x1f", "\x7f"),
	// 2-byte runes that are neither letters nor numbers: no-break space, NEL (C1 control, white space), soft hyphen, multiplication
	// and division sign, section sign, inverted question mark, pilcrow, Arabic comma
	"s2": same("\u00a0", "\u0085", "\u00ad", "\u00d7", "\u00f7", "\u00a7", "\u00bf", "\u00b6", "\u060c"),
	// U+E000, the rune the SeqQL lexer writes for an unescaped '*'
	"pu": same("\ue000"),
}

// codesOf: the spellings strconv.UnquoteChar accepts behind a backslash for the character r (concretisation of the
// specification's unit "escape code of character e"; checkPalette verifies each of them with strconv itself). \x and octal
// are used for ASCII only: for larger values they denote a byte in Go, which the model does not speak about.
// The first entry is the customary one (the mnemonic if there is one).
func codesOf(r rune) []string {
	var out []string
	switch r {
	case '\a':
		out = append(out, "a")
	case '\b':
		out = append(out, "b")
	case '\f':
		out = append(out, "f")
	case '\n':
		out = append(out, "n")
	case '\r':
		out = append(out, "r")
	case '\t':
		out = append(out, "t")
	case '\v':
		out = append(out, "v")
	}
	if r < 0x80 {
		out = append(out, fmt.Sprintf("x%02x", r), fmt.Sprintf("x%02X", r), fmt.Sprintf("%03o", r))
	}
	if r <= 0xffff {
		out = append(out, fmt.Sprintf("u%04x", r), fmt.Sprintf("u%04X", r))
	}
	return append(out, fmt.Sprintf("U%08x", r))
}

type table struct {
	W     map[string]int    `json:"w"`
	Word  []string          `json:"word"`
	Cased []string          `json:"cased"`
	DiffW []string          `json:"diffw"`
	Bare  []string          `json:"bare"`
	Ch    map[string]string `json:"ch"`
	Big   int               `json:"big"`
	Ctl   []string          `json:"ctl"` // classes of ASCII control bytes
	CP    map[string]int    `json:"cp"`  // classes that stand for exactly one code point
}

func in(xs []string, x string) bool {
	for _, y := range xs {
		if x == y {
			return true
		}
	}
	return false
}

// checkPalette makes sure every palette member really has the attributes the specification's class table states
// (this guards the palette, it decides nothing about seq-db).
func checkPalette(t *table) error {
	if len(t.Ctl) == 0 || len(t.CP) == 0 {
		return fmt.Errorf("class table without control classes / code points")
	}
	for cls, w := range t.W {
		ps, ok := palette[cls]
		if !ok || len(ps) == 0 {
			return fmt.Errorf("no palette for class %s", cls)
		}
		for _, p := range ps {
			if len(p.raw) != w {
				return fmt.Errorf("class %s: %q is %d bytes, table says %d", cls, p.raw, len(p.raw), w)
			}
			r, sz := utf8.DecodeRuneInString(p.raw)
			valid := !(r == utf8.RuneError && sz == 1)
			if cls == "iv" {
				if valid || p.raw[0] < 0x80 {
					return fmt.Errorf("class iv: %q is valid", p.raw)
				}
				continue
			}
			if !valid || sz != len(p.raw) {
				return fmt.Errorf("class %s: %q is not one rune", cls, p.raw)
			}
			isWord := unicode.IsLetter(r) || unicode.IsNumber(r) || r == '_' || r == '*'
			if isWord != in(t.Word, cls) {
				return fmt.Errorf("class %s: %q word=%v", cls, p.raw, isWord)
			}
			if p.raw != p.lower && !in(t.Cased, cls) {
				return fmt.Errorf("class %s: %q has a case pair but the class is uncased", cls, p.raw)
			}
			if in(t.DiffW, cls) != (len(p.lower) != len(p.raw)) {
				return fmt.Errorf("class %s: %q lower width %d", cls, p.raw, len(p.lower))
			}
			if string(unicode.ToLower(r)) != p.lower {
				return fmt.Errorf("class %s: palette lower of %q is %q, Unicode simple mapping gives %q", cls, p.raw, p.lower, string(unicode.ToLower(r)))
			}
			bare := unicode.IsLetter(r) || unicode.IsDigit(r) || r == '_' || r == '.' || r == '-'
			if bare != in(t.Bare, cls) {
				return fmt.Errorf("class %s: %q bare=%v", cls, p.raw, bare)
			}
			if ch, ok := t.Ch[cls]; ok && ch != p.raw {
				return fmt.Errorf("class %s must be %q", cls, ch)
			}
			if w == 1 && p.raw[0] >= 0x80 {
				return fmt.Errorf("class %s: %q not ASCII", cls, p.raw)
			}
			if in(t.Ctl, cls) != (r < utf8.RuneSelf && unicode.IsControl(r)) {
				return fmt.Errorf("class %s: %q control=%v", cls, p.raw, unicode.IsControl(r))
			}
			if cp, ok := t.CP[cls]; ok && rune(cp) != r {
				return fmt.Errorf("class %s must be U+%04X", cls, cp)
			}
			for c2, cp := range t.CP { // a one-rune class owns its rune
				if c2 != cls && rune(cp) == r {
					return fmt.Errorf("class %s: %q belongs to class %s", cls, p.raw, c2)
				}
			}
			if in(t.Ctl, cls) && (cls == "ws") != (unicode.IsSpace(r) && r != '\r' && r != '\n') {
				return fmt.Errorf("class %s: %q space=%v", cls, p.raw, unicode.IsSpace(r))
			}
			for _, code := range codesOf(r) {
				got, _, tail, err := strconv.UnquoteChar("\\"+code, '"')
				if err != nil || tail != "" || got != r || strings.ContainsAny(code, "\"'`\\*") {
					return fmt.Errorf("class %s: \\%s is not a spelling of %q", cls, code, p.raw)
				}
			}
		}
	}
	return nil
}

// ---------------------------------------------------------------- case format

type Atom struct {
	E int
	B int
	F string
}

func (a *Atom) UnmarshalJSON(b []byte) error {
	var raw []json.RawMessage
	if err := json.Unmarshal(b, &raw); err != nil {
		return err
	}
	if len(raw) != 3 {
		return fmt.Errorf("atom with %d parts", len(raw))
	}
	if err := json.Unmarshal(raw[0], &a.E); err != nil {
		return err
	}
	if err := json.Unmarshal(raw[1], &a.B); err != nil {
		return err
	}
	return json.Unmarshal(raw[2], &a.F)
}

type MapType struct {
	Title string `json:"title"`
	Typ   string `json:"typ"`
	MS    int    `json:"ms"`
}
type MapEntry struct {
	Name string    `json:"name"`
	Main string    `json:"main"`
	All  []MapType `json:"all"`
}
type DocField struct {
	N    string     `json:"n"`
	Kind string     `json:"kind"` // leaf | object | tags | nested
	Sub  []DocField `json:"sub"`
}

// DeclType / DeclItem: the declared mapping (the YAML tree of seq.ReadMapping) as the specification states it
type DeclType struct {
	Title string `json:"title"`
	Typ   string `json:"typ"`
	Size  int    `json:"size"`
}
type DeclItem struct {
	Name  string     `json:"name"`
	Typ   string     `json:"typ"`
	Types []DeclType `json:"types"`
	Sub   []DeclItem `json:"sub"`
}
type IdxTok struct {
	Key string `json:"key"`
	A   []Atom `json:"a"`
	A2  []Atom `json:"a2"` // the same token without a rune cut in the middle (equal to A if there is none)
	Lit string `json:"lit"`
	M   int    `json:"m"` // number of the meta (0: the document, k: its k-th nested element)
	Ex  bool   `json:"ex"`
}
type Rendering struct {
	S  string `json:"s"`
	U  []Atom `json:"u"`
	U2 []Atom `json:"u2"` // alternative content satisfying the same demand (whole-rune prefix), empty if none
	F  bool   `json:"f"`
}
type Probe struct {
	Title string      `json:"title"`
	Typ   string      `json:"typ"`
	Kind  string      `json:"kind"`
	Dem   bool        `json:"dem"`
	Q     []Rendering `json:"q"`
}
type Cfg struct {
	Shape   string `json:"shape"`
	Typ     string `json:"typ"`
	CS      bool   `json:"cs"`
	Partial bool   `json:"partial"`
	MT      int    `json:"mt"`
	MS      int    `json:"ms"`
	Decl    string `json:"decl"`
	MainPos int    `json:"mainpos"`
}
type Case struct {
	Val    []string   `json:"val"`
	Cfg    Cfg        `json:"cfg"`
	Decl   []DeclItem `json:"decl"`
	Map    []MapEntry `json:"map"`
	Doc    []DocField `json:"doc"`
	NMeta  int        `json:"nmeta"`
	Idx    []IdxTok   `json:"idx"`
	Probes []Probe    `json:"probes"`
}

var typeByName = map[string]seq.TokenizerType{
	"keyword": seq.TokenizerTypeKeyword, "text": seq.TokenizerTypeText, "path": seq.TokenizerTypePath,
	"exists": seq.TokenizerTypeExists, "object": seq.TokenizerTypeObject, "tags": seq.TokenizerTypeTags,
	"nested": seq.TokenizerTypeNested,
}

// declYAML writes the declared mapping in the format of the mapping file (names and type words only; nothing is decided here)
func declYAML(b *strings.Builder, items []DeclItem, indent string) {
	fmt.Fprintf(b, "%smapping-list:\n", indent)
	for _, it := range items {
		fmt.Fprintf(b, "%s  - name: %s\n", indent, it.Name)
		if len(it.Types) > 0 {
			fmt.Fprintf(b, "%s    types:\n", indent)
			for _, t := range it.Types {
				first := "- "
				if t.Title != "" {
					fmt.Fprintf(b, "%s      %stitle: %s\n", indent, first, t.Title)
					first = "  "
				}
				fmt.Fprintf(b, "%s      %stype: %s\n", indent, first, t.Typ)
				if t.Size != 0 {
					fmt.Fprintf(b, "%s        size: %d\n", indent, t.Size)
				}
			}
		} else {
			fmt.Fprintf(b, "%s    type: %s\n", indent, it.Typ)
		}
		if len(it.Sub) > 0 {
			declYAML(b, it.Sub, indent+"    ")
		}
	}
}

var (
	mapMu    sync.Mutex
	mappings = map[string]seq.Mapping{}
)

// mapping: the real conversion of the declared mapping (cached per YAML text); sig is the YAML text
func (c *Case) mapping() (seq.Mapping, string, error) {
	if len(c.Decl) == 0 {
		return nil, "", fmt.Errorf("case without a declared mapping")
	}
	var b strings.Builder
	declYAML(&b, c.Decl, "")
	y := b.String()
	mapMu.Lock()
	defer mapMu.Unlock()
	if m, ok := mappings[y]; ok {
		return m, y, nil
	}
	m, err := seq.ReadMapping([]byte(y))
	if err != nil {
		return nil, y, fmt.Errorf("seq.ReadMapping rejects the declared mapping: %v\n%s", err, y)
	}
	mappings[y] = m
	return m, y, nil
}

// mappingAgrees: structural comparison of the converted map with the one the specification expects (c.Map is the list of map
// assignments in program order, the last one wins); a diagnostic - the verdict comes from the queries
func (c *Case) mappingAgrees(m seq.Mapping) bool {
	exp := map[string]MapEntry{}
	for _, e := range c.Map {
		exp[e.Name] = e
	}
	if len(exp) != len(m) {
		return false
	}
	for name, e := range exp {
		got, ok := m[name]
		if !ok || got.Main.TokenizerType != typeByName[e.Main] || len(got.All) != len(e.All) {
			return false
		}
		for i, a := range e.All {
			if got.All[i].Title != a.Title || got.All[i].TokenizerType != typeByName[a.Typ] || got.All[i].MaxSize != a.MS {
				return false
			}
		}
	}
	return true
}

// ---------------------------------------------------------------- concretisation

type concrete struct {
	chars []pchar
	codes []string // per character: the escape code (what follows the backslash) used where the case spells it escaped
}

func (cc *concrete) value() []byte {
	var b []byte
	for _, p := range cc.chars {
		b = append(b, p.raw...)
	}
	return b
}

// atom renders an emitted atom: whole character raw / lower, a stray byte, or U+FFFD; e = 0: a literal meta string
func (cc *concrete) atom(dst []byte, a Atom) []byte {
	if a.E == 0 {
		return append(dst, a.F...)
	}
	p := cc.chars[a.E-1]
	switch {
	case a.F == "x":
		return append(dst, "\ufffd"...)
	case a.B == 0 && a.F == "c":
		return append(dst, cc.codes[a.E-1]...)
	case a.B == 0 && a.F == "r":
		return append(dst, p.raw...)
	case a.B == 0 && a.F == "l":
		return append(dst, p.lower...)
	case a.B > 0 && a.F == "r":
		return append(dst, p.raw[a.B-1])
	}
	panic(fmt.Sprintf("bad atom %+v", a))
}

func (cc *concrete) atoms(as []Atom) []byte {
	b := []byte{}
	for _, a := range as {
		b = cc.atom(b, a)
	}
	return b
}

func pick(c *Case, seed int64, n, rep int) *concrete {
	h := fnv.New64a()
	fmt.Fprintf(h, "%d|%d|%s", seed, rep, strings.Join(c.Val, ","))
	// the same value gets the same characters in all its configurations of one rep; n shifts the draw between reps only
	r := rand.New(rand.NewSource(int64(h.Sum64())))
	cc := &concrete{}
	for _, cls := range c.Val {
		ps := palette[cls]
		cc.chars = append(cc.chars, ps[r.Intn(len(ps))])
	}
	// escape codes: the customary spelling in the first rep, a drawn one afterwards (drawn after the characters)
	for i, p := range cc.chars {
		code := ""
		if c.Val[i] != "iv" {
			ru, _ := utf8.DecodeRuneInString(p.raw)
			cs := codesOf(ru)
			code = cs[0]
			if rep > 0 {
				code = cs[r.Intn(len(cs))]
			}
		}
		cc.codes = append(cc.codes, code)
	}
	return cc
}

// jsonString: a JSON string literal for arbitrary bytes (invalid UTF-8 is passed through as the ES bulk API receives it)
func jsonString(dst, v []byte) []byte { return jsonStringU(dst, v, false) }

// jsonStringU: control bytes by their two-character JSON escapes where JSON has one (\b \f \n \r \t), or all of them as \u00XX
func jsonStringU(dst, v []byte, allU bool) []byte {
	dst = append(dst, '"')
	for _, b := range v {
		short := strings.IndexByte("\b\f\n\r\t", b)
		switch {
		case b == '"' || b == '\\':
			dst = append(dst, '\\', b)
		case short >= 0 && !allU:
			dst = append(dst, '\\', "bfnrt"[short])
		case b < 0x20:
			dst = append(dst, fmt.Sprintf("\\u%04x", b)...)
		default:
			dst = append(dst, b)
		}
	}
	return append(dst, '"')
}

func docJSON(dst []byte, fields []DocField, leaf []byte, uid string) []byte {
	dst = append(dst, '{')
	for i, f := range fields {
		if i > 0 {
			dst = append(dst, ',')
		}
		dst = jsonString(dst, []byte(f.N))
		dst = append(dst, ':')
		switch f.Kind {
		case "object":
			dst = docJSON(dst, f.Sub, leaf, "")
		case "nested": // an array with one element
			dst = append(dst, '[')
			dst = docJSON(dst, f.Sub, leaf, "")
			dst = append(dst, ']')
		case "tags": // [{"key": name, "value": v}, ...]
			dst = append(dst, '[')
			for j, t := range f.Sub {
				if j > 0 {
					dst = append(dst, ',')
				}
				dst = append(dst, `{"key":`...)
				dst = jsonString(dst, []byte(t.N))
				dst = append(dst, `,"value":`...)
				dst = append(dst, leaf...)
				dst = append(dst, '}')
			}
			dst = append(dst, ']')
		default:
			dst = append(dst, leaf...)
		}
	}
	if uid != "" {
		dst = append(dst, `,"Uid":`...)
		dst = jsonString(dst, []byte(uid))
	}
	return append(dst, '}')
}

// ---------------------------------------------------------------- the real index side

type capture struct {
	metas []frac.MetaData
	fwd   *env.Env
}
type capKey struct{}

type capClient struct{}

func (capClient) StoreDocuments(ctx context.Context, count int, docs, metas []byte) error {
	c, _ := ctx.Value(capKey{}).(*capture)
	if c == nil {
		return fmt.Errorf("no capture in context")
	}
	payload, err := disk.DocBlock(metas).DecompressTo(nil)
	if err != nil {
		return err
	}
	for len(payload) > 0 {
		n := binary.LittleEndian.Uint32(payload)
		payload = payload[4:]
		var md frac.MetaData
		if err := md.UnmarshalBinary(append([]byte(nil), payload[:n]...)); err != nil {
			return err
		}
		payload = payload[n:]
		c.metas = append(c.metas, md)
	}
	if c.fwd != nil {
		// what bulk.SeqDBClient does for a single store
		_, err := c.fwd.Client.Bulk(ctx, &pb.BulkRequest{Count: int64(count), Docs: append([]byte(nil), docs...), Metas: append([]byte(nil), metas...)})
		return err
	}
	return nil
}

type mapProv struct{ m seq.Mapping }

func (p mapProv) GetMapping() seq.Mapping        { return p.m }
func (p mapProv) GetRawMapping() *seq.RawMapping { return seq.NewRawMapping(p.m) }

var (
	ingMu     sync.Mutex
	ingestors = map[string]*bulk.Ingestor{}
)

func ingestorFor(c *Case, m seq.Mapping, sig string, workers int) *bulk.Ingestor {
	key := fmt.Sprintf("%v|%v|%d|%s", c.Cfg.CS, c.Cfg.Partial, c.Cfg.MT, sig)
	ingMu.Lock()
	defer ingMu.Unlock()
	if ing, ok := ingestors[key]; ok {
		return ing
	}
	ing := bulk.NewIngestor(bulk.IngestorConfig{
		MaxInflightBulks:       workers + 4,
		AllowedTimeDrift:       24 * time.Hour,
		FutureAllowedTimeDrift: 24 * time.Hour,
		MappingProvider:        mapProv{m},
		MaxTokenSize:           c.Cfg.MT,
		CaseSensitive:          c.Cfg.CS,
		PartialFieldIndexing:   c.Cfg.Partial,
		DocsZSTDCompressLevel:  1,
		MetasZSTDCompressLevel: 1,
		MaxDocumentSize:        1 << 20,
	}, capClient{})
	ingestors[key] = ing
	return ing
}

func ingest(ing *bulk.Ingestor, doc []byte, fwd *env.Env) ([]frac.MetaData, error) {
	cp := &capture{fwd: fwd}
	ctx := context.WithValue(context.Background(), capKey{}, cp)
	sent := false
	n, err := ing.ProcessDocuments(ctx, time.Now(), func() ([]byte, error) {
		if sent {
			return nil, nil
		}
		sent = true
		return doc, nil
	})
	if err != nil {
		return nil, err
	}
	if n != 1 {
		return nil, fmt.Errorf("ingestor accepted %d documents", n)
	}
	return cp.metas, nil
}

// ---------------------------------------------------------------- the real query side

type fieldToks struct {
	vals    [][]byte // as emitted
	sorted  [][]byte
	matched []bool // index into vals: some probe literal selected this token
}

type prov struct {
	toks    [][]byte
	ordered bool
}

func (p *prov) GetToken(tid uint32) []byte { return p.toks[tid-1] }
func (p *prov) FirstTID() uint32           { return 1 }
func (p *prov) LastTID() uint32            { return uint32(len(p.toks)) }
func (p *prov) Ordered() bool              { return p.ordered }

type tokIndex map[string]*fieldToks

func buildIndex(md frac.MetaData) tokIndex {
	ti := tokIndex{}
	for _, t := range md.Tokens {
		k := string(t.Key)
		ft := ti[k]
		if ft == nil {
			ft = &fieldToks{}
			ti[k] = ft
		}
		ft.vals = append(ft.vals, append([]byte(nil), t.Value...))
	}
	for _, ft := range ti {
		ft.sorted = append([][]byte(nil), ft.vals...)
		sort.Slice(ft.sorted, func(i, j int) bool { return bytes.Compare(ft.sorted[i], ft.sorted[j]) < 0 })
		ft.matched = make([]bool, len(ft.vals))
	}
	return ti
}

// leaf asks the real pattern.Search which tokens of the field the literal/range selects
func (ti tokIndex) leaf(tok parser.Token, mark bool) (bool, error) {
	ft := ti[parser.GetField(tok)]
	if ft == nil || len(ft.vals) == 0 {
		return false, nil
	}
	un := &prov{toks: ft.vals}
	tids, err := pattern.Search(context.Background(), tok, un)
	if err != nil {
		return false, err
	}
	or := &prov{toks: ft.sorted, ordered: true}
	tids2, err := pattern.Search(context.Background(), tok, or)
	if err != nil {
		return false, err
	}
	set1 := map[string]bool{}
	for _, t := range tids {
		set1[string(un.GetToken(t))] = true
		if mark {
			ft.matched[t-1] = true
		}
	}
	set2 := map[string]bool{}
	for _, t := range tids2 {
		set2[string(or.GetToken(t))] = true
	}
	if len(set1) != len(set2) {
		return false, fmt.Errorf("pattern.Search: ordered and unordered providers select different tokens (%d vs %d)", len(set2), len(set1))
	}
	for k := range set1 {
		if !set2[k] {
			return false, fmt.Errorf("pattern.Search: ordered and unordered providers select different tokens")
		}
	}
	return len(tids) > 0, nil
}

// eval combines leaf answers along the AST (and/or/not only - the tree shape is the parser's)
func (ti tokIndex) eval(n *parser.ASTNode, mark bool) (bool, error) {
	switch v := n.Value.(type) {
	case *parser.Logical:
		switch v.Operator {
		case parser.LogicalNot:
			x, err := ti.eval(n.Children[0], false)
			return !x, err
		case parser.LogicalAnd, parser.LogicalOr, parser.LogicalNAnd:
			a, err := ti.eval(n.Children[0], mark)
			if err != nil {
				return false, err
			}
			b, err := ti.eval(n.Children[1], mark)
			if err != nil {
				return false, err
			}
			switch v.Operator {
			case parser.LogicalAnd:
				return a && b, nil
			case parser.LogicalOr:
				return a || b, nil
			default:
				return !(a && b), nil
			}
		}
		return false, fmt.Errorf("unknown logical operator")
	default:
		return ti.leaf(n.Value, mark)
	}
}

// ---------------------------------------------------------------- output

var outMu sync.Mutex

func emit(v any) {
	b, _ := json.Marshal(v)
	outMu.Lock()
	os.Stdout.Write(append(b, '\n'))
	outMu.Unlock()
}

// emitMismatch prints a disagreement; after mismatchCap of them only their number is kept (a broken tree disagrees on
// tens of thousands of cases, each line carrying the token dump)
const mismatchCap = 400

var mismatches, suppressed int64

func emitMismatch(o map[string]any) {
	if _, infra := o["infra"]; !infra {
		outMu.Lock()
		mismatches++
		over := mismatches > mismatchCap
		if over {
			suppressed++
		}
		outMu.Unlock()
		if over {
			return
		}
	}
	emit(o)
}

func hx(b []byte) string { return hex.EncodeToString(b) }

func show(b []byte) string {
	if utf8.Valid(b) {
		return string(b)
	}
	return "hex:" + hx(b)
}

type stats struct {
	evals, nontrivial, tokdiff, mapdiff, exemptProbes, exemptFound, e2e, e2eQueries, parseRejected int
	styles                                                                                         map[string]int
}

func (s *stats) add(o *stats) {
	s.evals += o.evals
	s.nontrivial += o.nontrivial
	s.tokdiff += o.tokdiff
	s.mapdiff += o.mapdiff
	s.exemptProbes += o.exemptProbes
	s.exemptFound += o.exemptFound
	s.e2e += o.e2e
	s.e2eQueries += o.e2eQueries
	s.parseRejected += o.parseRejected
	for k, v := range o.styles {
		s.styles[k] += v
	}
}

type e2eQuery struct {
	n      int
	q      string
	q2     string // alternative content meeting the same demand ("" if none)
	cs     bool
	envKey string
	style  string
	kind   string
	value  string
}

type runner struct {
	seed    int64
	reps    int
	workers int
	e2eStep int
	envs    map[string]*env.Env
	envMu   sync.Mutex
	e2eQ    []e2eQuery
	uidSeq  int
}

func (r *runner) envFor(c *Case, m seq.Mapping) (*env.Env, string, error) {
	key := c.Cfg.Shape + "/" + c.Cfg.Typ
	r.envMu.Lock()
	defer r.envMu.Unlock()
	if e, ok := r.envs[key]; ok {
		return e, key, nil
	}
	// the store only needs the types (query parsing); sizes live in the ingestor's mapping
	sm := seq.Mapping{}
	for k, v := range m {
		sm[k] = v
	}
	e, err := env.New(env.Opts{SkipFsync: true, Mapping: sm})
	if err != nil {
		return nil, "", err
	}
	r.envs[key] = e
	return e, key, nil
}

// runCase returns the mismatches of one case (all reps)
func (r *runner) runCase(n int, c *Case, st *stats) []map[string]any {
	var out []map[string]any
	m, sig, err := c.mapping()
	if err != nil {
		return []map[string]any{{"infra": err.Error()}}
	}
	ing := ingestorFor(c, m, sig, r.workers)
	if !c.mappingAgrees(m) {
		st.mapdiff++
	}
	for rep := 0; rep < r.reps; rep++ {
		cc := pick(c, r.seed, n, rep)
		val := cc.value()
		leaf := jsonStringU(nil, val, rep%2 == 1)
		// an all-digit value may equally arrive as a JSON number: same content
		if rep%2 == 1 && len(val) > 0 && (val[0] != '0' || len(val) == 1) {
			num := true
			for _, b := range val {
				if b < '0' || b > '9' {
					num = false
				}
			}
			if num {
				leaf = val
			}
		}
		doc := docJSON(nil, c.Doc, leaf, "")
		metas, err := ingest(ing, doc, nil)
		base := map[string]any{"n": n, "rep": rep, "value": show(val), "classes": strings.Join(c.Val, " "), "cfg": c.Cfg, "doc": show(doc)}
		mm := func(what string, extra map[string]any) {
			o := map[string]any{}
			for k, v := range base {
				o[k] = v
			}
			for k, v := range extra {
				o[k] = v
			}
			o["what"] = what
			out = append(out, o)
		}
		if err != nil {
			mm("ingest: "+err.Error(), nil)
			continue
		}
		if len(metas) != c.NMeta {
			mm(fmt.Sprintf("ingest: %d metas for a document with %d nested elements", len(metas), c.NMeta-1), nil)
			continue
		}
		// one token index per meta: the document is found if one of its metas satisfies the query
		tis := make([]tokIndex, len(metas))
		for i := range metas {
			tis[i] = buildIndex(metas[i])
		}
		conf.CaseSensitive = c.Cfg.CS
		demanded := 0
		for pi := range c.Probes {
			p := &c.Probes[pi]
			for _, rd := range p.Q {
				q := append([]byte(p.Title+":"), cc.atoms(rd.U)...)
				st.evals++
				st.styles[rd.S]++
				found := false
				var perr error
				ask := func(q []byte) (ok bool, err error) {
					defer func() {
						if x := recover(); x != nil {
							err = fmt.Errorf("panic: %v", x)
						}
					}()
					ast, err := parser.ParseSeqQL(string(q), m)
					if err != nil {
						return false, err
					}
					for _, ti := range tis {
						f, err := ti.eval(ast.Root, true)
						if err != nil {
							return false, err
						}
						ok = ok || f
					}
					return ok, nil
				}
				found, perr = ask(q)
				if !found && len(rd.U2) > 0 {
					// the demand is met by either content (byte prefix or whole-rune prefix of an over-long value)
					q2 := append([]byte(p.Title+":"), cc.atoms(rd.U2)...)
					st.evals++
					if f2, err2 := ask(q2); err2 == nil && f2 {
						found, perr = true, nil
					}
				}
				if !p.Dem {
					st.exemptProbes++
					if found {
						st.exemptFound++
					}
					continue
				}
				demanded++
				if perr != nil {
					st.parseRejected++
					mm("own-content query rejected: "+perr.Error(), map[string]any{"query": show(q), "style": rd.S, "kind": p.Kind, "field": p.Title})
				} else if !found {
					mm("own-content query does not find the document", map[string]any{"query": show(q), "style": rd.S, "kind": p.Kind, "field": p.Title, "tokens": dumpTokens(metas)})
				}
			}
		}
		if demanded > 2*len(c.Map) {
			st.nontrivial++
		}
		// expected tokens of the specification, concretely
		exp := map[string]int{}
		exempt := map[string]bool{}
		expExists := map[string]bool{}
		for _, it := range c.Idx {
			var k string
			if it.Key == "_exists_" {
				k = fmt.Sprintf("%d\x00%s\x00%s", it.M, it.Key, it.Lit)
				expExists[it.Lit] = true
			} else {
				k = fmt.Sprintf("%d\x00%s\x00%s", it.M, it.Key, cc.atoms(it.A))
			}
			exp[k]++
			if it.Ex {
				// nothing is asserted about this token, whether the implementation keeps or drops a cut rune at its end
				exempt[it.Key+"\x00"+string(cc.atoms(it.A))] = true
				exempt[it.Key+"\x00"+string(cc.atoms(it.A2))] = true
			}
		}
		got := map[string]int{}
		for mi, ti := range tis {
			// Index copies the tokens of the document's own meta into the metas of its nested elements
			copied := map[string]int{}
			if mi > 0 {
				for key, ft := range tis[0] {
					for _, v := range ft.vals {
						copied[key+"\x00"+string(v)]++
					}
				}
			}
			for key, ft := range ti {
				if key == "_all_" {
					continue
				}
				for i, v := range ft.vals {
					kk := key + "\x00" + string(v)
					if copied[kk] > 0 {
						copied[kk]--
						continue
					}
					got[fmt.Sprintf("%d\x00%s", mi, kk)]++
					if key == "_exists_" {
						if !expExists[string(v)] {
							mm("existence token for a field the mapping does not index", map[string]any{"token": show(v), "tokens": dumpTokens(metas)})
						}
						continue
					}
					if !ft.matched[i] && !exempt[kk] {
						mm("token that no own-content query produces", map[string]any{"field": key, "token": show(v), "tokens": dumpTokens(metas)})
					}
				}
			}
		}
		agree := len(exp) == len(got)
		for k, v := range exp {
			if got[k] != v {
				agree = false
			}
		}
		if !agree {
			st.tokdiff++
		}
		if r.e2eStep > 0 && n%r.e2eStep == 0 && rep == 0 {
			out = append(out, r.e2eIngest(n, c, cc, m, ing, leaf, st)...)
		}
	}
	return out
}

func dumpTokens(mds []frac.MetaData) []string {
	var out []string
	for i, md := range mds {
		for _, t := range md.Tokens {
			if i == 0 {
				out = append(out, string(t.Key)+"="+show(t.Value))
			} else {
				out = append(out, fmt.Sprintf("[%d]%s=%s", i, t.Key, show(t.Value)))
			}
		}
	}
	return out
}

// e2eIngest writes the document (plus a unique Uid) through the same real ingestor into a real store and queues the
// demanded queries; they are asked after all writes, on the active fraction and after sealing.
func (r *runner) e2eIngest(n int, c *Case, cc *concrete, m seq.Mapping, ing *bulk.Ingestor, leaf []byte, st *stats) []map[string]any {
	e, key, err := r.envFor(c, m)
	if err != nil {
		return []map[string]any{{"infra": "env: " + err.Error()}}
	}
	r.envMu.Lock()
	r.uidSeq++
	uid := fmt.Sprintf("u%dx%d", n, r.uidSeq)
	r.envMu.Unlock()
	doc := docJSON(nil, c.Doc, leaf, uid)
	if _, err := ingest(ing, doc, e); err != nil {
		return []map[string]any{{"n": n, "what": "e2e ingest: " + err.Error(), "doc": show(doc)}}
	}
	st.e2e++
	r.envMu.Lock()
	defer r.envMu.Unlock()
	for pi := range c.Probes {
		p := &c.Probes[pi]
		if !p.Dem {
			continue
		}
		for i, rd := range p.Q {
			// double quotes always, one more style in rotation
			if !(rd.S == "dq" || i == 1+(n+pi)%max(len(p.Q)-1, 1)) {
				continue
			}
			q := p.Title + ":" + string(cc.atoms(rd.U)) + ` and Uid:"` + uid + `"`
			q2 := ""
			if len(rd.U2) > 0 {
				q2 = p.Title + ":" + string(cc.atoms(rd.U2)) + ` and Uid:"` + uid + `"`
			}
			r.e2eQ = append(r.e2eQ, e2eQuery{n: n, q: q, q2: q2, cs: c.Cfg.CS, envKey: key, style: rd.S, kind: p.Kind, value: show(cc.value())})
		}
	}
	return nil
}

func (r *runner) e2eAsk(form string, st *stats) {
	for _, q := range r.e2eQ {
		conf.CaseSensitive = q.cs
		e := r.envs[q.envKey]
		resp, err := e.SearchQL(q.q, env.Params{From: 0, To: env.MaxMID, Limit: 10, WithTotal: true})
		st.e2eQueries++
		if (err != nil || len(resp.IdSources) != 1) && q.q2 != "" {
			if resp2, err2 := e.SearchQL(q.q2, env.Params{From: 0, To: env.MaxMID, Limit: 10, WithTotal: true}); err2 == nil && len(resp2.IdSources) == 1 {
				resp, err = resp2, nil
			}
		}
		if err != nil {
			emitMismatch(map[string]any{"n": q.n, "what": "e2e: search failed: " + err.Error(), "query": show([]byte(q.q)), "form": form, "style": q.style, "kind": q.kind, "value": q.value})
			continue
		}
		if len(resp.IdSources) != 1 {
			emitMismatch(map[string]any{"n": q.n, "what": fmt.Sprintf("e2e: own-content query returns %d documents instead of 1", len(resp.IdSources)),
				"query": show([]byte(q.q)), "form": form, "style": q.style, "kind": q.kind, "value": q.value})
		}
	}
}

func main() {
	progress := flag.Bool("progress", false, "")
	workers := flag.Int("workers", 1, "")
	tablePath := flag.String("table", "", "class table emitted by TLC (JSON)")
	seed := flag.Int64("seed", 1, "")
	reps := flag.Int("reps", 1, "concrete strings per class sequence")
	e2e := flag.Int("e2e", 0, "every k-th case also goes through a real store (0 = off)")
	summaryPath := flag.String("summary", "", "also append the summary object to this file")
	flag.Parse()
	if *tablePath == "" {
		emit(map[string]any{"infra": "no -table"})
		os.Exit(3)
	}
	tb, err := os.ReadFile(*tablePath)
	var tab table
	if err == nil {
		err = json.Unmarshal(tb, &tab)
	}
	if err == nil {
		err = checkPalette(&tab)
	}
	if err != nil {
		emit(map[string]any{"infra": "palette/table: " + err.Error()})
		os.Exit(3)
	}
	if *progress {
		*workers = 1
	}
	r := &runner{seed: *seed, reps: *reps, workers: *workers, e2eStep: *e2e, envs: map[string]*env.Env{}}

	sc := bufio.NewScanner(os.Stdin)
	sc.Buffer(make([]byte, 1<<20), 1<<26)
	var lines [2][]string // by case sensitivity: conf.CaseSensitive is process-global
	var order [2][]int
	n := 0
	total := &stats{styles: map[string]int{}}
	serial := func(line string, idx int) {
		var c Case
		if err := json.Unmarshal([]byte(line), &c); err != nil {
			emit(map[string]any{"infra": "bad case " + err.Error()})
			os.Exit(3)
		}
		emit(map[string]any{"begin": idx})
		for _, o := range r.runCase(idx, &c, total) {
			emitMismatch(o)
		}
		emit(map[string]any{"end": idx})
	}
	for sc.Scan() {
		line := sc.Text()
		if !strings.HasPrefix(line, "{") {
			continue
		}
		if *progress {
			serial(line, n)
			n++
			continue
		}
		k := 0
		if strings.Contains(line, `"cs":true`) {
			k = 1
		}
		lines[k] = append(lines[k], line)
		order[k] = append(order[k], n)
		n++
	}
	if !*progress {
		for k := 0; k < 2; k++ {
			var wg sync.WaitGroup
			var mu sync.Mutex
			next := 0
			for w := 0; w < *workers; w++ {
				wg.Add(1)
				go func() {
					defer wg.Done()
					st := &stats{styles: map[string]int{}}
					for {
						mu.Lock()
						i := next
						next++
						mu.Unlock()
						if i >= len(lines[k]) {
							break
						}
						var c Case
						if err := json.Unmarshal([]byte(lines[k][i]), &c); err != nil {
							emit(map[string]any{"infra": "bad case " + err.Error()})
							os.Exit(3)
						}
						if c.Cfg.CS != (k == 1) {
							emit(map[string]any{"infra": "case sensitivity partition broken"})
							os.Exit(3)
						}
						for _, o := range r.runCase(order[k][i], &c, st) {
							emitMismatch(o)
						}
					}
					mu.Lock()
					total.add(st)
					mu.Unlock()
				}()
			}
			wg.Wait()
		}
	}
	if len(r.e2eQ) > 0 {
		for _, e := range r.envs {
			e.WaitIdle()
		}
		r.e2eAsk("active", total)
		for _, e := range r.envs {
			e.Seal()
		}
		r.e2eAsk("sealed", total)
	}
	for _, e := range r.envs {
		e.Close()
	}
	summary := map[string]any{"summary": true, "cases": n, "evals": total.evals, "nontrivial": total.nontrivial, "corpora": 0,
		"tokdiff": total.tokdiff, "mapdiff": total.mapdiff, "exempt_probes": total.exemptProbes, "exempt_found": total.exemptFound,
		"e2e_docs": total.e2e, "e2e_queries": total.e2eQueries, "styles": total.styles, "reps": *reps,
		"mismatches": mismatches, "mismatches_not_printed": suppressed}
	if *summaryPath != "" {
		// one line per driver process: the check feeds large case files in chunks
		b, _ := json.Marshal(summary)
		if f, err := os.OpenFile(*summaryPath, os.O_APPEND|os.O_CREATE|os.O_WRONLY, 0o644); err == nil {
			_, _ = f.Write(append(b, '\n'))
			_ = f.Close()
		}
	}
	emit(summary)
}
