// lctrace drives real stores through whole fraction life cycles (ingest, rotation + sealing by the
// real maintenance pass, size-based retention deleting sealed and active fractions) and records the
// file operations of every fraction through the verif hooks: one ndjson trace per mode for
// LifecycleTrace.tla (per-fraction file operations) and one for Retention.tla (rotate / shift order).
package main

import (
	"encoding/json"
	"flag"
	"fmt"
	"os"
	"path/filepath"
	"sort"
	"strings"
	"sync"
	"time"

	"github.com/ozontech/seq-db/verifhook"

	"verifharness/env"
)

type ev struct {
	frac, op, kind string
}

var (
	mu   sync.Mutex
	evs  []ev
	fmEv []map[string]any
)

var kinds = []struct{ suf, kind string }{{".docs.del", "docsDel"}, {".sdocs.del", "sdocsDel"}, {".index.del", "indexDel"},
	{"._sdocs", "sdocsTmp"}, {"._index", "indexTmp"}, {".sdocs", "sdocs"}, {".index", "index"}, {".docs", "docs"}, {".meta", "meta"}}

func split(path string) (string, string) {
	b := filepath.Base(path)
	for _, k := range kinds {
		if strings.HasSuffix(b, k.suf) {
			return strings.TrimSuffix(b, k.suf), k.kind
		}
	}
	return b, ""
}

func observer(point string, obj any, a, b int64) {
	s, _ := obj.(string)
	mu.Lock()
	defer mu.Unlock()
	switch point {
	case "file.create", "file.sync", "file.rename", "file.remove":
		fr, k := split(s)
		evs = append(evs, ev{fr, strings.TrimPrefix(point, "file."), k})
	case "dir.sync":
		fr, _ := split(s)
		evs = append(evs, ev{fr, "dirsync", ""})
	case "pf.publish":
		fr, _ := split(s)
		evs = append(evs, ev{fr, "publish", ""})
	case "fm.rotate":
		fmEv = append(fmEv, map[string]any{"ev": "rotate", "name": filepath.Base(s)})
	case "fm.shift":
		fmEv = append(fmEv, map[string]any{"ev": "shift", "name": s})
	}
}

func mark(e *env.Env, op string) {
	name := e.FM().Active().Info().Name()
	mu.Lock()
	evs = append(evs, ev{name, op, ""})
	mu.Unlock()
}

func main() {
	skip := flag.Bool("skip", false, "SkipSortDocs mode")
	rounds := flag.Int("rounds", 6, "")
	seed := flag.Int("seed", 1, "")
	out := flag.String("out", "lc.ndjson", "")
	outRet := flag.String("retention", "ret.ndjson", "")
	sealSuicide := flag.Bool("sealsuicide", false, "retention hits a fraction WHILE it is being sealed (sealer parked at pf.idle until the deletion waits for it); afterwards its files must be gone and it must not reappear after a restart")
	actSuicide := flag.Bool("activesuicide", false, "record retention deleting the ACTIVE fraction (TotalSize 1, no rotation); the process exits without stopping the store")
	flag.Parse()
	if !verifhook.Enabled {
		fmt.Println(`{"infra":"built without -tags verif"}`)
		os.Exit(3)
	}
	if *sealSuicide {
		runSealSuicide(*skip, *out)
		return
	}
	verifhook.Set(observer)
	// FracSize 1: every maintenance pass with data rotates and seals. TotalSize small: after a few
	// fractions the oldest ones are deleted; in the last phase everything incl. the active one.
	total := uint64(2500 + 500*(*seed%3))
	fracSize := uint64(1)
	if *actSuicide {
		fracSize, total, *rounds = 1<<40, 1, 1
	}
	e, err := env.New(env.Opts{SkipFsync: false, SkipSortDocs: *skip, FracSize: fracSize, TotalSize: total})
	if err != nil {
		fmt.Printf(`{"infra":%q}`+"\n", err.Error())
		os.Exit(3)
	}
	n := 0
	ingested := map[string]bool{}
	for r := 0; r < *rounds; r++ {
		var bulk []env.Doc
		for i := 0; i < 3+(r+*seed)%4; i++ {
			n++
			bulk = append(bulk, env.Doc{MID: uint64(1000 + n), RID: uint64(n), Tok: map[string][]string{"k": {fmt.Sprintf("d%d", n)}},
				Body: fmt.Sprintf(`{"n":%d,"pad":"%s"}`, n, strings.Repeat("x", 50+(n*13)%120))})
		}
		name := e.FM().Active().Info().Name()
		if err := e.Bulk(bulk); err != nil {
			fmt.Printf(`{"infra":%q}`+"\n", "bulk: "+err.Error())
			os.Exit(3)
		}
		e.WaitIdle()
		if !ingested[name] {
			ingested[name] = true
			mark(e, "ingest")
		}
		if *actSuicide || (r+*seed)%3 != 2 { // sometimes two bulks go into the same fraction
			e.FM().VerifMaintenance()
		}
	}
	if !*actSuicide { // the store cannot be stopped after its active fraction was deleted
		e.Halt()
	}
	verifhook.Set(nil)
	mu.Lock()
	defer mu.Unlock()
	// per fraction, in order of appearance
	byFrac := map[string][]ev{}
	var order []string
	for _, x := range evs {
		if !strings.HasPrefix(x.frac, "seq-db-") {
			continue
		}
		if _, ok := byFrac[x.frac]; !ok {
			order = append(order, x.frac)
		}
		byFrac[x.frac] = append(byFrac[x.frac], x)
	}
	fh, _ := os.Create(*out)
	enc := json.NewEncoder(fh)
	lines := 0
	for _, f := range order {
		enc.Encode(map[string]any{"ev": "RESET", "k": ""})
		for _, x := range byFrac[f] {
			enc.Encode(map[string]any{"ev": x.op, "k": x.kind})
			lines++
		}
	}
	fh.Close()
	// retention trace with names as ranks
	names := map[string]bool{}
	for _, m := range fmEv {
		names[m["name"].(string)] = true
	}
	var sorted []string
	for k := range names {
		sorted = append(sorted, k)
	}
	sort.Strings(sorted)
	rank := map[string]int{}
	for i, k := range sorted {
		rank[k] = i + 1
	}
	fr, _ := os.Create(*outRet)
	enc2 := json.NewEncoder(fr)
	enc2.Encode(map[string]any{"ev": "RESET", "name": 0})
	shifts := 0
	for _, m := range fmEv {
		enc2.Encode(map[string]any{"ev": m["ev"], "name": rank[m["name"].(string)]})
		if m["ev"] == "shift" {
			shifts++
		}
	}
	fr.Close()
	fmt.Printf(`{"summary":true,"fractions":%d,"events":%d,"fm_events":%d,"shifts":%d}`+"\n", len(order), lines, len(fmEv), shifts)
}

// runSealSuicide: one maintenance pass with FracSize 1 and TotalSize 1 rotates the fraction, starts its
// seal and, in the same pass, lets retention pop it. The sealer is parked at pf.idle until the
// deletion has been issued, so proxyFrac.Suicide really waits for the seal in flight.
func runSealSuicide(skip bool, out string) {
	var shifted = make(chan struct{}, 4)
	parkedCh := make(chan chan struct{}, 1)
	sealerAtIdle := make(chan struct{})
	first := true
	var hmu sync.Mutex
	verifhook.Set(func(point string, obj any, a, b int64) {
		observer(point, obj, a, b)
		switch point {
		case "fm.shift":
			// the schedule under test: retention pops the fraction WHILE it is being sealed. The sealer runs in
			// its own goroutine; on a loaded machine it may not have started when retention (same pass) gets
			// here, and the fraction would be deleted as a plain active one. Hold retention until the sealer
			// is parked at pf.idle.
			select {
			case <-sealerAtIdle:
			case <-time.After(170 * time.Second):
			}
			shifted <- struct{}{}
		case "pf.idle":
			hmu.Lock()
			mine := first
			first = false
			hmu.Unlock()
			if mine {
				ch := make(chan struct{})
				close(sealerAtIdle)
				parkedCh <- ch
				<-ch
			}
		}
	})
	e, err := env.New(env.Opts{SkipFsync: true, SkipSortDocs: skip, FracSize: 1, TotalSize: 1})
	if err != nil {
		fmt.Printf(`{"infra":%q}`+"\n", err.Error())
		os.Exit(3)
	}
	var bulk []env.Doc
	for i := 1; i <= 5; i++ {
		bulk = append(bulk, env.Doc{MID: uint64(1000 + i), RID: uint64(i), Tok: map[string][]string{"k": {"t"}}, Body: fmt.Sprintf(`{"n":%d}`, i)})
	}
	target := e.FM().Active().Info().Name()
	if err := e.Bulk(bulk); err != nil {
		fmt.Printf(`{"infra":%q}`+"\n", "bulk: "+err.Error())
		os.Exit(3)
	}
	e.WaitIdle()
	mark(e, "ingest")
	done := make(chan struct{})
	go func() { e.FM().VerifMaintenance(); close(done) }()
	var gate chan struct{}
	select {
	case gate = <-parkedCh:
	case <-time.After(180 * time.Second):
		fmt.Println(`{"infra":"sealer did not reach pf.idle"}`)
		os.Exit(3)
	}
	select {
	case <-shifted:
	case <-time.After(180 * time.Second):
		fmt.Println(`{"infra":"retention did not pop the sealing fraction"}`)
		os.Exit(3)
	}
	time.Sleep(50 * time.Millisecond) // the deletion goroutine reaches sealWg.Wait
	close(gate)
	select {
	case <-done:
	case <-time.After(60 * time.Second):
		fmt.Println(`{"n":0,"what":"maintenance pass did not finish: seal and deletion of the same fraction dead-locked"}`)
		os.Exit(0)
	}
	verifhook.Set(nil)
	var left []string
	ents, _ := os.ReadDir(e.O.Dir)
	for _, en := range ents {
		if strings.HasPrefix(en.Name(), target) {
			left = append(left, strings.TrimPrefix(en.Name(), target))
		}
	}
	if len(left) > 0 {
		b, _ := json.Marshal(map[string]any{"n": 0, "what": fmt.Sprintf("fraction deleted by retention while it was being sealed left files behind: %v", left)})
		fmt.Println(string(b))
	}
	e.Halt()
	if err := e.Reopen(); err != nil {
		b, _ := json.Marshal(map[string]any{"n": 1, "what": "store did not start after the deletion: " + err.Error()})
		fmt.Println(string(b))
	} else {
		n := 0
		for _, f := range e.FM().GetAllFracs() {
			n += int(f.Info().DocsTotal)
		}
		if n != 0 {
			b, _ := json.Marshal(map[string]any{"n": 2, "what": fmt.Sprintf("%d documents of the fraction deleted by retention are served again after a restart", n)})
			fmt.Println(string(b))
		}
		e.Halt()
	}
	// life-cycle trace of the target fraction
	mu.Lock()
	defer mu.Unlock()
	fh, _ := os.Create(out)
	enc := json.NewEncoder(fh)
	enc.Encode(map[string]any{"ev": "RESET", "k": ""})
	lines := 0
	for _, x := range evs {
		if x.frac == target {
			enc.Encode(map[string]any{"ev": x.op, "k": x.kind})
			lines++
		}
	}
	fh.Close()
	fmt.Printf(`{"summary":true,"fractions":1,"events":%d,"fm_events":%d,"shifts":1}`+"\n", lines, len(fmEv))
}
