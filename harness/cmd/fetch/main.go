// fetch replays FetchCases.tla (-kind pos) and FetchStream.tla (-kind stream) cases through
// GrpcV1.Fetch (in-memory client, so docsStream / calcChunkSize / Fetcher / fraction indexes are
// all the real ones) and compares every position with the specification's answer.
package main

import (
	"bufio"
	"bytes"
	"encoding/json"
	"flag"
	"fmt"
	"os"
	"strings"
	"sync"
	"sync/atomic"
	"time"

	"github.com/ozontech/seq-db/conf"
	pb "github.com/ozontech/seq-db/pkg/storeapi"
	"github.com/ozontech/seq-db/seq"

	"verifharness/cases"
	"verifharness/env"
)

type ReqID struct {
	ID   struct{ Mid, Rid uint64 } `json:"id"`
	Hint int                       `json:"hint"`
}

type PosCase struct {
	N      int
	Corpus []cases.Doc `json:"corpus"`
	Assign []int       `json:"assign"`
	Req    []ReqID     `json:"req"`
	Exp    []bool      `json:"exp"`
	raw    string
}

type StreamCase struct {
	Runs  [][2]int `json:"runs"`
	Steps int      `json:"steps"`
}

var (
	kind     = flag.String("kind", "pos", "pos|stream")
	workers  = flag.Int("workers", 8, "")
	progress = flag.Bool("progress", false, "")
	maxFetch = flag.Int("maxfetch", 4096, "conf.MaxFetchSizeBytes for -kind stream")
	outMu    sync.Mutex
	evals    atomic.Int64
	nontriv  atomic.Int64
)

func emit(v any) {
	b, _ := json.Marshal(v)
	outMu.Lock()
	os.Stdout.Write(append(b, '\n'))
	outMu.Unlock()
}

type fetched struct {
	docs [][]byte
	echo [][2]uint64
	err  error
}

// fetchWatch runs the fetch with a watchdog: a hang of the real code is reported, not waited for.
func fetchWatch(e *env.Env, req *pb.FetchRequest, d time.Duration) (fetched, bool) {
	ch := make(chan fetched, 1)
	go func() {
		docs, echo, err := e.FetchReq(req)
		ch <- fetched{docs, echo, err}
	}()
	select {
	case r := <-ch:
		return r, true
	case <-time.After(d):
		return fetched{}, false
	}
}

func runPosGroup(gi int, g []*PosCase) {
	c0 := g[0]
	e, err := env.New(env.Opts{SkipFsync: true})
	if err != nil {
		emit(map[string]any{"infra": err.Error()})
		return
	}
	defer e.Close()
	docs := cases.EnvDocs(c0.Corpus)
	names := map[int]string{}
	for part := 1; part <= 2; part++ {
		var bulk []env.Doc
		for i, p := range c0.Assign {
			if p == part {
				bulk = append(bulk, docs[i])
			}
		}
		if len(bulk) == 0 {
			continue
		}
		if err := e.Bulk(bulk); err != nil {
			emit(map[string]any{"infra": "bulk: " + err.Error()})
			return
		}
		e.WaitIdle()
		names[part] = e.FM().Active().Info().Name()
		if part == 1 || gi%2 == 1 {
			e.Seal()
		}
	}
	body := map[[2]uint64][]byte{}
	for _, d := range docs {
		body[[2]uint64{d.MID, d.RID}] = d.BodyBytes()
	}
	for _, c := range g {
		if *progress {
			emit(map[string]any{"begin": c.N})
		}
		req := &pb.FetchRequest{}
		withHints := false
		for _, r := range c.Req {
			if r.Hint > 0 {
				withHints = true
			}
		}
		for _, r := range c.Req {
			id := seq.ID{MID: seq.MID(r.ID.Mid), RID: seq.RID(r.ID.Rid)}
			if withHints {
				req.IdsWithHints = append(req.IdsWithHints, &pb.IdWithHint{Id: id.String(), Hint: names[r.Hint]})
			} else {
				req.Ids = append(req.Ids, id.String())
			}
		}
		res, ok := fetchWatch(e, req, 20*time.Second)
		evals.Add(1)
		what := ""
		switch {
		case !ok:
			what = "hang: fetch did not return within 20s"
		case res.err != nil:
			what = "error: " + res.err.Error()
		case len(res.docs) != len(c.Req):
			what = fmt.Sprintf("got %d entries for %d ids", len(res.docs), len(c.Req))
		default:
			some := false
			for i, r := range c.Req {
				key := [2]uint64{r.ID.Mid, r.ID.Rid}
				if res.echo[i] != key {
					what = fmt.Sprintf("position %d echoes id %v, requested %v", i, res.echo[i], key)
					break
				}
				if c.Exp[i] {
					some = true
					if !bytes.Equal(res.docs[i], body[key]) {
						what = fmt.Sprintf("position %d: stored doc %q expected, got %q", i, body[key], res.docs[i])
						break
					}
				} else if len(res.docs[i]) != 0 {
					what = fmt.Sprintf("position %d: id not stored, got %q", i, res.docs[i])
					break
				}
			}
			if some {
				nontriv.Add(1)
			}
		}
		if what != "" {
			emit(map[string]any{"n": c.N, "what": what, "sealedAll": gi%2 == 1, "case": json.RawMessage(c.raw)})
		}
		if *progress {
			emit(map[string]any{"end": c.N})
		}
	}
}

func filler(i, size int) []byte {
	b := make([]byte, size)
	for k := range b {
		b[k] = 'a' + byte((i+k)%23)
	}
	return b
}

func runStream(n int, raw string, c *StreamCase) {
	e, err := env.New(env.Opts{SkipFsync: true})
	if err != nil {
		emit(map[string]any{"infra": err.Error()})
		return
	}
	defer e.Close()
	var ids []seq.ID
	var want [][]byte
	var bulk []env.Doc
	idx := 0
	for _, r := range c.Runs {
		for k := 0; k < r[0]; k++ {
			idx++
			d := env.Doc{MID: uint64(1000 + idx/7), RID: uint64(idx)}
			ids = append(ids, d.ID())
			if r[1] > 0 {
				b := filler(idx, r[1])
				d.Body = string(b)
				bulk = append(bulk, d)
				want = append(want, b)
			} else {
				want = append(want, nil)
			}
		}
	}
	for k := 0; k < len(bulk); k += 500 {
		if err := e.Bulk(bulk[k:min(k+500, len(bulk))]); err != nil {
			emit(map[string]any{"infra": "bulk: " + err.Error()})
			return
		}
	}
	e.WaitIdle()
	if n%2 == 1 {
		e.Seal()
	}
	if len(bulk) > 0 {
		nontriv.Add(1)
	}
	req := &pb.FetchRequest{}
	for _, id := range ids {
		req.Ids = append(req.Ids, id.String())
	}
	res, ok := fetchWatch(e, req, 60*time.Second)
	evals.Add(1)
	what := ""
	switch {
	case !ok:
		what = "hang: fetch did not return within 60s"
	case res.err != nil:
		what = "error: " + res.err.Error()
	case len(res.docs) != len(ids):
		what = fmt.Sprintf("got %d entries for %d ids", len(res.docs), len(ids))
	default:
		for i := range ids {
			if !bytes.Equal(res.docs[i], want[i]) {
				what = fmt.Sprintf("position %d: want %d bytes, got %d bytes", i, len(want[i]), len(res.docs[i]))
				break
			}
		}
	}
	if what != "" {
		emit(map[string]any{"n": n, "what": what, "sealed": n%2 == 1, "case": json.RawMessage(raw)})
	}
}

func main() {
	flag.Parse()
	sc := bufio.NewScanner(os.Stdin)
	sc.Buffer(make([]byte, 1<<20), 1<<26)
	w := *workers
	if *progress {
		w = 1
	}
	n := 0
	var wg sync.WaitGroup
	if *kind == "stream" {
		conf.MaxFetchSizeBytes = *maxFetch
		type job struct {
			n   int
			raw string
			c   *StreamCase
		}
		ch := make(chan job)
		for i := 0; i < w; i++ {
			wg.Add(1)
			go func() {
				defer wg.Done()
				for j := range ch {
					if *progress {
						emit(map[string]any{"begin": j.n})
					}
					runStream(j.n, j.raw, j.c)
					if *progress {
						emit(map[string]any{"end": j.n})
					}
				}
			}()
		}
		for sc.Scan() {
			line := sc.Text()
			if !strings.HasPrefix(line, "{") {
				continue
			}
			c := &StreamCase{}
			if err := json.Unmarshal([]byte(line), c); err != nil {
				emit(map[string]any{"infra": "bad case: " + err.Error()})
				os.Exit(3)
			}
			ch <- job{n, line, c}
			n++
		}
		close(ch)
		wg.Wait()
		emit(map[string]any{"summary": true, "cases": n, "evals": evals.Load(), "nontrivial": nontriv.Load(), "corpora": n})
		return
	}
	var groups [][]*PosCase
	idx := map[string]int{}
	for sc.Scan() {
		line := sc.Text()
		if !strings.HasPrefix(line, "{") {
			continue
		}
		c := &PosCase{raw: line, N: n}
		if err := json.Unmarshal([]byte(line), c); err != nil {
			emit(map[string]any{"infra": "bad case: " + err.Error()})
			os.Exit(3)
		}
		n++
		kb, _ := json.Marshal([]any{c.Corpus, c.Assign})
		gi, ok := idx[string(kb)]
		if !ok {
			gi = len(groups)
			idx[string(kb)] = gi
			groups = append(groups, nil)
		}
		groups[gi] = append(groups[gi], c)
	}
	type gjob struct {
		gi int
		g  []*PosCase
	}
	ch := make(chan gjob)
	for i := 0; i < w; i++ {
		wg.Add(1)
		go func() {
			defer wg.Done()
			for j := range ch {
				runPosGroup(j.gi, j.g)
			}
		}()
	}
	for gi, g := range groups {
		ch <- gjob{gi, g}
	}
	close(ch)
	wg.Wait()
	emit(map[string]any{"summary": true, "cases": n, "evals": evals.Load(), "nontrivial": nontriv.Load(), "corpora": len(groups)})
}
