// proxysys records histories of a REAL proxy over REAL in-process stores for ProxySystemTrace.tla
// (trace validation against ProxySystem.tla: C09 + C16 + C17 + C05 composed at system level).
//
// One history = 2 shards x 2 replicas of real stores (harness/env: fracmanager + storeapi.GrpcV1 behind
// the repository's in-memory client), the real write path bulk.Ingestor.ProcessDocuments ->
// bulk.SeqDBClient.StoreDocuments (real circuit breaker, configured never to open) and the real read
// path search.Ingestor.Search (search, merge, pagination, fetch) over fault-injecting wrappers of
// pb.StoreApiClient.  The wrappers see every per-replica call: they hold one mutex across the call into
// the store and the log line, so every line is written at the linearization point of its action.
// Faults are scripted from the seed: "fail the next k calls of replica (s,r)" for Bulk only (before the
// store = err, or after the store accepted = lost), Search only, Fetch only or all of them; replicas are
// stopped and started again (a real graceful stop and a real loader run over the data directory),
// sealed (so that a re-delivered bulk becomes a second physical copy) and settled (Store.WaitIdle: the
// asynchronous indexer has caught up).  Two bulker goroutines, one searcher and one fault goroutine run
// concurrently; which interleaving happens is whatever the scheduler does - the log tells.
//
// Events (one ndjson line each, all fields always present; documents are [bulk, index]):
//   RESET shuffle maxtries | bbegin b nd | bcall b s r out(ok|err|lost) st | back b | bfail b |
//   down s r | up s r | seal s r | settle s r | sbegin off n | scall s r out a tot | fcall s r out d |
//   sret status(ok|partial|error) ids total docs | obs o
// Independently of the model the driver checks that every fetched document is byte for byte the document
// that was sent under that ID, that a store only returns IDs it was given, and that every bulk is wholly
// present or wholly absent on a replica at an observation.
package main

import (
	"bufio"
	"bytes"
	"context"
	"encoding/json"
	"errors"
	"flag"
	"fmt"
	"io"
	"math/rand"
	"os"
	"os/exec"
	"path/filepath"
	"runtime"
	"sort"
	"strconv"
	"strings"
	"sync"
	"time"

	"google.golang.org/grpc"
	"google.golang.org/grpc/codes"
	"google.golang.org/grpc/status"
	"google.golang.org/protobuf/types/known/emptypb"

	"github.com/ozontech/seq-db/consts"
	"github.com/ozontech/seq-db/disk"
	"github.com/ozontech/seq-db/frac"
	"github.com/ozontech/seq-db/mappingprovider"
	"github.com/ozontech/seq-db/network/circuitbreaker"
	"github.com/ozontech/seq-db/packer"
	pb "github.com/ozontech/seq-db/pkg/storeapi"
	"github.com/ozontech/seq-db/proxy/bulk"
	"github.com/ozontech/seq-db/proxy/search"
	"github.com/ozontech/seq-db/proxy/stores"
	"github.com/ozontech/seq-db/querytracer"
	"github.com/ozontech/seq-db/seq"

	"verifharness/env"
)

const (
	NS = 2
	NR = 2
)

var (
	fRuns   = flag.Int("runs", 0, "parent mode: number of histories")
	fFirst  = flag.Int("first", 0, "index of the first history (to reproduce one history of a batch)")
	fSeed   = flag.Int("seed", 1, "")
	fOut    = flag.String("out", "proxysys.ndjson", "concatenated trace")
	fProcs  = flag.Int("procs", 8, "parent mode: child processes")
	fOps    = flag.Int("ops", 10, "bulks per bulker goroutine (2 bulkers); searches and faults scale with it")
	fChild  = flag.Bool("child", false, "")
	fStride = flag.Int("stride", 1, "child mode: run first, first+stride, ... below first+runs*stride")
	fWork   = flag.String("work", "", "scratch directory for the stores")
)

var baseTime = time.Date(2026, 1, 1, 0, 0, 0, 0, time.UTC)

// ---------------------------------------------------------------- events

type doc [2]int

type event struct {
	Ev       string    `json:"ev"`
	B        int       `json:"b"`
	ND       int       `json:"nd"`
	S        int       `json:"s"`
	R        int       `json:"r"`
	Out      string    `json:"out"`
	St       int       `json:"st"`
	Off      int       `json:"off"`
	N        int       `json:"n"`
	A        []doc     `json:"a"`
	Tot      int       `json:"tot"`
	D        []doc     `json:"d"`
	Status   string    `json:"status"`
	IDs      []doc     `json:"ids"`
	Total    int       `json:"total"`
	Docs     []int     `json:"docs"`
	O        [][][]int `json:"o"`
	Shuffle  int       `json:"shuffle"`
	MaxTries int       `json:"maxtries"`
	Run      int       `json:"run"`
}

func (e *event) norm() {
	if e.A == nil {
		e.A = []doc{}
	}
	if e.D == nil {
		e.D = []doc{}
	}
	if e.IDs == nil {
		e.IDs = []doc{}
	}
	if e.Docs == nil {
		e.Docs = []int{}
	}
	if e.O == nil {
		e.O = [][][]int{}
	}
	if e.Out == "" {
		e.Out = "-"
	}
	if e.Status == "" {
		e.Status = "-"
	}
}

// ---------------------------------------------------------------- one history

type fault struct {
	bulk, search, fetch int  // fail the next k calls of that kind
	lost                bool // Bulk: fail after the store accepted
}

type replica struct {
	e        *env.Env
	down     bool
	f        fault
	unsealed bool // accepted something since the last seal (harness bookkeeping: is a seal worth logging)
	got      map[int]int // coverage statistics only: bulk -> 1 accepted, 2 accepted and sealed since
}

type hist struct {
	run     int
	mu      sync.Mutex // serialises every store call with its log line
	w       *bufio.Writer
	rep     [NS][NR]*replica
	ids     map[seq.ID]doc    // learnt from the payload the real ingestor built
	body    map[doc][]byte    // what was sent
	nd      map[int]int       // documents per bulk
	decoded map[int]bool
	probs   []map[string]any
	infra   string
	events  int
	faults  int
	stats   struct{ acks, fails, searches, partial, errors, lost, redeliveries, dupDeliveries, twoShards, restarts int }
	onShard map[int]int // coverage statistics only: bulk -> bit set of shards that accepted it
}

type bulkKey struct{}

func (h *hist) log(e event) { // h.mu held
	e.Run = h.run
	e.norm()
	b, _ := json.Marshal(e)
	h.w.Write(b)
	h.w.WriteByte('\n')
	h.events++
}

func (h *hist) problem(what string, kv map[string]any) { // h.mu held
	p := map[string]any{"n": h.run, "what": what}
	for k, v := range kv {
		p[k] = v
	}
	h.probs = append(h.probs, p)
}

type wrap struct {
	pb.StoreApiClient // nil: the proxy must only use Bulk, Search, Fetch
	h                 *hist
	s, r              int // 0-based
}

var errInjected = status.Error(codes.Unavailable, "injected: store unavailable")

// learn the IDs the real ingestor gave to the documents of bulk b
func (h *hist) decode(b int, in *pb.BulkRequest) {
	if h.decoded[b] {
		return
	}
	h.decoded[b] = true
	defer func() {
		if r := recover(); r != nil {
			h.problem("payload of the bulk cannot be decoded", map[string]any{"b": b, "err": fmt.Sprint(r)})
		}
	}()
	bm, err := disk.DocBlock(in.Metas).DecompressTo(nil)
	if err != nil {
		h.problem("metas of the bulk cannot be decompressed", map[string]any{"b": b, "err": err.Error()})
		return
	}
	u := packer.NewBytesUnpacker(bm)
	n := 0
	for u.Len() > 0 {
		var m frac.MetaData
		if err := m.UnmarshalBinary(u.GetBinary()); err != nil {
			h.problem("meta cannot be decoded", map[string]any{"b": b, "err": err.Error()})
			return
		}
		if m.Size == 0 {
			continue
		}
		for _, t := range m.Tokens {
			if string(t.Key) == "n" {
				var bb, ii int
				if _, err := fmt.Sscanf(string(t.Value), "d%d_%d", &bb, &ii); err == nil && bb == b {
					h.ids[m.ID] = doc{bb, ii}
					n++
				}
			}
		}
	}
	if n != h.nd[b] {
		h.problem("payload does not carry the documents of the bulk", map[string]any{"b": b, "found": n, "exp": h.nd[b]})
	}
}

func (w *wrap) Bulk(ctx context.Context, in *pb.BulkRequest, _ ...grpc.CallOption) (*emptypb.Empty, error) {
	h := w.h
	h.mu.Lock()
	defer h.mu.Unlock()
	b, _ := ctx.Value(bulkKey{}).(int)
	rp := h.rep[w.s][w.r]
	ev := event{Ev: "bcall", B: b, S: w.s + 1, R: w.r + 1}
	if b == 0 {
		h.problem("a Bulk call without the bulk's context reached a store", nil)
		return nil, errInjected
	}
	h.decode(b, in)
	switch {
	case rp.down:
		ev.Out = "err"
	case rp.f.bulk > 0 && !rp.f.lost:
		rp.f.bulk--
		h.faults++
		ev.Out = "err"
	default:
		_, err := rp.e.Client.Bulk(ctx, in)
		switch {
		case err != nil:
			ev.Out = "err" // a healthy store refused (expired context under load): not accepted
		case rp.f.bulk > 0:
			rp.f.bulk--
			h.faults++
			h.stats.lost++
			ev.Out = "lost"
		default:
			ev.Out = "ok"
		}
		if err == nil {
			rp.unsealed = true
			switch rp.got[b] {
			case 1:
				h.stats.redeliveries++
			case 2:
				h.stats.dupDeliveries++
			}
			if rp.got[b] == 0 {
				rp.got[b] = 1
			}
			if h.onShard[b] != 0 && h.onShard[b]&(1<<w.s) == 0 {
				h.stats.twoShards++
			}
			h.onShard[b] |= 1 << w.s
			if (b+w.s+2*w.r+h.run)%3 == 0 { // wait for the indexer under the lock: the bulk is visible at once
				rp.e.WaitIdle()
				ev.St = 1
			}
		}
	}
	h.log(ev)
	if ev.Out == "lost" && (b+h.run)%2 == 0 {
		// seal at once: the re-delivery of this bulk (the client saw an error) will be a second physical copy
		rp.e.Seal()
		rp.unsealed = false
		for x := range rp.got {
			rp.got[x] = 2
		}
		h.log(event{Ev: "seal", S: w.s + 1, R: w.r + 1})
	}
	if ev.Out == "ok" {
		return &emptypb.Empty{}, nil
	}
	return nil, errInjected
}

func (w *wrap) Search(ctx context.Context, in *pb.SearchRequest, _ ...grpc.CallOption) (*pb.SearchResponse, error) {
	h := w.h
	h.mu.Lock()
	defer h.mu.Unlock()
	rp := h.rep[w.s][w.r]
	ev := event{Ev: "scall", S: w.s + 1, R: w.r + 1, Out: "err"}
	var resp *pb.SearchResponse
	switch {
	case rp.down:
	case rp.f.search > 0:
		rp.f.search--
		h.faults++
	default:
		var err error
		resp, err = rp.e.Client.Search(ctx, in)
		if err == nil && resp.Code != pb.SearchErrorCode_NO_ERROR {
			h.problem("a store answered a match-all search with an error code", map[string]any{"code": resp.Code.String(), "s": w.s + 1, "r": w.r + 1})
		}
		if err == nil {
			ev.Out = "ok"
			ev.Tot = int(resp.Total)
			for _, is := range resp.IdSources {
				d, ok := h.ids[seq.ID{MID: seq.MID(is.Id.Mid), RID: seq.RID(is.Id.Rid)}]
				if !ok {
					h.problem("a store returned an ID it was never given", map[string]any{"s": w.s + 1, "r": w.r + 1, "mid": is.Id.Mid, "rid": is.Id.Rid})
					continue
				}
				ev.A = append(ev.A, d)
			}
		}
	}
	h.log(ev)
	if ev.Out == "ok" {
		return resp, nil
	}
	return nil, errInjected
}

func (w *wrap) Fetch(ctx context.Context, in *pb.FetchRequest, _ ...grpc.CallOption) (pb.StoreApi_FetchClient, error) {
	h := w.h
	h.mu.Lock()
	defer h.mu.Unlock()
	rp := h.rep[w.s][w.r]
	ev := event{Ev: "fcall", S: w.s + 1, R: w.r + 1, Out: "err"}
	for _, x := range in.Ids {
		id, err := seq.FromString(x)
		d, ok := h.ids[id]
		if err != nil || !ok {
			h.problem("fetch request for an unknown ID", map[string]any{"id": x})
			continue
		}
		ev.D = append(ev.D, d)
	}
	var st pb.StoreApi_FetchClient
	switch {
	case rp.down:
	case rp.f.fetch > 0:
		rp.f.fetch--
		h.faults++
	default:
		var err error
		st, err = rp.e.Client.Fetch(ctx, in)
		if err == nil {
			ev.Out = "ok"
		}
	}
	h.log(ev)
	if ev.Out == "ok" {
		return st, nil
	}
	return nil, errInjected
}

// ---------------------------------------------------------------- documents

func key(d doc) int { return d[1]*1000 + d[0] }

func docJSON(b, i int) []byte {
	t := baseTime.Add(time.Duration(key(doc{b, i})) * time.Millisecond)
	return []byte(fmt.Sprintf(`{"time":%q,"k":"b%d","n":"d%d_%d","pad":"%s"}`, t.Format("2006-01-02T15:04:05.000Z07:00"), b, b, i,
		strings.Repeat("x", 10+(b*13+i*29)%60)))
}

// ---------------------------------------------------------------- operations

func (h *hist) bulkOp(ing *bulk.Ingestor, b int, rng *rand.Rand) {
	nd := 1 + rng.Intn(3)
	var docs [][]byte
	h.mu.Lock()
	h.nd[b] = nd
	for i := 1; i <= nd; i++ {
		d := docJSON(b, i)
		docs = append(docs, d)
		h.body[doc{b, i}] = d
	}
	h.log(event{Ev: "bbegin", B: b, ND: nd})
	h.mu.Unlock()
	k := 0
	next := func() ([]byte, error) {
		if k == len(docs) {
			return nil, nil
		}
		k++
		return docs[k-1], nil
	}
	ctx := context.WithValue(context.Background(), bulkKey{}, b)
	n, err := ing.ProcessDocuments(ctx, baseTime.Add(10*time.Second), next)
	h.mu.Lock()
	if err == nil {
		if n != nd {
			h.problem("ProcessDocuments acknowledged another number of documents", map[string]any{"b": b, "got": n, "exp": nd})
		}
		h.stats.acks++
		h.log(event{Ev: "back", B: b})
	} else {
		if errors.Is(err, context.DeadlineExceeded) || errors.Is(err, bulk.ErrTooManyInflightBulks) {
			// consts.BulkTimeout (30 s) ran out on an overloaded machine: not a history of the model's scope
			h.infra = fmt.Sprintf("history %d, bulk %d: %v", h.run, b, err)
		}
		h.stats.fails++
		h.log(event{Ev: "bfail", B: b})
	}
	h.mu.Unlock()
}

var pages = [][2]int{{0, 100}, {0, 100}, {0, 3}, {1, 2}, {2, 4}, {0, 1}, {3, 3}, {5, 100}, {0, 0}, {1, 1}}

func (h *hist) searchOp(ing *search.Ingestor, off, n int) {
	h.mu.Lock()
	h.log(event{Ev: "sbegin", Off: off, N: n})
	h.mu.Unlock()
	sr := &search.SearchRequest{Q: []byte("*"), Offset: off, Size: n, From: seq.MID(baseTime.Add(-time.Hour).UnixMilli()),
		To: seq.MID(baseTime.Add(time.Hour).UnixMilli()), WithTotal: true, ShouldFetch: true, Order: seq.DocsOrderDesc}
	qpr, it, _, err := ing.Search(context.Background(), sr, querytracer.New(false, "verif"))
	ev := event{Ev: "sret"}
	switch {
	case err == nil && qpr != nil:
		ev.Status = "ok"
	case err != nil && qpr != nil && errors.Is(err, consts.ErrPartialResponse):
		ev.Status = "partial"
	default:
		ev.Status = "error"
	}
	type got struct {
		id   seq.ID
		data []byte
	}
	var docs []got
	if ev.Status != "error" && it != nil {
		for {
			d, e := it.Next()
			if e != nil {
				if !errors.Is(e, io.EOF) {
					h.mu.Lock()
					h.problem("the document stream of a search ended with an error", map[string]any{"err": e.Error()})
					h.mu.Unlock()
				}
				break
			}
			docs = append(docs, got{d.ID, append([]byte(nil), d.Data...)})
		}
	}
	h.mu.Lock()
	defer h.mu.Unlock()
	h.stats.searches++
	if ev.Status == "partial" {
		h.stats.partial++
	}
	if ev.Status == "error" {
		h.stats.errors++
	}
	if ev.Status != "error" {
		ev.Total = int(qpr.Total)
		for _, is := range qpr.IDs {
			d, ok := h.ids[is.ID]
			if !ok {
				h.problem("the proxy returned an ID no bulk carried", map[string]any{"id": is.ID.String()})
				d = doc{0, 0}
			}
			ev.IDs = append(ev.IDs, d)
		}
		for i, g := range docs {
			if len(g.data) == 0 {
				ev.Docs = append(ev.Docs, 0)
				continue
			}
			ev.Docs = append(ev.Docs, 1)
			// the i-th document is the document of the i-th ID, byte for byte what was sent
			if i < len(qpr.IDs) {
				d := h.ids[qpr.IDs[i].ID]
				if g.id != qpr.IDs[i].ID || !bytes.Equal(g.data, h.body[d]) {
					h.problem("the i-th fetched document is not the document of the i-th ID", map[string]any{
						"i": i, "id": qpr.IDs[i].ID.String(), "doc": d, "got": string(g.data), "exp": string(h.body[d])})
				}
			}
		}
	}
	h.log(ev)
}

// observation: the bulks every running replica serves, read directly from the store (not through the wrappers)
func (h *hist) observe() { // h.mu held
	ev := event{Ev: "obs", O: make([][][]int, NS)}
	for s := 0; s < NS; s++ {
		ev.O[s] = make([][]int, NR)
		for r := 0; r < NR; r++ {
			ev.O[s][r] = []int{}
			rp := h.rep[s][r]
			if rp.down {
				continue
			}
			rp.e.WaitIdle()
			resp, err := rp.e.SearchQL("*", env.Params{From: uint64(baseTime.Add(-time.Hour).UnixMilli()), To: uint64(baseTime.Add(time.Hour).UnixMilli()),
				Limit: 100000, Order: "desc", WithTotal: true})
			if err != nil {
				h.problem("direct search of a running replica failed", map[string]any{"s": s + 1, "r": r + 1, "err": err.Error()})
				continue
			}
			cnt := map[int]int{}
			seen := map[doc]bool{}
			for _, id := range env.RespIDs(resp) {
				d, ok := h.ids[seq.ID{MID: seq.MID(id[0]), RID: seq.RID(id[1])}]
				if !ok {
					h.problem("a store serves an ID it was never given", map[string]any{"s": s + 1, "r": r + 1, "id": id})
					continue
				}
				if seen[d] {
					h.problem("a store lists a document twice", map[string]any{"s": s + 1, "r": r + 1, "doc": d})
					continue
				}
				seen[d] = true
				cnt[d[0]]++
			}
			for b, c := range cnt {
				if c != h.nd[b] {
					h.problem("a bulk is partly present on a replica", map[string]any{"s": s + 1, "r": r + 1, "b": b, "docs": c, "of": h.nd[b]})
				}
				ev.O[s][r] = append(ev.O[s][r], b)
			}
			sort.Ints(ev.O[s][r])
		}
	}
	h.log(ev)
}

func (h *hist) chaosOp(rng *rand.Rand) {
	s, r := rng.Intn(NS), rng.Intn(NR)
	rp := h.rep[s][r]
	switch x := rng.Intn(20); {
	case x < 7: // scripted call faults
		h.mu.Lock()
		k := 1 + rng.Intn(2)
		switch rng.Intn(5) {
		case 0:
			rp.f.bulk, rp.f.lost = k, false
		case 1:
			rp.f.bulk, rp.f.lost = k, true
		case 2:
			rp.f.search = k
		case 3:
			rp.f.fetch = k
		default:
			rp.f = fault{bulk: k, search: k, fetch: k, lost: rng.Intn(2) == 0}
		}
		h.mu.Unlock()
	case x < 10: // stop the replica (or start it again)
		h.mu.Lock()
		if rp.down {
			h.mu.Unlock()
			h.start(s, r)
			return
		}
		rp.down = true
		h.faults++
		h.log(event{Ev: "down", S: s + 1, R: r + 1})
		h.mu.Unlock()
		rp.e.Halt() // no call reaches the store while it is marked down
	case x < 14:
		if rp.down {
			h.start(s, r)
		}
	case x < 16:
		h.mu.Lock()
		if !rp.down && rp.unsealed {
			rp.e.Seal()
			rp.unsealed = false
			for b := range rp.got {
				rp.got[b] = 2
			}
			h.log(event{Ev: "seal", S: s + 1, R: r + 1})
		}
		h.mu.Unlock()
	case x < 18:
		h.mu.Lock()
		if !rp.down {
			rp.e.WaitIdle()
			h.log(event{Ev: "settle", S: s + 1, R: r + 1})
		}
		h.mu.Unlock()
	default:
		h.mu.Lock()
		h.observe()
		h.mu.Unlock()
	}
}

func (h *hist) start(s, r int) {
	rp := h.rep[s][r]
	if err := rp.e.Reopen(); err != nil {
		h.mu.Lock()
		h.problem("a stopped replica does not start again", map[string]any{"s": s + 1, "r": r + 1, "err": err.Error()})
		h.mu.Unlock()
		return
	}
	rp.e.WaitIdle()
	h.mu.Lock()
	rp.down = false
	h.stats.restarts++
	h.log(event{Ev: "up", S: s + 1, R: r + 1})
	h.mu.Unlock()
}

var breakerCfg = circuitbreaker.Config{Timeout: 5 * time.Minute, MaxConcurrent: -1, NumBuckets: 10, BucketWidth: time.Second,
	RequestVolumeThreshold: 1 << 40, ErrorThresholdPercentage: 100, SleepWindow: time.Hour}

func pause(rng *rand.Rand) {
	switch rng.Intn(4) {
	case 0:
	case 1:
		runtime.Gosched()
	default:
		time.Sleep(time.Duration(rng.Intn(400)) * time.Microsecond)
	}
}

func runHistory(run int, work string, mp *mappingprovider.MappingProvider, out *bufio.Writer) (probs []map[string]any, infra string, h *hist) {
	seed := int64(*fSeed)*1000003 + int64(run)
	rng := rand.New(rand.NewSource(seed))
	h = &hist{run: run, w: out, ids: map[seq.ID]doc{}, body: map[doc][]byte{}, nd: map[int]int{}, decoded: map[int]bool{}, onShard: map[int]int{}}
	clients := map[string]pb.StoreApiClient{}
	st := &stores.Stores{}
	for s := 0; s < NS; s++ {
		var hosts []string
		for r := 0; r < NR; r++ {
			dir := filepath.Join(work, fmt.Sprintf("run%d-s%dr%d", run, s+1, r+1))
			os.RemoveAll(dir)
			if err := os.MkdirAll(dir, 0o755); err != nil {
				return nil, err.Error(), h
			}
			e, err := env.New(env.Opts{Dir: dir, SkipFsync: true})
			if err != nil {
				return nil, "cannot open a store: " + err.Error(), h
			}
			h.rep[s][r] = &replica{e: e, got: map[int]int{}}
			host := fmt.Sprintf("s%dr%d", s+1, r+1)
			hosts = append(hosts, host)
			clients[host] = &wrap{h: h, s: s, r: r}
		}
		st.Shards = append(st.Shards, hosts)
		st.Vers = append(st.Vers, "")
	}
	defer func() {
		for s := 0; s < NS; s++ {
			for r := 0; r < NR; r++ {
				if rp := h.rep[s][r]; rp != nil && rp.e != nil {
					if !rp.down {
						rp.e.Halt()
					}
					os.RemoveAll(rp.e.O.Dir)
				}
			}
		}
	}()
	empty := &stores.Stores{Shards: [][]string{}, Vers: []string{}}
	shuffle := rng.Intn(3) == 0
	client := bulk.NewSeqDBClient(st, empty, breakerCfg, clients)
	bing := bulk.NewIngestor(bulk.IngestorConfig{HotStores: st, WriteStores: empty, BulkCircuit: breakerCfg, MaxInflightBulks: 8,
		AllowedTimeDrift: 24 * time.Hour, FutureAllowedTimeDrift: 24 * time.Hour, MappingProvider: mp, MaxTokenSize: 72,
		CaseSensitive: false, PartialFieldIndexing: true, DocsZSTDCompressLevel: 1, MetasZSTDCompressLevel: 1, MaxDocumentSize: 1 << 20}, client)
	defer bing.Stop()
	sing := search.NewIngestor(search.Config{HotStores: st, HotReadStores: empty, ReadStores: empty, WriteStores: empty, ShuffleReplicas: shuffle}, clients)

	sh := 0
	if shuffle {
		sh = 1
	}
	h.mu.Lock()
	h.log(event{Ev: "RESET", Shuffle: sh, MaxTries: consts.BulkMaxTries})
	h.mu.Unlock()

	ops := *fOps
	var wg sync.WaitGroup
	var bmu sync.Mutex
	nextB := 0
	for g := 0; g < 2; g++ {
		wg.Add(1)
		grng := rand.New(rand.NewSource(seed*7 + int64(g) + 1))
		go func() {
			defer wg.Done()
			for i := 0; i < ops; i++ {
				pause(grng)
				bmu.Lock()
				nextB++
				b := nextB
				bmu.Unlock()
				h.bulkOp(bing, b, grng)
			}
		}()
	}
	stop := make(chan struct{})
	var bg sync.WaitGroup
	bg.Add(2)
	srng := rand.New(rand.NewSource(seed*7 + 5))
	go func() { // searcher
		defer bg.Done()
		for {
			select {
			case <-stop:
				return
			default:
			}
			pause(srng)
			p := pages[srng.Intn(len(pages))]
			h.searchOp(sing, p[0], p[1])
			time.Sleep(time.Duration(srng.Intn(1500)) * time.Microsecond)
		}
	}()
	crng := rand.New(rand.NewSource(seed*7 + 6))
	go func() { // faults
		defer bg.Done()
		for {
			select {
			case <-stop:
				return
			default:
			}
			h.chaosOp(crng)
			time.Sleep(time.Duration(crng.Intn(2500)) * time.Microsecond)
		}
	}()
	done := make(chan struct{})
	go func() { wg.Wait(); close(done) }()
	select {
	case <-done:
	case <-time.After(10 * time.Minute):
		return nil, fmt.Sprintf("history %d: the bulkers did not finish in 10 minutes", run), h
	}
	close(stop)
	bg.Wait()
	// the end of every history: all replicas run, no faults: observation and a complete search
	for s := 0; s < NS; s++ {
		for r := 0; r < NR; r++ {
			if h.rep[s][r].down {
				h.start(s, r)
			}
			h.mu.Lock()
			h.rep[s][r].f = fault{}
			h.mu.Unlock()
		}
	}
	h.mu.Lock()
	h.observe()
	h.mu.Unlock()
	h.searchOp(sing, 0, 1000)
	h.searchOp(sing, 1, 3)
	h.mu.Lock()
	probs = h.probs
	infra = h.infra
	h.mu.Unlock()
	return probs, infra, h
}

// ---------------------------------------------------------------- child / parent

func emit(v any) {
	b, _ := json.Marshal(v)
	os.Stdout.Write(append(b, '\n'))
}

func child() {
	work := *fWork
	if work == "" {
		d, err := os.MkdirTemp("", "proxysys-")
		if err != nil {
			emit(map[string]any{"infra": err.Error()})
			os.Exit(3)
		}
		work = d
		defer os.RemoveAll(d)
	}
	os.MkdirAll(work, 0o755)
	mp, err := mappingprovider.New("", mappingprovider.WithMapping(env.DefaultMapping))
	if err != nil {
		emit(map[string]any{"infra": "mapping: " + err.Error()})
		os.Exit(3)
	}
	fh, err := os.Create(*fOut)
	if err != nil {
		emit(map[string]any{"infra": err.Error()})
		os.Exit(3)
	}
	w := bufio.NewWriterSize(fh, 1<<20)
	tot := map[string]int{}
	for i := 0; i < *fRuns; i++ {
		run := *fFirst + i**fStride
		probs, infra, h := runHistory(run, work, mp, w)
		w.Flush()
		if infra != "" {
			emit(map[string]any{"infra": infra})
			os.Exit(3)
		}
		for _, p := range probs {
			emit(p)
		}
		tot["runs"]++
		tot["events"] += h.events
		tot["faults"] += h.faults
		tot["acks"] += h.stats.acks
		tot["fails"] += h.stats.fails
		tot["searches"] += h.stats.searches
		tot["partial"] += h.stats.partial
		tot["errors"] += h.stats.errors
		tot["lost"] += h.stats.lost
		tot["restarts"] += h.stats.restarts
		tot["redeliveries"] += h.stats.redeliveries
		tot["dup_deliveries"] += h.stats.dupDeliveries
		tot["two_shards"] += h.stats.twoShards
	}
	fh.Close()
	m := map[string]any{"summary": true}
	for k, v := range tot {
		m[k] = v
	}
	emit(m)
}

const perChild = 25 // histories per child process (a stopped in-process store leaks descriptors and goroutines)

func parent() {
	procs := *fProcs
	if procs < 1 {
		procs = 1
	}
	work := *fWork
	if work == "" {
		d, err := os.MkdirTemp("", "proxysys-")
		if err != nil {
			emit(map[string]any{"infra": err.Error()})
			os.Exit(3)
		}
		work = d
		defer os.RemoveAll(d)
	}
	os.MkdirAll(work, 0o755)
	type res struct {
		out  []byte
		err  error
		file string
	}
	per := perChild
	if *fRuns < procs*per {
		per = (*fRuns + procs - 1) / procs
	}
	if per < 1 {
		per = 1
	}
	njobs := (*fRuns + per - 1) / per
	results := make([]res, njobs)
	var wg sync.WaitGroup
	sem := make(chan struct{}, procs)
	for k := 0; k < njobs; k++ {
		n := per
		if k*per+n > *fRuns {
			n = *fRuns - k*per
		}
		wg.Add(1)
		sem <- struct{}{}
		go func(k, n int) {
			defer wg.Done()
			defer func() { <-sem }()
			file := filepath.Join(work, fmt.Sprintf("trace-%d.ndjson", k))
			wdir := filepath.Join(work, fmt.Sprintf("w%d", k))
			cmd := exec.Command(os.Args[0], "-child", "-runs", strconv.Itoa(n), "-first", strconv.Itoa(*fFirst+k*per), "-stride", "1",
				"-seed", strconv.Itoa(*fSeed), "-ops", strconv.Itoa(*fOps), "-out", file, "-work", wdir)
			var stderr bytes.Buffer
			cmd.Stderr = &stderr
			out, err := cmd.Output()
			if err != nil {
				tail := stderr.Bytes()
				if len(tail) > 3000 {
					tail = tail[len(tail)-3000:]
				}
				err = fmt.Errorf("%v: %s", err, tail)
			}
			os.RemoveAll(wdir)
			results[k] = res{out, err, file}
		}(k, n)
	}
	wg.Wait()
	fh, err := os.Create(*fOut)
	if err != nil {
		emit(map[string]any{"infra": err.Error()})
		os.Exit(3)
	}
	tot := map[string]int{}
	for k, r := range results {
		for _, ln := range bytes.Split(r.out, []byte("\n")) {
			if len(ln) == 0 {
				continue
			}
			var m map[string]any
			if json.Unmarshal(ln, &m) != nil {
				continue
			}
			if m["summary"] == true {
				for kk, v := range m {
					if f, ok := v.(float64); ok {
						tot[kk] += int(f)
					}
				}
				continue
			}
			os.Stdout.Write(append(ln, '\n'))
		}
		if r.err != nil {
			// a child died: the real code killed the process (panic in a goroutine, logger.Fatal)
			emit(map[string]any{"n": *fFirst + k*per, "what": "crash", "runs": per, "stderr": r.err.Error()})
		}
		if b, err := os.ReadFile(r.file); err == nil {
			if i := bytes.LastIndexByte(b, '\n'); i >= 0 { // complete lines only (a dead child may leave a torn line)
				fh.Write(b[:i+1])
			}
		}
	}
	fh.Close()
	m := map[string]any{"summary": true}
	for k, v := range tot {
		m[k] = v
	}
	emit(m)
}

func main() {
	flag.Parse()
	if *fChild {
		child()
	} else {
		parent()
	}
}
