// proxyread replays ProxyRead.tla cases (C16) into the real proxy read path.
//
// A case is a fault scenario: topology, per-host search behaviour and answer, per-(host, request) fetch
// stream table, and the SET of outcomes the specification allows.  The driver builds scripted
// pkg/storeapi.StoreApiClient fakes (no seq-db logic: they serve exactly what the case tabulates), runs
// the real search.Ingestor.Search (ShuffleReplicas as the scenario says), reads the merged document iterator to its
// end and requires the observed outcome (error class | partial | complete, IDs with the host each ID was
// fetched from, documents position by position, number of store-side errors) to be a member of the
// allowed set.  With -paths api the same scenario is also sent through the proxy's real gRPC API
// (proxyapi.NewIngestor + Search/ComplexSearch over localhost sockets, the fakes then being real gRPC
// StoreApi servers) and error / partial_response / docs are checked against the same set.
//
// With -conc the cases are not replayed one Ingestor each: all scenarios of one configuration (topology,
// HotReadStores, ShuffleReplicas) are searches of ONE search.Ingestor, as in a running proxy, issued at the
// same time from -workers goroutines (the fakes learn from the call's context which scenario a call belongs
// to).  Every outcome must be a member of its scenario's allowed set, no search may ask a host twice, and
// afterwards the replica lists of the configuration must still be the lists of the case (ProxyRead.tla
// Part 4: ReplicaSetConstant, ShardEachOnce, ShardHonest, ShardSummary).
//
// A case of the family "big" (ProxyRead.tla Part 5) carries `big`: the closed-form rule of an all-up search over
// stores whose result sets are arithmetic generators.  A row of the dimension table carries nothing else: its
// stores are generated from the rule (pages of up to 100000 ids, never tabulated) and the real
// Ingestor.Search + full read of the document iterator is held to the rule position by position.  A small
// instance carries the full tables as well: there the rule evaluator of this driver must reproduce the
// tabulated answers, fetch requests and the one allowed outcome exactly (else: infra), and the instance is
// replayed both ways.
package main

import (
	"bufio"
	"context"
	"encoding/json"
	"errors"
	"flag"
	"fmt"
	"io"
	"net"
	"os"
	"path/filepath"
	"sort"
	"strconv"
	"strings"
	"sync"
	"sync/atomic"
	"time"

	"go.uber.org/zap/zapcore"
	"google.golang.org/grpc"
	"google.golang.org/grpc/codes"
	"google.golang.org/grpc/credentials/insecure"
	"google.golang.org/grpc/status"
	"google.golang.org/protobuf/types/known/timestamppb"

	"github.com/ozontech/seq-db/consts"
	"github.com/ozontech/seq-db/disk"
	"github.com/ozontech/seq-db/logger"
	"github.com/ozontech/seq-db/mappingprovider"
	"github.com/ozontech/seq-db/network/circuitbreaker"
	"github.com/ozontech/seq-db/pkg/seqproxyapi/v1"
	pb "github.com/ozontech/seq-db/pkg/storeapi"
	"github.com/ozontech/seq-db/proxy/bulk"
	"github.com/ozontech/seq-db/proxy/search"
	"github.com/ozontech/seq-db/proxy/stores"
	"github.com/ozontech/seq-db/proxyapi"
	"github.com/ozontech/seq-db/seq"

	"verifharness/env"
)

// ---------------------------------------------------------------- case format

type ID [2]uint64

// Body is a document body as the spec names it: [mid, rid, host]; [0,0,""] is the empty document.
type Body string

func (b *Body) UnmarshalJSON(data []byte) error {
	var raw []json.RawMessage
	if err := json.Unmarshal(data, &raw); err != nil {
		return err
	}
	if len(raw) != 3 {
		return fmt.Errorf("body: want 3 elements, got %s", data)
	}
	var m, r uint64
	var h string
	if err := json.Unmarshal(raw[0], &m); err != nil {
		return err
	}
	if err := json.Unmarshal(raw[1], &r); err != nil {
		return err
	}
	if err := json.Unmarshal(raw[2], &h); err != nil {
		return err
	}
	if m == 0 && r == 0 && h == "" {
		*b = ""
		return nil
	}
	*b = Body(fmt.Sprintf("%d.%d@%s", m, r, h))
	return nil
}

// IDH is a returned ID with the host it is attributed to: [mid, rid, host].
type IDH struct {
	MID, RID uint64
	Host     string
}

func (x *IDH) UnmarshalJSON(data []byte) error {
	var raw []json.RawMessage
	if err := json.Unmarshal(data, &raw); err != nil {
		return err
	}
	if len(raw) != 3 {
		return fmt.Errorf("id: want 3 elements, got %s", data)
	}
	if err := json.Unmarshal(raw[0], &x.MID); err != nil {
		return err
	}
	if err := json.Unmarshal(raw[1], &x.RID); err != nil {
		return err
	}
	return json.Unmarshal(raw[2], &x.Host)
}

func (x IDH) MarshalJSON() ([]byte, error) {
	return json.Marshal([]any{x.MID, x.RID, x.Host})
}

type Block struct {
	ID   ID   `json:"id"`
	Body Body `json:"body"`
}

type FetchEntry struct {
	Host   string  `json:"host"`
	Req    []ID    `json:"req"`
	Open   bool    `json:"open"`
	Blocks []Block `json:"blocks"`
	Brk    bool    `json:"brk"`
}

type API struct {
	Grpc    string `json:"grpc"`
	Code    string `json:"code"`
	Partial bool   `json:"partial"`
}

type Alt struct {
	Kind string   `json:"kind"`
	Cls  string   `json:"cls"`
	Tier string   `json:"tier"`
	IDs  []IDH    `json:"ids"`
	Docs [][]Body `json:"docs"`
	Nerr int      `json:"nerr"`
	API  API      `json:"api"`
}

type Case struct {
	Hot     [][]string `json:"hot"`
	Cold    [][]string `json:"cold"`
	HotRead bool       `json:"hotread"`
	Shuffle bool       `json:"shuffle"` // config.ShuffleReplicas
	Req     struct {
		Size   int    `json:"size"`
		Offset int    `json:"offset"`
		Order  string `json:"order"`
	} `json:"req"`
	Hint    string            `json:"hint"`
	SB      map[string]string `json:"sb"`
	Ans     map[string][]ID   `json:"ans"`
	FBK     map[string]string `json:"fbk"`
	Fetch   []FetchEntry      `json:"fetch"`
	Allowed []Alt             `json:"allowed"`
	Store   struct {
		Mode   string `json:"mode"` // "fake" | "hot" | "cold": the first hot host is a real store
		Mature bool   `json:"mature"`
		Oct    int64  `json:"oct"`
		From   int64  `json:"from"`
		Hist   string `json:"hist"` // "fresh" | "truncated": retention has removed an older fraction of the store
	} `json:"store"`
	Big *BigRule `json:"big"` // family "big": the rule (ProxyRead!BigRule); without `allowed` the case is a row of the table
}

func (c *Case) bigRow() bool { return c.Big != nil && len(c.Allowed) == 0 }

func (c *Case) realStore() bool { return c.Store.Mode == "hot" || c.Store.Mode == "cold" }

// ---------------------------------------------------------------- scripted fakes

const decoyHost = "d11"

// run is the per-execution state shared by the fakes of one case on one path
type run struct {
	c        *Case
	query    string          // the query text identifying this execution (api path: stale calls of an earlier case are refused)
	slow     map[string]bool // hosts that answer a search late (steers the race between shard answers)
	mu       sync.Mutex
	problems []string        // things the fakes saw that the scenario does not foresee
	fetched  map[ID][]string // id -> hosts it was requested from
	searched map[string]int
}

func newRun(c *Case) *run {
	return &run{c: c, query: "service:x", fetched: map[ID][]string{}, searched: map[string]int{}}
}

func (r *run) problem(f string, a ...any) {
	r.mu.Lock()
	r.problems = append(r.problems, fmt.Sprintf(f, a...))
	r.mu.Unlock()
}

func (r *run) doSearch(host string, in *pb.SearchRequest) (*pb.SearchResponse, error) {
	if in.Query != r.query {
		// a shard goroutine of an earlier request that searchStores no longer waits for
		return nil, status.Error(codes.Canceled, "stale request")
	}
	r.mu.Lock()
	r.searched[host]++
	n := r.searched[host]
	r.mu.Unlock()
	if r.slow[host] {
		time.Sleep(400 * time.Microsecond)
	}
	if host == decoyHost {
		r.problem("HotStores asked although HotReadStores is configured")
		return &pb.SearchResponse{}, nil
	}
	if n > 1 {
		r.problem("host %s searched %d times", host, n)
	}
	wantOrder := pb.Order_ORDER_DESC
	if r.c.Req.Order == "asc" {
		wantOrder = pb.Order_ORDER_ASC
	}
	if in.Size != int64(r.c.Req.Size) || in.Offset != int64(r.c.Req.Offset) || in.Order != wantOrder {
		r.problem("host %s got altered request size=%d offset=%d order=%s", host, in.Size, in.Offset, in.Order)
	}
	b, ok := r.c.SB[host]
	if !ok {
		r.problem("unknown host %s searched", host)
		return nil, status.Error(codes.Unavailable, "unknown host")
	}
	switch b {
	case "err":
		return nil, status.Error(codes.Unavailable, "store "+host+" is down")
	case "old":
		return &pb.SearchResponse{Code: pb.SearchErrorCode_INGESTOR_QUERY_WANTS_OLD_DATA}, nil
	case "oldmsg":
		return nil, status.Error(codes.Internal, consts.ErrIngestorQueryWantsOldData.Error())
	case "tmf":
		return &pb.SearchResponse{Code: pb.SearchErrorCode_TOO_MANY_FRACTIONS_HIT}, nil
	case "tmu":
		return &pb.SearchResponse{Code: pb.SearchErrorCode_TOO_MANY_UNIQ_VALUES}, nil
	case "tmumsg":
		return nil, status.Error(codes.Internal, consts.ErrTooManyUniqValues.Error())
	case "ok", "okerrs":
		resp := &pb.SearchResponse{}
		for _, id := range r.c.Ans[host] {
			resp.IdSources = append(resp.IdSources, &pb.SearchResponse_IdWithHint{
				Id: &pb.SearchResponse_Id{Mid: id[0], Rid: id[1]}, Hint: r.c.Hint})
		}
		if b == "okerrs" {
			resp.Errors = []string{"fraction of " + host + " failed"}
		}
		return resp, nil
	}
	r.problem("unknown behaviour %q", b)
	return nil, status.Error(codes.Unavailable, "bad behaviour")
}

func sameIDs(a, b []ID) bool {
	if len(a) != len(b) {
		return false
	}
	for i := range a {
		if a[i] != b[i] {
			return false
		}
	}
	return true
}

// doFetch looks the request up in the case's table
func (r *run) doFetch(host string, in *pb.FetchRequest) (*FetchEntry, error) {
	req := make([]ID, 0, len(in.Ids))
	for _, s := range in.Ids {
		id, err := seq.FromString(s)
		if err != nil {
			r.problem("host %s: unparsable id %q in fetch request", host, s)
			return nil, status.Error(codes.InvalidArgument, "bad id")
		}
		req = append(req, ID{uint64(id.MID), uint64(id.RID)})
	}
	for _, h := range in.IdsWithHints {
		if h.Hint != r.c.Hint {
			r.problem("host %s: fetch hint %q, search answered %q", host, h.Hint, r.c.Hint)
		}
	}
	r.mu.Lock()
	for _, id := range req {
		r.fetched[id] = append(r.fetched[id], host)
	}
	r.mu.Unlock()
	for i := range r.c.Fetch {
		e := &r.c.Fetch[i]
		if e.Host == host && sameIDs(e.Req, req) {
			if !e.Open {
				return nil, status.Error(codes.Unavailable, "store "+host+" refuses fetch")
			}
			return e, nil
		}
	}
	r.problem("host %s: fetch request %v not foreseen by the specification", host, req)
	return nil, status.Error(codes.Unavailable, "unforeseen fetch")
}

func packBlock(b Block) []byte {
	d := disk.PackDocBlock([]byte(b.Body), nil)
	d.SetExt1(b.ID[0])
	d.SetExt2(b.ID[1])
	return d
}

// in-process client (path "ingestor")
type fakeClient struct {
	pb.StoreApiClient
	host string
	r    *run
}

func (f *fakeClient) Search(_ context.Context, in *pb.SearchRequest, _ ...grpc.CallOption) (*pb.SearchResponse, error) {
	return f.r.doSearch(f.host, in)
}

type fakeStream struct {
	grpc.ClientStream
	e   *FetchEntry
	pos int
}

func (s *fakeStream) Recv() (*pb.BinaryData, error) {
	if s.pos >= len(s.e.Blocks) {
		if s.e.Brk {
			return nil, status.Error(codes.Unavailable, "stream broken")
		}
		return nil, io.EOF
	}
	b := s.e.Blocks[s.pos]
	s.pos++
	return &pb.BinaryData{Data: packBlock(b)}, nil
}

func (f *fakeClient) Fetch(_ context.Context, in *pb.FetchRequest, _ ...grpc.CallOption) (pb.StoreApi_FetchClient, error) {
	e, err := f.r.doFetch(f.host, in)
	if err != nil {
		return nil, err
	}
	return &fakeStream{e: e}, nil
}

// ---------------------------------------------------------------- observed outcome

type Outcome struct {
	Kind     string   `json:"kind"`
	Cls      string   `json:"cls,omitempty"`
	IDs      []IDH    `json:"ids,omitempty"`
	Docs     []string `json:"docs,omitempty"`
	Nerr     int      `json:"nerr,omitempty"`
	Err      string   `json:"err,omitempty"`
	API      *API     `json:"api,omitempty"`
	Problems []string `json:"problems,omitempty"`
}

func (r *run) hostOf(id ID) string {
	hs := r.fetched[id]
	if len(hs) == 1 {
		return hs[0]
	}
	if len(hs) == 0 {
		return "?"
	}
	return strings.Join(hs, "+")
}

func searchConfig(c *Case, name func(string) string) search.Config {
	mk := func(t [][]string) *stores.Stores {
		s := &stores.Stores{Shards: make([][]string, len(t))}
		for i, sh := range t {
			for _, h := range sh {
				s.Shards[i] = append(s.Shards[i], name(h))
			}
		}
		return s
	}
	cfg := search.Config{ReadStores: mk(c.Cold), WriteStores: mk(c.Cold), ShuffleReplicas: c.Shuffle}
	if c.HotRead {
		cfg.HotStores = mk([][]string{{decoyHost}})
		cfg.HotReadStores = mk(c.Hot)
	} else {
		cfg.HotStores = mk(c.Hot)
		if len(c.Hot)%2 == 0 {
			cfg.HotReadStores = &stores.Stores{} // configured but empty: must be ignored
		}
	}
	return cfg
}

func order(c *Case) seq.DocsOrder {
	if c.Req.Order == "asc" {
		return seq.DocsOrderAsc
	}
	return seq.DocsOrderDesc
}

// runIngestor: the real search.Ingestor over in-process fakes
// variant 1 / 2 delays the answers of the odd / even shards of both tiers.
func runIngestor(c *Case, variant int) (out Outcome) {
	r := newRun(c)
	if variant > 0 {
		r.slow = map[string]bool{}
		for _, t := range [][][]string{c.Hot, c.Cold} {
			for i, sh := range t {
				if i%2 == variant-1 {
					for _, h := range sh {
						r.slow[h] = true
					}
				}
			}
		}
	}
	clients := map[string]pb.StoreApiClient{}
	for h := range c.SB {
		clients[h] = &fakeClient{host: h, r: r}
	}
	if c.HotRead {
		clients[decoyHost] = &fakeClient{host: decoyHost, r: r}
	}
	id := func(x uint64) uint64 { return x }
	return runSearch(c, r, clients, 1, 1000, id, func(d string) string { return d })
}

// runSearch calls the real Ingestor.Search, reads the document iterator to its end and normalises what
// came back.  absMID / absDoc translate the real store's timestamps and bodies (family "store").
func runSearch(c *Case, r *run, clients map[string]pb.StoreApiClient, from, to uint64,
	absMID func(uint64) uint64, absDoc func(string) string) (out Outcome) {
	ing := search.NewIngestor(searchConfig(c, func(h string) string { return h }), clients)
	return runSearchOn(context.Background(), ing, c, r, from, to, absMID, absDoc)
}

func runSearchOn(ctx context.Context, ing *search.Ingestor, c *Case, r *run, from, to uint64,
	absMID func(uint64) uint64, absDoc func(string) string) (out Outcome) {
	defer func() {
		if p := recover(); p != nil {
			out = Outcome{Kind: "error", Cls: "panic", Err: fmt.Sprint(p)}
		}
		r.mu.Lock()
		out.Problems = append([]string(nil), r.problems...)
		r.mu.Unlock()
	}()
	qpr, docs, _, err := ing.Search(ctx, &search.SearchRequest{
		Q: []byte(r.query), From: seq.MID(from), To: seq.MID(to), Size: c.Req.Size, Offset: c.Req.Offset,
		ShouldFetch: true, Order: order(c),
	}, nil)
	if qpr == nil {
		if err == nil {
			return Outcome{Kind: "nothing", Err: "nil result without error"}
		}
		o := Outcome{Kind: "error", Cls: "other", Err: err.Error()}
		switch {
		case errors.Is(err, consts.ErrIngestorQueryWantsOldData):
			o.Cls = "old"
		case errors.Is(err, consts.ErrTooManyFractionsHit):
			o.Cls = "tmf"
		case strings.HasPrefix(err.Error(), "all shards requests failed"):
			o.Cls = "fetch"
		}
		if errors.Is(err, consts.ErrPartialResponse) {
			o.Kind = "partial-without-result"
		}
		return o
	}
	o := Outcome{Kind: "complete", Nerr: len(qpr.Errors)}
	if err != nil {
		if errors.Is(err, consts.ErrPartialResponse) {
			o.Kind = "partial"
		} else {
			o.Kind = "result-with-error"
			o.Err = err.Error()
		}
	}
	if docs == nil {
		o.Kind = "result-without-iterator"
		return o
	}
	for _, id := range qpr.IDs {
		o.IDs = append(o.IDs, IDH{MID: absMID(uint64(id.ID.MID)), RID: uint64(id.ID.RID)})
	}
	// read the iterator to its end (at most two calls more than there are IDs)
	for i := 0; i < len(qpr.IDs)+2; i++ {
		d, e := docs.Next()
		if e != nil {
			if !errors.Is(e, io.EOF) {
				r.problem("document iterator failed at %d: %v", i, e)
			}
			break
		}
		o.Docs = append(o.Docs, absDoc(string(d.Data)))
		if i < len(qpr.IDs) && !d.ID.Equal(qpr.IDs[i].ID) {
			r.problem("document %d carries id %d.%d, returned id is %d.%d", i, d.ID.MID, d.ID.RID, qpr.IDs[i].ID.MID, qpr.IDs[i].ID.RID)
		}
	}
	for i := range o.IDs {
		o.IDs[i].Host = r.hostOf(ID{o.IDs[i].MID, o.IDs[i].RID})
	}
	return o
}

// ---------------------------------------------------------------- family "big": pages generated from the rule

// Gen is the set of MIDs of one store: {m in first..last : (m - first) % step < run} (ProxyRead!BigGen)
type Gen struct {
	Host  string `json:"host"`
	First int64  `json:"first"`
	Run   int64  `json:"run"`
	Step  int64  `json:"step"`
	Last  int64  `json:"last"`
}

// BigRule is ProxyRead!BigRule: the page is Len MIDs from First in steps of Step (RID fixed); an id is fetched from
// the store whose generator holds its MID; its document is that store's document of it, unless the store is
// BrkHost and more than Brk ids of the page up to and including it are that store's: then it is empty.
type BigRule struct {
	N       int64           `json:"n"`
	Len     int             `json:"len"`
	First   int64           `json:"first"`
	Step    int64           `json:"step"`
	RID     uint64          `json:"rid"`
	Gens    []Gen           `json:"gens"`
	Brk     int             `json:"brk"`
	BrkHost string          `json:"brkhost"`
	Dims    json.RawMessage `json:"dims"`
}

func (g *Gen) has(m int64) bool {
	return m >= g.First && m <= g.Last && g.Step > 0 && (m-g.First)%g.Step < g.Run
}

// members lists the generator's MIDs in the given order, at most limit of them (what a store answers)
func (g *Gen) members(asc bool, limit int) []uint64 {
	out := []uint64{}
	if g.Step <= 0 || g.Last < g.First {
		return out
	}
	if asc {
		for st := g.First; st <= g.Last && len(out) < limit; st += g.Step {
			for m := st; m < st+g.Run && m <= g.Last && len(out) < limit; m++ {
				out = append(out, uint64(m))
			}
		}
		return out
	}
	for st := g.First + (g.Last-g.First)/g.Step*g.Step; st >= g.First && len(out) < limit; st -= g.Step {
		hi := st + g.Run - 1
		if hi > g.Last {
			hi = g.Last
		}
		for m := hi; m >= st && len(out) < limit; m-- {
			out = append(out, uint64(m))
		}
	}
	return out
}

// owner is the index of the one generator that holds m (-1: none or several - the table is broken)
func (b *BigRule) owner(m int64) int {
	o := -1
	for i := range b.Gens {
		if b.Gens[i].has(m) {
			if o >= 0 {
				return -1
			}
			o = i
		}
	}
	return o
}

func appendBody(buf []byte, mid, rid uint64, host string) []byte {
	buf = strconv.AppendUint(buf, mid, 10)
	buf = append(buf, '.')
	buf = strconv.AppendUint(buf, rid, 10)
	buf = append(buf, '@')
	return append(buf, host...)
}

// bigRun is the state of one replay of a generated scenario
type bigRun struct {
	c        *Case
	query    string
	mu       sync.Mutex
	problems []string
	searched map[string]int
	reqs     map[string][][]uint64 // host -> the fetch requests it got (MIDs)
}

func (r *bigRun) problem(f string, a ...any) {
	r.mu.Lock()
	if len(r.problems) < 8 {
		r.problems = append(r.problems, fmt.Sprintf(f, a...))
	}
	r.mu.Unlock()
}

type bigClient struct {
	pb.StoreApiClient
	g *Gen
	r *bigRun
}

func (f *bigClient) Search(_ context.Context, in *pb.SearchRequest, _ ...grpc.CallOption) (*pb.SearchResponse, error) {
	return f.r.doSearch(f.g, in)
}

func (r *bigRun) doSearch(g *Gen, in *pb.SearchRequest) (*pb.SearchResponse, error) {
	c := r.c
	f := struct{ g *Gen }{g}
	if in.Query != r.query {
		return nil, status.Error(codes.Canceled, "stale request")
	}
	r.mu.Lock()
	r.searched[f.g.Host]++
	n := r.searched[f.g.Host]
	r.mu.Unlock()
	if n > 1 {
		r.problem("host %s searched %d times", f.g.Host, n)
	}
	wantOrder := pb.Order_ORDER_DESC
	if c.Req.Order == "asc" {
		wantOrder = pb.Order_ORDER_ASC
	}
	if in.Size != int64(c.Req.Size) || in.Offset != int64(c.Req.Offset) || in.Order != wantOrder {
		r.problem("host %s got altered request size=%d offset=%d order=%s", f.g.Host, in.Size, in.Offset, in.Order)
	}
	mids := f.g.members(c.Req.Order == "asc", c.Req.Size+c.Req.Offset) // the store applies the size+offset cut itself
	ids := make([]pb.SearchResponse_Id, len(mids))
	hs := make([]pb.SearchResponse_IdWithHint, len(mids))
	resp := &pb.SearchResponse{IdSources: make([]*pb.SearchResponse_IdWithHint, len(mids))}
	for i, m := range mids {
		ids[i].Mid, ids[i].Rid = m, c.Big.RID
		hs[i].Id, hs[i].Hint = &ids[i], c.Hint
		resp.IdSources[i] = &hs[i]
	}
	return resp, nil
}

type bigStream struct {
	grpc.ClientStream
	host string
	rid  uint64
	mids []uint64
	brk  int // > 0: the stream fails after this many documents
	pos  int
	buf  []byte
}

func (s *bigStream) Recv() (*pb.BinaryData, error) {
	if s.brk > 0 && s.pos >= s.brk {
		return nil, status.Error(codes.Unavailable, "stream broken")
	}
	if s.pos >= len(s.mids) {
		return nil, io.EOF
	}
	m := s.mids[s.pos]
	s.pos++
	s.buf = appendBody(s.buf[:0], m, s.rid, s.host)
	d := disk.PackDocBlock(s.buf, nil)
	d.SetExt1(m)
	d.SetExt2(s.rid)
	return &pb.BinaryData{Data: d}, nil
}

func (f *bigClient) Fetch(_ context.Context, in *pb.FetchRequest, _ ...grpc.CallOption) (pb.StoreApi_FetchClient, error) {
	st, err := f.r.doFetch(f.g, in)
	if err != nil {
		return nil, err
	}
	return st, nil
}

func (r *bigRun) doFetch(g *Gen, in *pb.FetchRequest) (*bigStream, error) {
	c := r.c
	f := struct{ g *Gen }{g}
	mids := make([]uint64, 0, len(in.Ids))
	for _, s := range in.Ids {
		id, err := seq.FromString(s)
		if err != nil || uint64(id.RID) != c.Big.RID {
			r.problem("host %s: id %q in a fetch request", f.g.Host, s)
			return nil, status.Error(codes.InvalidArgument, "bad id")
		}
		mids = append(mids, uint64(id.MID))
	}
	if len(in.IdsWithHints) != len(in.Ids) {
		r.problem("host %s: %d ids, %d ids with hints in a fetch request", f.g.Host, len(in.Ids), len(in.IdsWithHints))
	}
	for i, h := range in.IdsWithHints {
		if h.Hint != c.Hint || (i < len(in.Ids) && h.Id != in.Ids[i]) {
			r.problem("host %s: fetch request entry %d is (%q, hint %q), the id is %q and the search answered hint %q", f.g.Host, i, h.Id, h.Hint, in.Ids[i], c.Hint)
			break
		}
	}
	r.mu.Lock()
	r.reqs[f.g.Host] = append(r.reqs[f.g.Host], mids)
	r.mu.Unlock()
	st := &bigStream{host: f.g.Host, rid: c.Big.RID, mids: mids}
	if f.g.Host == c.Big.BrkHost {
		st.brk = c.Big.Brk
	}
	return st, nil
}

// bigExpect evaluates the rule: fn is called for every position of the page with the MID, the owning generator
// and whether the document is empty by the rule.  false: the table is not a partition.
func (b *BigRule) expect(fn func(i int, mid uint64, owner int, empty bool)) bool {
	rank := make([]int, len(b.Gens))
	for i := 0; i < b.Len; i++ {
		m := b.First + int64(i)*b.Step
		o := b.owner(m)
		if o < 0 {
			return false
		}
		rank[o]++
		fn(i, uint64(m), o, b.Brk > 0 && b.Gens[o].Host == b.BrkHost && rank[o] > b.Brk)
	}
	return true
}

func sameMIDs(a, b []uint64) bool {
	if len(a) != len(b) {
		return false
	}
	for i := range a {
		if a[i] != b[i] {
			return false
		}
	}
	return true
}

// bigSelfCheck: on a small instance the evaluator of the rule must give exactly what TLC tabulated
func bigSelfCheck(c *Case) error {
	b := c.Big
	if len(c.Allowed) != 1 || c.Allowed[0].Kind != "complete" || len(c.Allowed[0].IDs) != b.Len || len(c.Allowed[0].Docs) != b.Len {
		return fmt.Errorf("the tabulated outcome is not one complete alternative of %d ids", b.Len)
	}
	a := &c.Allowed[0]
	exp := map[string][]ID{}
	var bad error
	ok := b.expect(func(i int, mid uint64, o int, empty bool) {
		h := b.Gens[o].Host
		exp[h] = append(exp[h], ID{mid, b.RID})
		body := ""
		if !empty {
			body = string(appendBody(nil, mid, b.RID, h))
		}
		if a.IDs[i] != (IDH{MID: mid, RID: b.RID, Host: h}) || len(a.Docs[i]) != 1 || string(a.Docs[i][0]) != body {
			bad = fmt.Errorf("position %d: the rule gives id %d.%d from %s with document %q, the table %v with %v", i, mid, b.RID, h, body, a.IDs[i], a.Docs[i])
		}
	})
	if !ok {
		return fmt.Errorf("the generators do not partition the page")
	}
	if bad != nil {
		return bad
	}
	for i := range b.Gens {
		g := &b.Gens[i]
		mids := g.members(c.Req.Order == "asc", c.Req.Size+c.Req.Offset)
		if len(mids) != len(c.Ans[g.Host]) {
			return fmt.Errorf("host %s: generated answer has %d ids, the table %d", g.Host, len(mids), len(c.Ans[g.Host]))
		}
		for k, m := range mids {
			if c.Ans[g.Host][k] != (ID{m, b.RID}) {
				return fmt.Errorf("host %s: generated answer differs from the table at %d", g.Host, k)
			}
		}
	}
	n := 0
	for i := range c.Fetch {
		e := &c.Fetch[i]
		if !sameIDs(e.Req, exp[e.Host]) {
			return fmt.Errorf("host %s: the rule's fetch request differs from the table's", e.Host)
		}
		n++
	}
	if n != len(exp) {
		return fmt.Errorf("the rule foresees %d fetch requests, the table %d", len(exp), n)
	}
	return nil
}

type bigGot struct {
	Kind     string   `json:"kind"`
	Err      string   `json:"err,omitempty"`
	IDs      int      `json:"ids"`
	Docs     int      `json:"docs"`
	Lost     int      `json:"docs_lost,omitempty"`
	LostAt   int      `json:"first_lost_at"` // -1: none
	Wrong    int      `json:"docs_wrong,omitempty"`
	WrongAt  int      `json:"first_wrong_at"`
	Detail   string   `json:"detail,omitempty"`
	Problems []string `json:"problems,omitempty"`
}

// judge holds a result to the rule.  id(i) is the i-th returned ID (nil: the response has no ID list of its own, the
// documents carry the IDs), next() the next document of the response.  Returns "" or the class of the disagreement.
func (b *BigRule) judge(r *bigRun, id func(i int) (mid, rid uint64), next func() (mid, rid uint64, data []byte, err error), got *bigGot) string {
	got.LostAt, got.WrongAt = -1, -1
	expReq := make([][]uint64, len(b.Gens))
	var buf []byte
	idsBad, countBad := "", ""
	ended := false
	ok := b.expect(func(i int, mid uint64, o int, empty bool) {
		expReq[o] = append(expReq[o], mid)
		if id != nil {
			if m, rid := id(i); m != mid || rid != b.RID {
				if idsBad == "" {
					idsBad = fmt.Sprintf("position %d: returned id %d.%d, the id of the page is %d.%d", i, m, rid, mid, b.RID)
				}
				return
			}
		}
		if ended || idsBad != "" {
			return
		}
		dm, dr, data, e := next()
		if e != nil {
			ended = true
			countBad = fmt.Sprintf("the documents end at position %d of %d: %v", i, b.Len, e)
			return
		}
		got.Docs++
		buf = buf[:0]
		if !empty {
			buf = appendBody(buf, mid, b.RID, b.Gens[o].Host)
		}
		switch {
		case dm != mid || dr != b.RID:
			if id == nil {
				idsBad = fmt.Sprintf("position %d: document of id %d.%d, the id of the page is %d.%d", i, dm, dr, mid, b.RID)
				return
			}
			if got.Wrong == 0 {
				got.WrongAt = i
				got.Detail = fmt.Sprintf("document %d carries id %d.%d, the returned id is %d.%d", i, dm, dr, mid, b.RID)
			}
			got.Wrong++
		case string(data) == string(buf):
		case len(data) == 0:
			if got.Lost == 0 {
				got.LostAt = i
			}
			got.Lost++
		default:
			if got.Wrong == 0 {
				got.WrongAt = i
				got.Detail = fmt.Sprintf("document %d is %q, the rule says %q", i, data, buf)
			}
			got.Wrong++
		}
	})
	if !ok {
		got.Detail = "the generators do not partition the page"
		return "infra"
	}
	if idsBad != "" {
		got.Detail = idsBad
		return "ids"
	}
	if countBad == "" {
		if _, _, _, e := next(); e == nil {
			countBad = fmt.Sprintf("more than the %d documents of the page are delivered", b.Len)
		} else if !errors.Is(e, io.EOF) {
			countBad = fmt.Sprintf("the documents fail after the page: %v", e)
		}
	}
	// every id must have been fetched from the store that holds it: one request per store, its ids of the page in page order
	r.mu.Lock()
	defer r.mu.Unlock()
	for o := range b.Gens {
		h := b.Gens[o].Host
		rq := r.reqs[h]
		switch {
		case len(expReq[o]) == 0 && len(rq) == 0:
		case len(rq) != 1:
			got.Detail = fmt.Sprintf("host %s got %d fetch requests, it holds %d ids of the page", h, len(rq), len(expReq[o]))
			return "ids"
		case !sameMIDs(rq[0], expReq[o]):
			got.Detail = fmt.Sprintf("host %s was asked to fetch %d ids, not its %d ids of the page in page order", h, len(rq[0]), len(expReq[o]))
			return "ids"
		}
	}
	switch {
	case countBad != "":
		got.Detail = countBad
		return "doc-count"
	case got.Wrong > 0:
		return "doc-wrong"
	case got.Lost > 0:
		return "doc-lost"
	}
	return ""
}

func newBigRun(c *Case, query string) *bigRun {
	return &bigRun{c: c, query: query, searched: map[string]int{}, reqs: map[string][][]uint64{}}
}

// runBig generates the stores of the rule, runs the real Ingestor.Search, reads the document iterator to its end and
// holds the result to the rule.  Returns "" or the class of the disagreement.
func runBig(c *Case) (cls string, got bigGot) {
	b := c.Big
	r := newBigRun(c, "service:x")
	clients := map[string]pb.StoreApiClient{}
	for i := range b.Gens {
		clients[b.Gens[i].Host] = &bigClient{g: &b.Gens[i], r: r}
	}
	defer func() {
		if p := recover(); p != nil {
			cls, got.Kind, got.Err = "panic", "error", fmt.Sprint(p)
		}
		r.mu.Lock()
		got.Problems = append([]string(nil), r.problems...)
		r.mu.Unlock()
		if cls == "" && len(got.Problems) > 0 {
			cls = "fake-protocol"
		}
	}()
	ing := search.NewIngestor(searchConfig(c, func(h string) string { return h }), clients)
	qpr, docs, _, err := ing.Search(context.Background(), &search.SearchRequest{
		Q: []byte(r.query), From: 1, To: seq.MID(b.N + 1000), Size: c.Req.Size, Offset: c.Req.Offset,
		ShouldFetch: true, Order: order(c),
	}, nil)
	got.Kind = "complete"
	switch {
	case qpr == nil && err == nil:
		got.Kind = "nothing"
	case qpr == nil:
		got.Kind, got.Err = "error", err.Error()
	case errors.Is(err, consts.ErrPartialResponse):
		got.Kind = "partial"
	case err != nil:
		got.Kind, got.Err = "result-with-error", err.Error()
	case docs == nil:
		got.Kind = "result-without-iterator"
	case len(qpr.Errors) > 0:
		got.Kind = "complete-with-store-errors"
	}
	if got.Kind != "complete" {
		return "outcome-kind", got
	}
	got.IDs = len(qpr.IDs)
	if len(qpr.IDs) != b.Len {
		got.Detail = fmt.Sprintf("%d ids returned, the page has %d", len(qpr.IDs), b.Len)
		return "ids", got
	}
	cls = b.judge(r,
		func(i int) (uint64, uint64) { return uint64(qpr.IDs[i].ID.MID), uint64(qpr.IDs[i].ID.RID) },
		func() (uint64, uint64, []byte, error) {
			d, e := docs.Next()
			return uint64(d.ID.MID), uint64(d.ID.RID), d.Data, e
		}, &got)
	return cls, got
}

// widthClass names the integer width the page size needs (the family probes the boundaries of these)
func widthClass(n int) string {
	switch {
	case n <= 1<<8:
		return "le2^8"
	case n <= 1<<16:
		return "le2^16"
	}
	return "gt2^16"
}

// ---------------------------------------------------------------- -conc: one Ingestor, many searches at once

type runKey struct{}

// concClient is a host of the shared Ingestor; which scenario it plays is decided per call
type concClient struct {
	pb.StoreApiClient
	host string
}

func runOf(ctx context.Context) *run {
	r, _ := ctx.Value(runKey{}).(*run)
	return r
}

func (f *concClient) Search(ctx context.Context, in *pb.SearchRequest, _ ...grpc.CallOption) (*pb.SearchResponse, error) {
	r := runOf(ctx)
	if r == nil {
		return nil, status.Error(codes.Unavailable, "call without a scenario")
	}
	return r.doSearch(f.host, in)
}

func (f *concClient) Fetch(ctx context.Context, in *pb.FetchRequest, _ ...grpc.CallOption) (pb.StoreApi_FetchClient, error) {
	r := runOf(ctx)
	if r == nil {
		return nil, status.Error(codes.Unavailable, "call without a scenario")
	}
	e, err := r.doFetch(f.host, in)
	if err != nil {
		return nil, err
	}
	return &fakeStream{e: e}, nil
}

func sortedLists(st *stores.Stores) [][]string {
	if st == nil {
		return nil
	}
	out := make([][]string, len(st.Shards))
	for i, sh := range st.Shards {
		out[i] = append([]string{}, sh...)
		sort.Strings(out[i])
	}
	return out
}

func replicaLists(cfg search.Config) map[string][][]string {
	return map[string][][]string{"HotStores": sortedLists(cfg.HotStores), "HotReadStores": sortedLists(cfg.HotReadStores),
		"ReadStores": sortedLists(cfg.ReadStores), "WriteStores": sortedLists(cfg.WriteStores)}
}

type concStats struct {
	groups, searches int64
}

// runConc replays the cases ns (all of one configuration) as concurrent searches of one Ingestor: `reps`
// passes over all of them, then further passes until at least minSearches searches were made, then one
// last pass.  bad(n, case, outcome, class) is called at most once per case, for at most 8 cases.
func runConc(cases []*Case, ns []int, workers, reps, minSearches int, st *concStats,
	bad func(n int, c *Case, o Outcome, cls string), badCfg func(n int, got, exp any)) {
	c0 := cases[ns[0]]
	id := func(h string) string { return h }
	cfg := searchConfig(c0, id)
	clients := map[string]pb.StoreApiClient{}
	for h := range c0.SB {
		clients[h] = &concClient{host: h}
	}
	if c0.HotRead {
		clients[decoyHost] = &concClient{host: decoyHost}
	}
	ing := search.NewIngestor(cfg, clients)
	reported := make([]atomic.Bool, len(ns))
	var done, nbad atomic.Int64 // at most 8 scenarios are reported per configuration
	pass := func() {
		var wg sync.WaitGroup
		ch := make(chan int, 256)
		for w := 0; w < workers; w++ {
			wg.Add(1)
			go func() {
				defer wg.Done()
				for k := range ch {
					c := cases[ns[k]]
					r := newRun(c)
					ctx := context.WithValue(context.Background(), runKey{}, r)
					o := runSearchOn(ctx, ing, c, r, 1, 1000, func(x uint64) uint64 { return x }, func(d string) string { return d })
					done.Add(1)
					// the outcome first: a shard given up although one of its replicas answers says more than
					// "a host was asked twice"
					probs := o.Problems
					o.Problems = nil
					cls, _ := judgeAlt(c, o, false)
					if cls == "" && len(probs) > 0 {
						cls = "fake-protocol"
					}
					o.Problems = probs
					if cls != "" && reported[k].CompareAndSwap(false, true) && nbad.Add(1) <= 8 {
						bad(ns[k], c, o, cls)
					}
				}
			}()
		}
		for k := range ns {
			ch <- k
		}
		close(ch)
		wg.Wait()
	}
	for i := 0; i < reps; i++ {
		pass()
	}
	for done.Load() < int64(minSearches) {
		pass()
	}
	pass()
	atomic.AddInt64(&st.groups, 1)
	atomic.AddInt64(&st.searches, done.Load())
	// ReplicaSetConstant: the lists the proxy works with are still the lists of the case
	got, exp := replicaLists(cfg), replicaLists(searchConfig(c0, id))
	gb, _ := json.Marshal(got)
	eb, _ := json.Marshal(exp)
	if string(gb) != string(eb) {
		badCfg(ns[0], got, exp)
	}
}

// ---------------------------------------------------------------- family "store": a real store as the hot shard

const storeOCT = 5 // abstract creation time of the oldest fraction (ProxyRead!StoreOCT)

type realStore struct {
	env *env.Env
	oct uint64 // FracManager.OldestCT as the maintenance loop computed it (ms)
}

func (s *realStore) real(t int64) uint64 { return uint64(int64(s.oct) + (t-storeOCT)*1000) }
func (s *realStore) abs(m uint64) uint64 {
	if m < 1_000_000_000 {
		return m // an ID of a scripted (cold) host
	}
	return uint64((int64(m)-int64(s.oct))/1000 + storeOCT)
}

var realStores = map[string]*realStore{}

// openRealStore builds a store in the given mode holding documents 8.1, 9.1, 10.1 (abstract times) in a
// sealed fraction, restarts it (maturity is decided at load time by the `.immature` marker that retention
// removes when it first deletes a fraction) and waits for the maintenance loop to publish OldestCT.
func openRealStore(mode string, mature bool, oct int64, hist string) (*realStore, error) {
	key := fmt.Sprintf("%s/%v/%d/%s", mode, mature, oct, hist)
	if s, ok := realStores[key]; ok {
		return s, nil
	}
	dir, err := os.MkdirTemp("", "verif-c16-store-")
	if err != nil {
		return nil, err
	}
	e, err := env.New(env.Opts{Dir: dir, StoreMode: mode, SkipFsync: true})
	if err != nil {
		return nil, err
	}
	var total uint64
	if hist == "truncated" {
		// an older fraction, created more than two (abstract: three) seconds before the one that will be the oldest
		// after retention, so that a request starting at abstract time 3 falls between the two creation times
		if err := e.Bulk([]env.Doc{{MID: uint64(e.FM().Active().Info().CreationTime), RID: 1, Tok: map[string][]string{"k": {"x"}}, Body: `{"b":"4.1@h11"}`}}); err != nil {
			return nil, err
		}
		e.WaitIdle()
		time.Sleep(2200 * time.Millisecond)
		e.Seal()
	}
	ct := e.FM().Active().Info().CreationTime
	var docs []env.Doc
	for m := int64(8); m <= 10; m++ {
		docs = append(docs, env.Doc{MID: uint64(int64(ct) + (m-storeOCT)*1000), RID: 1, Tok: map[string][]string{"k": {"x"}},
			Body: fmt.Sprintf(`{"b":"%d.1@h11"}`, m)})
	}
	if err := e.Bulk(docs); err != nil {
		return nil, err
	}
	e.Seal()
	e.Store.WaitIdle()
	total = e.FM().GetAllFracs().GetTotalSize()
	e.Store.FracManager.Stop()
	if mature {
		if err := os.Remove(filepath.Join(dir, ".immature")); err != nil {
			return nil, fmt.Errorf("no immaturity marker to remove: %w", err)
		}
	}
	o2 := env.Opts{Dir: dir, StoreMode: mode, SkipFsync: true}
	if hist == "truncated" {
		o2.TotalSize = total - 1 // the first maintenance pass has to remove the oldest fraction, and only that one
	}
	e2, err := env.New(o2)
	if err != nil {
		return nil, err
	}
	deadline := time.Now().Add(10 * time.Second)
	for e2.FM().OldestCT.Load() == 0 && time.Now().Before(deadline) {
		time.Sleep(5 * time.Millisecond)
	}
	s := &realStore{env: e2, oct: e2.FM().OldestCT.Load()}
	if hist == "truncated" {
		// what the store holds decides what the model's OldestCT stands for; what the store ADVERTISES
		// (FracManager.OldestCT) shows in its answers
		fr := e2.FM().GetAllFracs()
		if len(fr) == 0 || fr[0].Info().CreationTime != ct || fr[0].Info().DocsTotal != 3 {
			return nil, fmt.Errorf("retention was to leave the fraction created at %d as the oldest one, the store holds %d fractions", ct, len(fr))
		}
		s.oct = ct
	} else if s.oct != ct {
		return nil, fmt.Errorf("OldestCT=%d, creation time of the first fraction was %d", s.oct, ct)
	}
	if e2.FM().Mature() != mature {
		return nil, fmt.Errorf("store maturity is %v, wanted %v", e2.FM().Mature(), mature)
	}
	if oct == 0 {
		// the state between FracManager.Load and the end of the maintenance loop's first pass: OldestCT is
		// still unknown (Load does not compute it). The loop of this store sleeps for 24 h, so it stays so.
		e2.FM().OldestCT.Store(0)
	}
	realStores[key] = s
	return s, nil
}

func closeRealStores() {
	for _, s := range realStores {
		dir := s.env.O.Dir
		s.env.Close()
		os.RemoveAll(dir)
	}
}

// realClient passes everything to the store's own in-memory client and only keeps the call log
type realClient struct {
	pb.StoreApiClient
	host string
	r    *run
	s    *realStore
}

func (f *realClient) Search(ctx context.Context, in *pb.SearchRequest, o ...grpc.CallOption) (*pb.SearchResponse, error) {
	f.r.mu.Lock()
	f.r.searched[f.host]++
	f.r.mu.Unlock()
	return f.StoreApiClient.Search(ctx, in, o...)
}

func (f *realClient) Fetch(ctx context.Context, in *pb.FetchRequest, o ...grpc.CallOption) (pb.StoreApi_FetchClient, error) {
	f.r.mu.Lock()
	for _, sid := range in.Ids {
		if id, err := seq.FromString(sid); err == nil {
			k := ID{f.s.abs(uint64(id.MID)), uint64(id.RID)}
			f.r.fetched[k] = append(f.r.fetched[k], f.host)
		}
	}
	f.r.mu.Unlock()
	return f.StoreApiClient.Fetch(ctx, in, o...)
}

func runRealStore(c *Case) (Outcome, error) {
	s, err := openRealStore(c.Store.Mode, c.Store.Mature, c.Store.Oct, c.Store.Hist)
	if err != nil {
		return Outcome{}, err
	}
	if c.Store.Oct != storeOCT && c.Store.Oct != 0 {
		return Outcome{}, fmt.Errorf("case wants OldestCT %d, the driver can only stand for %d or 0 (unknown)", c.Store.Oct, storeOCT)
	}
	r := newRun(c)
	r.query = "k:x"
	real := c.Hot[0][0]
	clients := map[string]pb.StoreApiClient{}
	for h := range c.SB {
		if h == real {
			clients[h] = &realClient{StoreApiClient: s.env.Client, host: h, r: r, s: s}
		} else {
			clients[h] = &fakeClient{host: h, r: r}
		}
	}
	absDoc := func(d string) string {
		if strings.HasPrefix(d, `{"b":"`) && strings.HasSuffix(d, `"}`) {
			return d[6 : len(d)-2]
		}
		return d
	}
	return runSearch(c, r, clients, s.real(c.Store.From), s.real(1000), s.abs, absDoc), nil
}

// ---------------------------------------------------------------- membership in Allowed

func docAllowed(got string, allowed []Body) bool {
	for _, b := range allowed {
		if string(b) == got {
			return true
		}
	}
	return false
}

func idsEqual(a []IDH, b []IDH, withHost bool) bool {
	if len(a) != len(b) {
		return false
	}
	for i := range a {
		if a[i].MID != b[i].MID || a[i].RID != b[i].RID || (withHost && a[i].Host != b[i].Host) {
			return false
		}
	}
	return true
}

// judge returns "" if the outcome is allowed, else a short class of the disagreement
func judge(c *Case, o Outcome, api bool) string {
	cls, _ := judgeAlt(c, o, api)
	return cls
}

// judgeAlt also tells which member of Allowed the outcome is
func judgeAlt(c *Case, o Outcome, api bool) (string, int) {
	if len(o.Problems) > 0 {
		return "fake-protocol", -1
	}
	kindSeen, idsSeen := false, false
	docClass := ""
	for i := range c.Allowed {
		a := &c.Allowed[i]
		if api {
			if o.API == nil || *o.API != a.API {
				continue
			}
			if a.API.Grpc != "OK" || a.API.Code == "TMF" {
				return "", i
			}
		} else {
			if a.Kind != o.Kind || a.Cls != o.Cls {
				continue
			}
			if a.Kind == "error" {
				return "", i
			}
		}
		kindSeen = true
		if !idsEqual(a.IDs, o.IDs, true) {
			continue
		}
		if !api && a.Nerr != o.Nerr {
			continue
		}
		idsSeen = true
		if len(o.Docs) != len(a.Docs) {
			docClass = "doc-count"
			continue
		}
		cls := ""
		for j := range a.Docs {
			if !docAllowed(o.Docs[j], a.Docs[j]) {
				if o.Docs[j] == "" {
					if cls == "" {
						cls = "doc-lost"
					}
				} else {
					cls = "doc-wrong"
				}
			}
		}
		if cls == "" {
			return "", i
		}
		docClass = cls
	}
	if !kindSeen {
		if o.Cls == "panic" {
			return "panic", -1
		}
		return "outcome-kind", -1
	}
	if !idsSeen {
		return "ids", -1
	}
	return docClass, -1
}

func faultKinds(c *Case) string {
	set := map[string]bool{}
	for _, k := range c.FBK {
		if k != "ok" {
			set[k] = true
		}
	}
	ks := make([]string, 0, len(set))
	for k := range set {
		ks = append(ks, k)
	}
	sort.Strings(ks)
	if len(ks) == 0 {
		return "none"
	}
	return strings.Join(ks, "+")
}

func hasOpenErr(c *Case) bool {
	for _, k := range c.FBK {
		if k == "openerr" {
			return true
		}
	}
	return false
}

func nontrivial(c *Case) bool {
	// more than "everything up": some host misbehaves in search or fetch
	if c.Big != nil && c.Big.Brk > 0 {
		return true
	}
	for _, b := range c.SB {
		if b != "ok" {
			return true
		}
	}
	for _, k := range c.FBK {
		if k != "ok" {
			return true
		}
	}
	return false
}

// ---------------------------------------------------------------- path "api": the proxy's gRPC API over sockets

var current atomic.Pointer[run]
var currentBig atomic.Pointer[bigRun] // a generated big page is being exported (family "big")

func (r *bigRun) gen(host string) *Gen {
	for i := range r.c.Big.Gens {
		if r.c.Big.Gens[i].Host == host {
			return &r.c.Big.Gens[i]
		}
	}
	r.problem("unknown host %s asked", host)
	return &Gen{Host: host}
}

type fakeServer struct {
	pb.UnimplementedStoreApiServer
	host string
}

// warmState: a freshly started proxy dials its stores in the background with a connect timeout of 100 ms
// (proxyapi appendClients); on a loaded machine the first requests would find connections that are not up yet
// and see "store unavailable" where the scenario says the store answers.  Before its first case a proxy is
// therefore sent warm-up searches until every host of its configuration has been reached once: the hot hosts
// refuse (so that every replica is tried) until all of them were seen, then declare the range too old, which
// sends the search to the cold hosts.
type warmState struct {
	mu   sync.Mutex
	hot  map[string]bool
	cold map[string]bool
	seen map[string]bool
}

const warmQuery = "service:warmup"

var warming atomic.Pointer[warmState]

func (w *warmState) allSeen(set map[string]bool) bool {
	for h := range set {
		if !w.seen[h] {
			return false
		}
	}
	return true
}

func (w *warmState) done() bool {
	w.mu.Lock()
	defer w.mu.Unlock()
	return w.allSeen(w.hot) && w.allSeen(w.cold)
}

func (w *warmState) answer(host string) (*pb.SearchResponse, error) {
	w.mu.Lock()
	defer w.mu.Unlock()
	w.seen[host] = true
	if w.hot[host] && w.allSeen(w.hot) && len(w.cold) > 0 {
		return &pb.SearchResponse{Code: pb.SearchErrorCode_INGESTOR_QUERY_WANTS_OLD_DATA}, nil
	}
	return nil, status.Error(codes.Unavailable, "warming up")
}

func (s *fakeServer) Search(_ context.Context, in *pb.SearchRequest) (*pb.SearchResponse, error) {
	if in.Query == warmQuery {
		if w := warming.Load(); w != nil {
			return w.answer(s.host)
		}
		return nil, status.Error(codes.Canceled, "stale request")
	}
	if rb := currentBig.Load(); rb != nil {
		return rb.doSearch(rb.gen(s.host), in)
	}
	r := current.Load()
	if r == nil {
		return nil, status.Error(codes.Unavailable, "no case")
	}
	return r.doSearch(s.host, in)
}

func (s *fakeServer) Fetch(in *pb.FetchRequest, out pb.StoreApi_FetchServer) error {
	if rb := currentBig.Load(); rb != nil {
		st, err := rb.doFetch(rb.gen(s.host), in)
		if err != nil {
			return err
		}
		for {
			d, err := st.Recv()
			if errors.Is(err, io.EOF) {
				return nil
			}
			if err != nil {
				return err
			}
			if err := out.Send(d); err != nil {
				return err
			}
		}
	}
	r := current.Load()
	if r == nil {
		return status.Error(codes.Unavailable, "no case")
	}
	e, err := r.doFetch(s.host, in)
	if err != nil {
		return err
	}
	for _, b := range e.Blocks {
		if err := out.Send(&pb.BinaryData{Data: packBlock(b)}); err != nil {
			return err
		}
	}
	if e.Brk {
		return status.Error(codes.Unavailable, "stream broken")
	}
	return nil
}

type apiEnv struct {
	addr    map[string]string // logical host -> address
	proxies map[string]seqproxyapi.SeqProxyApiClient
}

func newAPIEnv() *apiEnv {
	return &apiEnv{addr: map[string]string{}, proxies: map[string]seqproxyapi.SeqProxyApiClient{}}
}

func (e *apiEnv) hostAddr(h string) (string, error) {
	if a, ok := e.addr[h]; ok {
		return a, nil
	}
	lis, err := net.Listen("tcp", "127.0.0.1:0")
	if err != nil {
		return "", err
	}
	s := grpc.NewServer(grpc.MaxRecvMsgSize(256*consts.MB), grpc.MaxSendMsgSize(256*consts.MB))
	pb.RegisterStoreApiServer(s, &fakeServer{host: h})
	go func() { _ = s.Serve(lis) }()
	e.addr[h] = lis.Addr().String()
	return e.addr[h], nil
}

func topoKey(c *Case) string {
	b, _ := json.Marshal([]any{c.Hot, c.Cold, c.HotRead, c.Shuffle})
	return string(b)
}

func (e *apiEnv) proxy(c *Case) (seqproxyapi.SeqProxyApiClient, error) {
	key := topoKey(c)
	if p, ok := e.proxies[key]; ok {
		return p, nil
	}
	hosts := []string{}
	for _, t := range [][][]string{c.Hot, c.Cold} {
		for _, sh := range t {
			hosts = append(hosts, sh...)
		}
	}
	if c.HotRead {
		hosts = append(hosts, decoyHost)
	}
	for _, h := range hosts {
		if _, err := e.hostAddr(h); err != nil {
			return nil, err
		}
	}
	httpLis, err := net.Listen("tcp", "127.0.0.1:0")
	if err != nil {
		return nil, err
	}
	grpcLis, err := net.Listen("tcp", "127.0.0.1:0")
	if err != nil {
		return nil, err
	}
	mp, err := mappingprovider.New("", mappingprovider.WithMapping(seq.Mapping{"service": seq.NewSingleType(seq.TokenizerTypeKeyword, "", 0)}))
	if err != nil {
		return nil, err
	}
	ing, err := proxyapi.NewIngestor(proxyapi.IngestorConfig{
		API: proxyapi.APIConfig{SearchTimeout: time.Minute, ExportTimeout: time.Minute, QueryRateLimit: 1e12, EsVersion: "test",
			GatewayAddr: grpcLis.Addr().String()},
		Bulk: bulk.IngestorConfig{HotStores: &stores.Stores{}, WriteStores: &stores.Stores{},
			BulkCircuit:      circuitbreaker.Config{RequestVolumeThreshold: 101, Timeout: time.Hour},
			MaxInflightBulks: 1, MappingProvider: mp, MaxTokenSize: consts.DefaultMaxTokenSize, MaxDocumentSize: consts.MB},
		Search: searchConfig(c, func(h string) string { return e.addr[h] }),
	}, nil)
	if err != nil {
		return nil, err
	}
	ing.Start(httpLis, grpcLis)
	conn, err := grpc.NewClient(grpcLis.Addr().String(), grpc.WithTransportCredentials(insecure.NewCredentials()))
	if err != nil {
		return nil, err
	}
	p := seqproxyapi.NewSeqProxyApiClient(conn)
	w := &warmState{hot: map[string]bool{}, cold: map[string]bool{}, seen: map[string]bool{}}
	for _, sh := range c.Hot {
		for _, h := range sh {
			w.hot[h] = true
		}
	}
	for _, sh := range c.Cold {
		for _, h := range sh {
			w.cold[h] = true
		}
	}
	warming.Store(w)
	defer warming.Store(nil)
	for deadline := time.Now().Add(60 * time.Second); !w.done(); time.Sleep(10 * time.Millisecond) {
		if time.Now().After(deadline) {
			return nil, fmt.Errorf("the proxy does not reach the scripted stores of %s (connections not up after 60 s)", key)
		}
		ctx, cancel := context.WithTimeout(context.Background(), 10*time.Second)
		_, _ = p.Search(ctx, &seqproxyapi.SearchRequest{Size: 1, Query: &seqproxyapi.SearchQuery{Query: warmQuery,
			From: timestamppb.New(time.UnixMilli(1)), To: timestamppb.New(time.UnixMilli(1000))}})
		cancel()
	}
	e.proxies[key] = p
	return p, nil
}

func (e *apiEnv) runAPI(c *Case, n int, complex bool) (Outcome, error) {
	p, err := e.proxy(c)
	if err != nil {
		return Outcome{}, err
	}
	r := newRun(c)
	r.query = fmt.Sprintf("service:c%d", n)
	current.Store(r)
	defer current.Store(nil)
	ord := seqproxyapi.Order_ORDER_DESC
	if c.Req.Order == "asc" {
		ord = seqproxyapi.Order_ORDER_ASC
	}
	q := &seqproxyapi.SearchQuery{Query: r.query, From: timestamppb.New(time.UnixMilli(1)), To: timestamppb.New(time.UnixMilli(1000))}
	ctx, cancel := context.WithTimeout(context.Background(), 30*time.Second)
	defer cancel()
	var docs []*seqproxyapi.Document
	var perr *seqproxyapi.Error
	var partial bool
	var cerr error
	if complex {
		var resp *seqproxyapi.ComplexSearchResponse
		resp, cerr = p.ComplexSearch(ctx, &seqproxyapi.ComplexSearchRequest{Query: q, Size: int64(c.Req.Size), Offset: int64(c.Req.Offset), Order: ord})
		if cerr == nil {
			docs, perr, partial = resp.Docs, resp.Error, resp.PartialResponse
		}
	} else {
		var resp *seqproxyapi.SearchResponse
		resp, cerr = p.Search(ctx, &seqproxyapi.SearchRequest{Query: q, Size: int64(c.Req.Size), Offset: int64(c.Req.Offset), Order: ord})
		if cerr == nil {
			docs, perr, partial = resp.Docs, resp.Error, resp.PartialResponse
		}
	}
	o := Outcome{API: &API{}}
	if cerr != nil {
		st, _ := status.FromError(cerr)
		o.Kind = "error"
		o.API.Grpc = st.Code().String()
		o.Err = st.Message()
		if strings.Contains(o.Err, "recovered after panic") {
			o.Cls = "panic"
		}
		o.Problems = r.problems
		return o, nil
	}
	o.API.Grpc = "OK"
	o.API.Partial = partial
	switch perr.GetCode() {
	case seqproxyapi.ErrorCode_ERROR_CODE_NO:
		o.API.Code = "NO"
		o.Kind = "complete"
	case seqproxyapi.ErrorCode_ERROR_CODE_PARTIAL_RESPONSE:
		o.API.Code = "PARTIAL"
		o.Kind = "partial"
	case seqproxyapi.ErrorCode_ERROR_CODE_TOO_MANY_FRACTIONS_HIT:
		o.API.Code = "TMF"
		o.Kind = "error"
		o.Cls = "tmf"
		if len(docs) > 0 {
			r.problem("documents in a too-many-fractions response")
		}
	default:
		o.API.Code = perr.GetCode().String()
	}
	for _, d := range docs {
		id, err := seq.FromString(d.Id)
		if err != nil {
			r.problem("unparsable id %q in response", d.Id)
			continue
		}
		k := ID{uint64(id.MID), uint64(id.RID)}
		o.IDs = append(o.IDs, IDH{MID: k[0], RID: k[1], Host: r.hostOf(k)})
		o.Docs = append(o.Docs, string(d.Data))
	}
	o.Problems = r.problems
	return o, nil
}

// runBigExport sends a generated big page through the proxy's gRPC Export (the API for pages of this size: the same
// Ingestor.Search, the documents streamed one by one); the stores are the same generators behind real gRPC servers.
func (e *apiEnv) runBigExport(c *Case, n int) (cls string, got bigGot, err error) {
	p, err := e.proxy(c)
	if err != nil {
		return "", got, err
	}
	b := c.Big
	r := newBigRun(c, fmt.Sprintf("service:c%d", n))
	currentBig.Store(r)
	defer currentBig.Store(nil)
	ctx, cancel := context.WithTimeout(context.Background(), 50*time.Second)
	defer cancel()
	stream, err := p.Export(ctx, &seqproxyapi.ExportRequest{
		Query: &seqproxyapi.SearchQuery{Query: r.query, From: timestamppb.New(time.UnixMilli(1)), To: timestamppb.New(time.UnixMilli(b.N + 1000))},
		Size:  int64(c.Req.Size), Offset: int64(c.Req.Offset)})
	if err != nil {
		return "", got, err
	}
	got.Kind = "complete"
	cls = b.judge(r, nil, func() (uint64, uint64, []byte, error) {
		resp, e := stream.Recv()
		if e != nil {
			if !errors.Is(e, io.EOF) {
				got.Err = e.Error()
			}
			return 0, 0, nil, e
		}
		id, e := seq.FromString(resp.GetDoc().GetId())
		if e != nil {
			return 0, 0, nil, fmt.Errorf("unparsable id %q in the export stream", resp.GetDoc().GetId())
		}
		return uint64(id.MID), uint64(id.RID), resp.GetDoc().GetData(), nil
	}, &got)
	got.IDs = got.Docs
	r.mu.Lock()
	got.Problems = append([]string(nil), r.problems...)
	r.mu.Unlock()
	if cls == "" && len(got.Problems) > 0 {
		cls = "fake-protocol"
	}
	if cls == "doc-count" && got.Err != "" {
		got.Kind = "error"
		cls = "outcome-kind"
	}
	return cls, got, nil
}

// ---------------------------------------------------------------- main

func emit(mu *sync.Mutex, v any) {
	b, _ := json.Marshal(v)
	mu.Lock()
	os.Stdout.Write(append(b, '\n'))
	mu.Unlock()
}

func report(mu *sync.Mutex, n int, path string, c *Case, o Outcome, cls string) {
	hint := 0
	if c.Hint != "" {
		hint = 1
	}
	emit(mu, map[string]any{"n": n, "path": path, "what": cls,
		"sig": fmt.Sprintf("%s:hint=%d:fb=%s", cls, hint, faultKinds(c)), "got": o, "exp": c.Allowed})
}

func main() {
	progress := flag.Bool("progress", false, "")
	workers := flag.Int("workers", 8, "")
	paths := flag.String("paths", "ingestor", "ingestor,api")
	apiEvery := flag.Int("api-every", 1, "run the api path on every k-th case")
	statsPath := flag.String("stats", "", "append one JSON line of run statistics to this file")
	conc := flag.Bool("conc", false, "replay the cases of one configuration as concurrent searches of one Ingestor")
	concReps := flag.Int("conc-reps", 3, "")
	concMin := flag.Int("conc-min", 20000, "at least this many searches per configuration")
	bigAPIEvery := flag.Int("big-api-every", 0, "family big: send every k-th row (descending order) through the proxy's gRPC Export")
	flag.Parse()
	logger.SetLevel(zapcore.FatalLevel)
	doIng := strings.Contains(*paths, "ingestor") && !*conc
	doAPI := strings.Contains(*paths, "api") && !*conc
	var mu sync.Mutex
	sc := bufio.NewScanner(os.Stdin)
	sc.Buffer(make([]byte, 1<<20), 1<<28)
	var lines []string
	for sc.Scan() {
		if strings.HasPrefix(sc.Text(), "{") {
			lines = append(lines, sc.Text())
		}
	}
	cases := make([]*Case, len(lines))
	for i, ln := range lines {
		c := &Case{}
		if err := json.Unmarshal([]byte(ln), c); err != nil {
			emit(&mu, map[string]any{"infra": fmt.Sprintf("bad case %d: %v", i, err)})
			os.Exit(3)
		}
		cases[i] = c
	}
	lines = nil
	var evals, nontriv, altsTotal, altsSeen, bigRows, bigSmall, bigDocs int64
	kinds := map[string]int{}
	bigSem := make(chan struct{}, 8) // a generated page of 100000 ids costs some 50 MB while it is replayed
	var bigExports int64
	reportBig := func(n int, path string, c *Case, cls string, got bigGot) {
		hint := 0
		if c.Hint != "" {
			hint = 1
		}
		brk := 0
		if c.Big.Brk > 0 {
			brk = 1
		}
		emit(&mu, map[string]any{"n": n, "path": path, "what": cls,
			"sig": fmt.Sprintf("%s:page=%s:stores=%d:hint=%d:brk=%d", cls, widthClass(c.Big.Len), len(c.Big.Gens), hint, brk),
			"got": got, "exp": c.Big})
	}
	one := func(n int, c *Case) {
		if c.realStore() {
			return // replayed serially below
		}
		if c.Big != nil {
			if !c.bigRow() {
				if err := bigSelfCheck(c); err != nil {
					emit(&mu, map[string]any{"infra": fmt.Sprintf("case %d: the driver's evaluator of BigRule disagrees with the tables of the specification: %v", n, err)})
					os.Exit(3)
				}
				atomic.AddInt64(&bigSmall, 1)
			} else {
				atomic.AddInt64(&bigRows, 1)
			}
			bigSem <- struct{}{}
			cls, got := runBig(c)
			<-bigSem
			atomic.AddInt64(&evals, 1)
			atomic.AddInt64(&bigDocs, int64(got.Docs))
			if cls == "infra" {
				emit(&mu, map[string]any{"infra": fmt.Sprintf("case %d: %s", n, got.Detail)})
				os.Exit(3)
			}
			if cls != "" {
				reportBig(n, "big", c, cls, got)
			}
			if c.bigRow() {
				return
			}
		}
		// scenarios with more than one allowed outcome are races between shard answers: replay them three
		// times, once undisturbed and once with either half of the shards answering late
		variants := 1
		if len(c.Allowed) > 1 {
			variants = 3
			atomic.AddInt64(&altsTotal, int64(len(c.Allowed)))
		}
		seen := map[int]bool{}
		for v := 0; v < variants; v++ {
			o := runIngestor(c, v)
			atomic.AddInt64(&evals, 1)
			cls, alt := judgeAlt(c, o, false)
			if cls != "" {
				report(&mu, n, "ingestor", c, o, cls)
				break
			}
			seen[alt] = true
		}
		if variants > 1 {
			atomic.AddInt64(&altsSeen, int64(len(seen)))
		}
	}
	for _, c := range cases {
		if nontrivial(c) {
			nontriv++
		}
		for _, a := range c.Allowed {
			kinds[a.Kind+a.Cls]++
		}
	}
	if doIng {
		if *progress || *workers <= 1 {
			for n, c := range cases {
				if *progress {
					emit(&mu, map[string]any{"begin": n, "form": "ingestor"})
				}
				one(n, c)
				if *progress {
					emit(&mu, map[string]any{"end": n})
				}
			}
		} else {
			var wg sync.WaitGroup
			ch := make(chan int, 1024)
			for w := 0; w < *workers; w++ {
				wg.Add(1)
				go func() {
					defer wg.Done()
					for n := range ch {
						one(n, cases[n])
					}
				}()
			}
			for n := range cases {
				ch <- n
			}
			close(ch)
			wg.Wait()
		}
	}
	var cst concStats
	if *conc {
		groups := map[string][]int{}
		var keys []string
		for n, c := range cases {
			if c.realStore() || c.bigRow() {
				continue
			}
			k := topoKey(c)
			if _, ok := groups[k]; !ok {
				keys = append(keys, k)
			}
			groups[k] = append(groups[k], n)
		}
		for _, k := range keys {
			ns := groups[k]
			if *progress {
				emit(&mu, map[string]any{"begin": ns[0], "form": "conc"})
			}
			runConc(cases, ns, *workers, *concReps, *concMin, &cst,
				func(n int, c *Case, o Outcome, cls string) { report(&mu, n, "conc", c, o, cls) },
				func(n int, got, exp any) {
					emit(&mu, map[string]any{"n": n, "path": "conc", "what": "replica-set",
						"sig": fmt.Sprintf("replica-set:shuffle=%v", cases[n].Shuffle), "got": got, "exp": exp})
				})
			if *progress {
				emit(&mu, map[string]any{"end": ns[0]})
			}
		}
		evals += cst.searches
	}
	storeRuns := 0
	if doIng {
		for n, c := range cases {
			if !c.realStore() {
				continue
			}
			if *progress {
				emit(&mu, map[string]any{"begin": n, "form": "store"})
			}
			o, err := runRealStore(c)
			if err != nil {
				emit(&mu, map[string]any{"infra": "real store: " + err.Error()})
				os.Exit(3)
			}
			storeRuns++
			evals++
			if cls := judge(c, o, false); cls != "" {
				report(&mu, n, "store", c, o, cls)
			}
			if *progress {
				emit(&mu, map[string]any{"end": n})
			}
		}
		closeRealStores()
	}
	apiRuns := 0
	if doAPI {
		env := newAPIEnv()
		nrow := 0
		for n, c := range cases {
			if c.bigRow() {
				// rows of the big-page table: the k-th, 2k-th, ... of those the Export API can ask for (it has no order field)
				if *bigAPIEvery <= 0 || c.Req.Order != "desc" {
					continue
				}
				if nrow++; nrow%*bigAPIEvery != 0 {
					continue
				}
				if *progress {
					emit(&mu, map[string]any{"begin": n, "form": "big-export"})
				}
				cls, got, err := env.runBigExport(c, n)
				if err != nil {
					emit(&mu, map[string]any{"infra": "api path (export): " + err.Error()})
					os.Exit(3)
				}
				if cls == "infra" {
					emit(&mu, map[string]any{"infra": fmt.Sprintf("case %d: %s", n, got.Detail)})
					os.Exit(3)
				}
				bigExports++
				evals++
				bigDocs += int64(got.Docs)
				if cls != "" {
					reportBig(n, "big-export", c, cls, got)
				}
				if *progress {
					emit(&mu, map[string]any{"end": n})
				}
				continue
			}
			if *apiEvery > 1 && n%*apiEvery != 0 {
				continue
			}
			if *progress {
				emit(&mu, map[string]any{"begin": n, "form": "api"})
			}
			if hasOpenErr(c) || c.realStore() || c.bigRow() {
				continue // a refused Fetch is not observable as an open error over a real gRPC stream
			}
			o, err := env.runAPI(c, n, apiRuns%2 == 1)
			if err != nil {
				emit(&mu, map[string]any{"infra": "api path: " + err.Error()})
				os.Exit(3)
			}
			apiRuns++
			evals++
			if cls := judge(c, o, true); cls != "" {
				report(&mu, n, "api", c, o, cls)
			}
			if *progress {
				emit(&mu, map[string]any{"end": n})
			}
		}
	}
	if *statsPath != "" {
		if fh, err := os.OpenFile(*statsPath, os.O_APPEND|os.O_CREATE|os.O_WRONLY, 0o644); err == nil {
			b, _ := json.Marshal(map[string]any{"api": apiRuns, "store": storeRuns, "racing_alts": altsTotal, "racing_alts_seen": altsSeen,
				"conc_groups": cst.groups, "conc_searches": cst.searches, "big_rows": bigRows, "big_small": bigSmall, "big_docs": bigDocs, "big_exports": bigExports})
			fh.Write(append(b, '\n'))
			fh.Close()
		}
	}
	emit(&mu, map[string]any{"summary": true, "cases": len(cases), "evals": evals, "nontrivial": nontriv, "corpora": 0,
		"api": apiRuns, "store": storeRuns, "kinds": kinds, "racing_alts": altsTotal, "racing_alts_seen": altsSeen,
		"conc_groups": cst.groups, "conc_searches": cst.searches, "big_rows": bigRows, "big_small": bigSmall, "big_docs": bigDocs, "big_exports": bigExports})
}
