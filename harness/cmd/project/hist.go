package main

// Replay of ProjectPool.tla: a history of fetch requests on one store.  Every request of a case is one
// real storeapi.GrpcV1.Fetch call (the handler a gRPC server would call) on its own goroutine with its
// own server stream; the stream's Send is a gate: the handler parks there until the driver - which walks
// the schedule of the case - lets it go on with the verdict of the step (delivered / the transport fails /
// the transport fails and the client's context is cancelled).  Exactly one handler runs at a time, so the
// real code goes through the interleaving TLC chose.  The process runs on one processor: sync.Pool keeps
// its objects per processor, and which pooled object a request gets must not depend on where the
// scheduler puts a goroutine.  What every client received is compared with ProjectCases!Returned for the
// request's OWN filter (field `exp` of the case).

import (
	"bufio"
	"context"
	"encoding/json"
	"errors"
	"fmt"
	"os"
	"runtime"
	"strings"
	"time"

	"google.golang.org/grpc"

	"github.com/ozontech/seq-db/disk"
	pb "github.com/ozontech/seq-db/pkg/storeapi"
	"github.com/ozontech/seq-db/proxy/search"

	"verifharness/env"
)

type HistCase struct {
	Docs [][]string  `json:"docs"`
	Cls  [][2]string `json:"cls"`
	Flt  []struct {
		Fields []string `json:"fields"`
		Allow  bool     `json:"allow"`
	} `json:"flt"`
	Hist []struct {
		R  int    `json:"r"`
		Op string `json:"op"`
	} `json:"hist"`
	Exp [][][]string `json:"exp"`
}

// variants of the stored corpus (other values of the palette, active / sealed fraction)
const histVariants = 3

type sentDoc struct {
	payload []byte
	ext     [2]uint64
}

// gateStream is the server side of one Fetch stream.
type gateStream struct {
	grpc.ServerStream
	ctx     context.Context
	cancel  context.CancelFunc
	at      chan sentDoc // the handler is inside Send with this document
	verdict chan string
	done    chan error // the handler returned
	docs    []sentDoc  // delivered documents
}

func (s *gateStream) Context() context.Context { return s.ctx }

func (s *gateStream) Send(m *pb.BinaryData) error {
	blk := disk.DocBlock(m.Data)
	d := sentDoc{payload: append([]byte(nil), blk.Payload()...), ext: [2]uint64{blk.GetExt1(), blk.GetExt2()}}
	s.at <- d
	switch <-s.verdict {
	case "ok":
		s.docs = append(s.docs, d)
		return nil
	case "cancel": // the client went away
		s.cancel()
		return errors.New("transport is closing")
	default:
		return errors.New("transport: connection error")
	}
}

type histReq struct {
	st     *gateStream
	state  string // "" | "send" | "done"
	broken bool   // left the schedule: the remaining steps are skipped
}

func runHist(e *env.Env, ing *search.Ingestor, sc *bufio.Scanner, progress bool) {
	runtime.GOMAXPROCS(1)
	g := e.Store.GrpcV1()
	pp := env.ProxyParams{Params: env.Params{From: 0, To: 1 << 40, Order: "desc"}, Size: 10, Fetch: true}
	stored := map[string][]*corpus{}
	nstored := 0
	n, evals, nontriv, lastAbn := 0, 0, 0, -1
	timer := time.NewTimer(time.Hour)
	// wait lets the handler of a request run until it parks in Send or returns
	wait := func(q *histReq) (sentDoc, error, bool) {
		if !timer.Stop() {
			select {
			case <-timer.C:
			default:
			}
		}
		timer.Reset(2 * time.Minute)
		select {
		case d := <-q.st.at:
			q.state = "send"
			return d, nil, true
		case err := <-q.st.done:
			q.state = "done"
			return sentDoc{}, err, false
		case <-timer.C:
			emit(map[string]any{"infra": fmt.Sprintf("case %d: a fetch handler neither reached Send nor returned within 2 minutes", n)})
			os.Exit(3)
		}
		return sentDoc{}, nil, false
	}
	for sc.Scan() {
		line := sc.Text()
		if !strings.HasPrefix(line, "{") {
			continue
		}
		var c HistCase
		if err := json.Unmarshal([]byte(line), &c); err != nil || len(c.Hist) == 0 || len(c.Flt) != len(c.Exp) {
			emit(map[string]any{"infra": fmt.Sprintf("bad history case: %v", err)})
			os.Exit(3)
		}
		if progress {
			emit(map[string]any{"begin": n})
		}
		kb, _ := json.Marshal(c.Docs)
		vs, ok := stored[string(kb)]
		if !ok {
			for v := 0; v < histVariants; v++ {
				vs = append(vs, storeCorpus(e, ing, pp, nstored, c.Cls, c.Docs))
				nstored++
			}
			stored[string(kb)] = vs
		}
		cp := vs[(n+*seed)%histVariants]
		report := func(r int, what string, more map[string]any) {
			m := map[string]any{"n": n, "path": "history", "what": what, "req": r, "hist": c.Hist, "flt": c.Flt, "last_abnormal_end_in_case": lastAbn}
			for k, v := range more {
				m[k] = v
			}
			emit(m)
		}
		reqs := make([]*histReq, len(c.Flt))
		launch := func(r int, dead bool) *histReq {
			f := c.Flt[r]
			fr := &pb.FetchRequest{}
			for _, id := range cp.ids {
				fr.Ids = append(fr.Ids, id.String())
			}
			if len(f.Fields) > 0 {
				ff := &pb.FetchRequest_FieldsFilter{AllowList: f.Allow}
				for _, name := range f.Fields {
					ff.Fields = append(ff.Fields, cp.concr[name])
				}
				fr.FieldsFilter = ff
			} else {
				// "no filter" is a request without the message or with an empty list in it
				switch (n + r + *seed) % 3 {
				case 1:
					fr.FieldsFilter = &pb.FetchRequest_FieldsFilter{}
				case 2:
					fr.FieldsFilter = &pb.FetchRequest_FieldsFilter{Fields: []string{}, AllowList: true}
				}
			}
			ctx, cancel := context.WithCancel(context.Background())
			if dead {
				cancel()
			}
			st := &gateStream{ctx: ctx, cancel: cancel, at: make(chan sentDoc), verdict: make(chan string), done: make(chan error, 1)}
			q := &histReq{st: st}
			reqs[r] = q
			evals++
			go func() { st.done <- g.Fetch(fr, st) }()
			return q
		}
		overlap, abnormal := false, false
		for si, step := range c.Hist {
			r := step.R - 1
			if r < 0 || r >= len(reqs) {
				emit(map[string]any{"infra": "bad request number in a history"})
				os.Exit(3)
			}
			q := reqs[r]
			if q != nil && q.broken {
				continue
			}
			switch step.Op {
			case "start", "dead":
				for _, o := range reqs {
					if o != nil && o.state == "send" {
						overlap = true
					}
				}
				q = launch(r, step.Op == "dead")
				_, err, parked := wait(q)
				if step.Op == "dead" {
					abnormal = true
					if parked {
						// the specification lets a request whose client is gone deliver nothing
						report(r+1, "a fetch whose context was cancelled before it started streams documents", map[string]any{"step": si})
						q.st.verdict <- "cancel"
						wait(q)
						q.broken = true
					}
				} else if !parked {
					report(r+1, fmt.Sprintf("fetch ended before its first document: %v", err), map[string]any{"step": si})
					q.broken = true
				}
			case "ok", "cancel", "senderr":
				if q == nil || q.state != "send" {
					emit(map[string]any{"infra": fmt.Sprintf("case %d step %d: request %d is not waiting in Send", n, si, r+1)})
					os.Exit(3)
				}
				q.st.verdict <- step.Op
				_, err, parked := wait(q)
				last := step.Op != "ok" || len(q.st.docs) == len(cp.ids)
				if step.Op != "ok" {
					abnormal = true
				}
				if last && parked {
					report(r+1, "fetch goes on streaming after its last step ("+step.Op+")", map[string]any{"step": si})
					q.st.verdict <- "cancel"
					wait(q)
					q.broken = true
				} else if !last && !parked {
					report(r+1, fmt.Sprintf("fetch ended after %d of %d documents: %v", len(q.st.docs), len(cp.ids), err), map[string]any{"step": si})
					q.broken = true
				} else if step.Op == "ok" && last && err != nil {
					report(r+1, "fetch delivered every document and returned an error: "+err.Error(), map[string]any{"step": si})
				}
			default:
				emit(map[string]any{"infra": "unknown step " + step.Op})
				os.Exit(3)
			}
		}
		// what every client got: the projection of the stored documents by ITS filter, in the order asked for
		bad := false
		for r, q := range reqs {
			if q == nil || q.state != "done" {
				emit(map[string]any{"infra": fmt.Sprintf("case %d: the history leaves request %d unfinished", n, r+1)})
				os.Exit(3)
			}
			if q.broken {
				bad = true
				continue
			}
			if len(q.st.docs) != len(c.Exp[r]) {
				report(r+1, fmt.Sprintf("client got %d documents, the history delivers %d", len(q.st.docs), len(c.Exp[r])), nil)
				bad = true
				continue
			}
			nofilter := len(c.Flt[r].Fields) == 0
			for i, d := range q.st.docs {
				id := cp.ids[i]
				if d.ext != [2]uint64{uint64(id.MID), uint64(id.RID)} {
					report(r+1, "document of another id", map[string]any{"doc_index": i, "got": fmt.Sprint(d.ext), "exp": id.String()})
					bad = true
					break
				}
				if nofilter {
					if string(d.payload) != cp.bodies[id] {
						report(r+1, "document changed without a filter", map[string]any{"doc_index": i, "doc": string(d.payload), "orig": cp.bodies[id]})
						bad = true
						break
					}
					continue
				}
				if what, wantNames := diffDoc(cp, id, c.Exp[r][i], d.payload); what != "" {
					report(r+1, what, map[string]any{"doc_index": i, "doc": string(d.payload), "orig": cp.bodies[id], "want_fields": wantNames})
					bad = true
					break
				}
			}
		}
		if overlap {
			nontriv++
		}
		if abnormal {
			lastAbn = n
		}
		if bad {
			// whatever earlier requests left in the store's pools must not be blamed on the next cases too:
			// two collections empty every sync.Pool
			runtime.GC()
			runtime.GC()
		}
		if progress {
			emit(map[string]any{"end": n})
		}
		n++
	}
	emit(map[string]any{"summary": true, "cases": n, "evals": evals, "nontrivial": nontriv, "corpora": nstored})
}
