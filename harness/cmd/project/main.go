// project replays ProjectCases.tla: documents are JSON objects whose top-level field set is given
// by the case and whose values come from a palette of JSON shapes; the field filter is applied
// (a) by GrpcV1.Fetch with FieldsFilter and (b) by the proxy Search with a `| fields ...` pipe, and the
// returned documents are compared structurally with the projection the specification requires.
package main

import (
	"bufio"
	"bytes"
	"encoding/json"
	"flag"
	"fmt"
	"math/big"
	"os"
	"reflect"
	"sort"
	"strings"

	pb "github.com/ozontech/seq-db/pkg/storeapi"
	"github.com/ozontech/seq-db/seq"

	"verifharness/env"
)

type Case struct {
	Docs [][]string `json:"docs"`
	Flt  struct {
		Fields []string `json:"fields"`
		Allow  bool     `json:"allow"`
	} `json:"flt"`
	Exp [][]string `json:"exp"`
}

// palette of JSON values (raw text), rotated by (seed + doc index + field index)
var palette = []string{
	`"plain"`, `"esc \" \\ \/ \b\f\n\r\t end"`, `"é日本 😀"`, `"日本語 ünï"`, `""`,
	`0`, `-0`, `12`, `-3.25`, `1e3`, `1E-2`, `123456789012345678901234567890`, `0.1000`,
	`true`, `false`, `null`, `[]`, `{}`, `[1,"a",{"a":2,"b":[null]}]`, `{"a":{"b":{"c":"deep"}},"b":[1,2]}`,
	`"with,comma and | pipe"`, `" lead/trail "`,
}

var seed = flag.Int("seed", 1, "")

func emit(v any) {
	b, _ := json.Marshal(v)
	os.Stdout.Write(append(b, '\n'))
}

func decode(b []byte) (any, error) {
	d := json.NewDecoder(bytes.NewReader(b))
	d.UseNumber()
	var v any
	if err := d.Decode(&v); err != nil {
		return nil, err
	}
	if d.More() {
		return nil, fmt.Errorf("trailing data")
	}
	return v, nil
}

// equal compares decoded JSON structurally; numbers by value (arbitrary precision).
func equal(a, b any) bool {
	switch x := a.(type) {
	case json.Number:
		y, ok := b.(json.Number)
		if !ok {
			return false
		}
		if x.String() == y.String() {
			return true
		}
		r1, ok1 := new(big.Rat).SetString(x.String())
		r2, ok2 := new(big.Rat).SetString(y.String())
		return ok1 && ok2 && r1.Cmp(r2) == 0
	case map[string]any:
		y, ok := b.(map[string]any)
		if !ok || len(x) != len(y) {
			return false
		}
		for k, v := range x {
			w, has := y[k]
			if !has || !equal(v, w) {
				return false
			}
		}
		return true
	case []any:
		y, ok := b.([]any)
		if !ok || len(x) != len(y) {
			return false
		}
		for i := range x {
			if !equal(x[i], y[i]) {
				return false
			}
		}
		return true
	default:
		return reflect.DeepEqual(a, b)
	}
}

func quoteField(f string) string { return f }

func main() {
	progress := flag.Bool("progress", false, "")
	flag.Int("workers", 1, "")
	flag.Parse()
	sc := bufio.NewScanner(os.Stdin)
	sc.Buffer(make([]byte, 1<<20), 1<<26)
	// one store for the whole run: documents are keyed by (case group = field sets) -> reuse by content
	e, err := env.New(env.Opts{SkipFsync: true})
	if err != nil {
		emit(map[string]any{"infra": err.Error()})
		os.Exit(3)
	}
	defer e.Close()
	ing := env.NewProxy([][]*env.Env{{e}})
	stored := map[string][]seq.ID{} // docs key -> ids
	bodies := map[seq.ID]string{}
	next := uint64(1)
	n, evals, nontriv := 0, 0, 0
	for sc.Scan() {
		line := sc.Text()
		if !strings.HasPrefix(line, "{") {
			continue
		}
		var c Case
		if err := json.Unmarshal([]byte(line), &c); err != nil {
			emit(map[string]any{"infra": "bad case " + err.Error()})
			os.Exit(3)
		}
		if *progress {
			emit(map[string]any{"begin": n})
		}
		key, _ := json.Marshal(c.Docs)
		ids, ok := stored[string(key)]
		if !ok {
			var bulk []env.Doc
			for di, fields := range c.Docs {
				fs := append([]string(nil), fields...)
				sort.Strings(fs)
				// field order inside the document varies with the seed
				if (*seed+di)%2 == 1 {
					for l, r := 0, len(fs)-1; l < r; l, r = l+1, r-1 {
						fs[l], fs[r] = fs[r], fs[l]
					}
				}
				var b strings.Builder
				b.WriteString("{")
				for fi, f := range fs {
					if fi > 0 {
						b.WriteString(",")
					}
					val := palette[(*seed*7+int(next)*3+fi*5)%len(palette)]
					key := fmt.Sprintf("%q", f)
					if (*seed+int(next)+fi)%3 == 0 {
						// the same key spelled with a JSON escape (\u0061 is "a")
						key = fmt.Sprintf(`"\u%04x"`, f[0]) + ""
						if len(f) > 1 {
							key = key[:len(key)-1] + f[1:] + `"`
						}
					}
					fmt.Fprintf(&b, "%s:%s", key, val)
				}
				b.WriteString("}")
				d := env.Doc{MID: 1000 + next, RID: next, Tok: map[string][]string{"k": {fmt.Sprintf("c%d", len(stored))}}, Body: b.String()}
				next++
				bulk = append(bulk, d)
				ids = append(ids, d.ID())
				bodies[d.ID()] = d.Body
			}
			if err := e.Bulk(bulk); err != nil {
				emit(map[string]any{"infra": "bulk: " + err.Error()})
				os.Exit(3)
			}
			e.WaitIdle()
			if len(stored)%2 == 1 {
				e.Seal()
			}
			stored[string(key)] = ids
		}
		groupTok := "c" + fmt.Sprint(indexOf(stored, string(key), ids))
		_ = groupTok
		check := func(path string, docs [][]byte) {
			evals++
			if len(docs) != len(ids) {
				emit(map[string]any{"n": n, "path": path, "what": fmt.Sprintf("got %d documents for %d ids", len(docs), len(ids))})
				return
			}
			for i := range ids {
				orig, _ := decode([]byte(bodies[ids[i]]))
				om := orig.(map[string]any)
				want := map[string]any{}
				for _, f := range c.Exp[i] {
					want[f] = om[f]
				}
				got, err := decode(docs[i])
				if err != nil {
					emit(map[string]any{"n": n, "path": path, "what": "result is not valid JSON: " + err.Error(), "doc": string(docs[i]), "orig": bodies[ids[i]]})
					return
				}
				gm, isObj := got.(map[string]any)
				if !isObj {
					emit(map[string]any{"n": n, "path": path, "what": "result is not a JSON object", "doc": string(docs[i]), "orig": bodies[ids[i]]})
					return
				}
				if !equal(gm, want) {
					emit(map[string]any{"n": n, "path": path, "what": "projection differs", "doc": string(docs[i]), "orig": bodies[ids[i]], "want_fields": c.Exp[i]})
					return
				}
			}
		}
		nt := false
		for i := range c.Exp {
			if len(c.Exp[i]) > 0 && len(c.Exp[i]) < len(c.Docs[i]) {
				nt = true
			}
		}
		if nt {
			nontriv++
		}
		// (a) store fetch with a field filter
		docs, _, err := e.Fetch(ids, &pb.FetchRequest_FieldsFilter{Fields: c.Flt.Fields, AllowList: c.Flt.Allow})
		if err != nil {
			emit(map[string]any{"n": n, "path": "store-fetch", "what": "error: " + err.Error()})
		} else {
			check("store-fetch", docs)
		}
		// (b) proxy search with a fields pipe; ids and order must equal the run without the pipe
		kw := []string{"fields", "FIELDS", "Fields"}[(n+*seed)%3]
		pipe := " | " + kw + " "
		if !c.Flt.Allow {
			pipe += []string{"except ", "EXCEPT ", "Except "}[(n/3+*seed)%3]
		}
		pipe += strings.Join(c.Flt.Fields, ", ")
		base := "k:" + strings.TrimPrefix(tokOf(stored, string(key)), "k:")
		pp := env.ProxyParams{Params: env.Params{From: 0, To: 1 << 40, Order: "desc"}, Size: 10, Fetch: true}
		q0, d0, err0 := env.ProxySearch(ing, base, pp)
		q1, d1, err1 := env.ProxySearch(ing, base+pipe, pp)
		if err0 != nil || err1 != nil {
			emit(map[string]any{"n": n, "path": "proxy-pipe", "what": fmt.Sprintf("error: %v / %v", err0, err1)})
		} else if fmt.Sprint(q0.IDs.IDs()) != fmt.Sprint(q1.IDs.IDs()) {
			emit(map[string]any{"n": n, "path": "proxy-pipe", "what": "set/order of returned ids changed by the pipe"})
		} else {
			// without pipe: untouched bytes
			for i, id := range q0.IDs {
				if string(d0[i]) != bodies[id.ID] {
					emit(map[string]any{"n": n, "path": "proxy-nopipe", "what": "document changed without a pipe", "doc": string(d0[i]), "orig": bodies[id.ID]})
				}
			}
			// align to ids order of the case (search returns desc order)
			byID := map[seq.ID][]byte{}
			for i, id := range q1.IDs {
				if i < len(d1) {
					byID[id.ID] = d1[i]
				}
			}
			var aligned [][]byte
			for _, id := range ids {
				aligned = append(aligned, byID[id])
			}
			check("proxy-pipe", aligned)
		}
		if *progress {
			emit(map[string]any{"end": n})
		}
		n++
	}
	emit(map[string]any{"summary": true, "cases": n, "evals": evals, "nontrivial": nontriv, "corpora": len(stored)})
}

var order []string

func indexOf(m map[string][]seq.ID, key string, _ []seq.ID) int {
	for i, k := range order {
		if k == key {
			return i
		}
	}
	order = append(order, key)
	return len(order) - 1
}

func tokOf(m map[string][]seq.ID, key string) string {
	return fmt.Sprintf("k:c%d", indexOf(m, key, nil))
}
