// project replays ProjectCases.tla: documents are JSON objects whose top-level field set is given
// by the case and whose values come from a palette of JSON shapes; the abstract field names of the
// case are concretised inside their class (white-space-only names, padded names, names containing a
// separator, ...).  The field filter is applied
//
//	(a) by the store's GrpcV1.Fetch with FieldsFilter,
//	(b) by search.Ingestor.Search with a `| fields ...` pipe (in process),
//	(c) by the proxy's public Fetch API: proxyapi grpcV1.Fetch over gRPC and behind the HTTP gateway /fetch,
//	(d) by the proxy's public Search, ComplexSearch and Export APIs (gRPC) and the HTTP gateway /search
//	    with the pipe in the query text,
//
// and the returned documents are compared structurally with the projection the specification requires;
// identifiers and their order must be those of the run without a filter, and a case without a filter
// must return the stored bytes.
package main

import (
	"bufio"
	"bytes"
	"encoding/json"
	"flag"
	"fmt"
	"math/big"
	"os"
	"reflect"
	"sort"
	"strconv"
	"strings"
	"unicode/utf8"

	"go.uber.org/zap/zapcore"

	"github.com/ozontech/seq-db/logger"
	pb "github.com/ozontech/seq-db/pkg/storeapi"
	"github.com/ozontech/seq-db/proxy/search"
	"github.com/ozontech/seq-db/seq"

	"verifharness/env"
)

type Case struct {
	U    string      `json:"u"`
	Docs [][]string  `json:"docs"`
	Cls  [][2]string `json:"cls"`
	Flt  struct {
		Fields []string `json:"fields"`
		Allow  bool     `json:"allow"`
	} `json:"flt"`
	Exp [][]string `json:"exp"`
}

// palette of JSON values (raw text), rotated by (seed + doc index + field index)
var palette = []string{
	`"plain"`, `"esc \" \\ \/ \b\f\n\r\t end"`, `"é日本 😀"`, `"日本語 ünï"`, `""`,
	`0`, `-0`, `12`, `-3.25`, `1e3`, `1E-2`, `123456789012345678901234567890`, `0.1000`,
	`true`, `false`, `null`, `[]`, `{}`, `[1,"a",{"a":2,"b":[null]}]`, `{"a":{"b":{"c":"deep"}},"b":[1,2]}`,
	`"with,comma and | pipe"`, `" lead/trail "`, `{"":1," ":[2],"a":{"":null}}`,
}

// representatives inside the name classes of ProjectCases.tla (Class)
var (
	wsReps    = []string{" ", "\t", "  ", "\n", "\u00a0", " \t", "\r\n"} // a key of white space only
	padReps   = []string{" ", "\t", "  ", "\u00a0"}                      // white space in front of / behind a name
	sepReps   = []string{",", ";", "|", ", "}                            // list separators inside one name
	pathReps  = []string{".", "/", ":", ".."}                            // path separators inside one name
	innerReps = []string{" ", "\t", "  "}                                // white space inside one name
)

// concrete gives the concrete key for the abstract name `n` of class `cls` in corpus number `k`.
func concrete(n, cls string, k int) string {
	r := *seed + k
	switch cls {
	case "plain", "empty", "star":
		return n
	case "ws":
		return wsReps[r%len(wsReps)]
	case "padded": // " a": the pad in front, behind or on both sides
		base := strings.TrimSpace(n)
		pad := padReps[r%len(padReps)]
		switch (r / len(padReps)) % 3 {
		case 0:
			return pad + base
		case 1:
			return base + pad
		}
		return pad + base + pad
	case "sep":
		return strings.ReplaceAll(n, ",", sepReps[r%len(sepReps)])
	case "path":
		return strings.ReplaceAll(n, ".", pathReps[r%len(pathReps)])
	case "innerws":
		return strings.ReplaceAll(n, " ", innerReps[r%len(innerReps)])
	}
	emit(map[string]any{"infra": "unknown name class " + cls})
	os.Exit(3)
	return ""
}

var seed = flag.Int("seed", 1, "")

func emit(v any) {
	b, _ := json.Marshal(v)
	os.Stdout.Write(append(b, '\n'))
}

func decode(b []byte) (any, error) {
	d := json.NewDecoder(bytes.NewReader(b))
	d.UseNumber()
	var v any
	if err := d.Decode(&v); err != nil {
		return nil, err
	}
	if d.More() {
		return nil, fmt.Errorf("trailing data")
	}
	return v, nil
}

// equal compares decoded JSON structurally; numbers by value (arbitrary precision).
func equal(a, b any) bool {
	switch x := a.(type) {
	case json.Number:
		y, ok := b.(json.Number)
		if !ok {
			return false
		}
		if x.String() == y.String() {
			return true
		}
		r1, ok1 := new(big.Rat).SetString(x.String())
		r2, ok2 := new(big.Rat).SetString(y.String())
		return ok1 && ok2 && r1.Cmp(r2) == 0
	case map[string]any:
		y, ok := b.(map[string]any)
		if !ok || len(x) != len(y) {
			return false
		}
		for k, v := range x {
			w, has := y[k]
			if !has || !equal(v, w) {
				return false
			}
		}
		return true
	case []any:
		y, ok := b.([]any)
		if !ok || len(x) != len(y) {
			return false
		}
		for i := range x {
			if !equal(x[i], y[i]) {
				return false
			}
		}
		return true
	default:
		return reflect.DeepEqual(a, b)
	}
}

// jsonKey spells a key as a JSON string; `esc` spells its first character as a \uXXXX escape.
func jsonKey(f string, esc bool) string {
	q := func(s string) string {
		var b bytes.Buffer
		e := json.NewEncoder(&b)
		e.SetEscapeHTML(false)
		_ = e.Encode(s)
		return strings.TrimSuffix(b.String(), "\n")
	}
	if esc && f != "" {
		r, size := utf8.DecodeRuneInString(f)
		if r != utf8.RuneError && r < 0x10000 {
			return fmt.Sprintf(`"\u%04x`, r) + q(f[size:])[1:]
		}
	}
	return q(f)
}

var seqqlKeywords = map[string]bool{"or": true, "and": true, "not": true, "fields": true, "except": true}

// pipeName spells a field name inside a `| fields` pipe: bare where the grammar allows it, otherwise
// (and sometimes anyway) quoted in one of the grammar's quoting styles.
func pipeName(f string, style int) string {
	bare := f != "" && !seqqlKeywords[strings.ToLower(f)]
	for _, r := range f {
		if !(r == '_' || r == '.' || r >= '0' && r <= '9' || r >= 'a' && r <= 'z' || r >= 'A' && r <= 'Z') {
			bare = false
		}
	}
	if bare && style%4 != 3 {
		return f
	}
	if strings.Contains(f, "*") && !strings.ContainsAny(f, "\\\"'`") && style%2 == 0 {
		// the asterisks as they are: the lexer reads them as wildcard marks and the pipe turns them back into characters
		if style%4 == 0 {
			return `"` + f + `"`
		}
		return f
	}
	special := strings.ContainsAny(f, "\\\"'`*")
	switch style % 3 {
	case 0: // double quotes with escapes
		return strings.ReplaceAll(strconv.Quote(f), "*", `\*`)
	case 1: // raw string
		if !special {
			return "`" + f + "`"
		}
	case 2: // the characters as they are between double / single quotes
		if !special {
			if style%2 == 0 {
				return `"` + f + `"`
			}
			return `'` + f + `'`
		}
	}
	return strings.ReplaceAll(strconv.Quote(f), "*", `\*`)
}

type corpus struct {
	idx    int
	ids    []seq.ID
	order  []seq.ID // ids in the order of a search without a pipe (desc)
	concr  map[string]string
	bodies map[seq.ID]string
}

// next numbers the stored documents of the run (MID / RID and the rotation of the palette).
var next = uint64(1)

// storeCorpus stores the documents of a case (one bulk) as corpus number idx: the abstract names are
// concretised inside their class, the values come from the palette.
func storeCorpus(e *env.Env, ing *search.Ingestor, pp env.ProxyParams, idx int, cls [][2]string, docs [][]string) *corpus {
	cp := &corpus{idx: idx, concr: map[string]string{}, bodies: map[seq.ID]string{}}
	seen := map[string]string{}
	for _, nc := range cls {
		k := concrete(nc[0], nc[1], cp.idx)
		if other, dup := seen[k]; dup {
			emit(map[string]any{"infra": fmt.Sprintf("names %q and %q concretise to the same key %q", other, nc[0], k)})
			os.Exit(3)
		}
		seen[k] = nc[0]
		cp.concr[nc[0]] = k
	}
	var bulk []env.Doc
	for di, fields := range docs {
		fs := make([]string, 0, len(fields))
		for _, f := range fields {
			fs = append(fs, cp.concr[f])
		}
		sort.Strings(fs)
		// field order inside the document varies with the seed
		if (*seed+di)%2 == 1 {
			for l, r := 0, len(fs)-1; l < r; l, r = l+1, r-1 {
				fs[l], fs[r] = fs[r], fs[l]
			}
		}
		var b strings.Builder
		b.WriteString("{")
		for fi, f := range fs {
			if fi > 0 {
				b.WriteString(",")
			}
			val := palette[(*seed*7+int(next)*3+fi*5)%len(palette)]
			// every third key is spelled with a JSON escape (a is "a")
			fmt.Fprintf(&b, "%s:%s", jsonKey(f, (*seed+int(next)+fi)%3 == 0), val)
		}
		b.WriteString("}")
		d := env.Doc{MID: 1000 + next, RID: next, Tok: map[string][]string{"k": {fmt.Sprintf("c%d", cp.idx)}}, Body: b.String()}
		next++
		bulk = append(bulk, d)
		cp.ids = append(cp.ids, d.ID())
		cp.bodies[d.ID()] = d.Body
	}
	if err := e.Bulk(bulk); err != nil {
		emit(map[string]any{"infra": "bulk: " + err.Error()})
		os.Exit(3)
	}
	e.WaitIdle()
	if cp.idx%2 == 1 {
		e.Seal()
	}
	// the reference for "set and order of returned documents": a search without a pipe
	q0, _, err0 := env.ProxySearch(ing, fmt.Sprintf("k:c%d", cp.idx), pp)
	if err0 != nil || len(q0.IDs) != len(cp.ids) {
		emit(map[string]any{"infra": fmt.Sprintf("search without a pipe: %v (%d ids)", err0, len(q0.IDs))})
		os.Exit(3)
	}
	for _, id := range q0.IDs {
		cp.order = append(cp.order, id.ID)
	}
	return cp
}

// diffDoc compares a returned document with the projection of the stored document `id` on the (abstract)
// names `exp` the specification requires; "" = as required.
func diffDoc(cp *corpus, id seq.ID, exp []string, doc []byte) (what string, wantNames []string) {
	orig, _ := decode([]byte(cp.bodies[id]))
	om := orig.(map[string]any)
	want := map[string]any{}
	for _, f := range exp {
		want[cp.concr[f]] = om[cp.concr[f]]
		wantNames = append(wantNames, cp.concr[f])
	}
	got, err := decode(doc)
	if err != nil {
		return "result is not valid JSON: " + err.Error(), wantNames
	}
	gm, isObj := got.(map[string]any)
	if !isObj {
		return "result is not a JSON object", wantNames
	}
	if !equal(gm, want) {
		return "projection differs", wantNames
	}
	return "", wantNames
}

func main() {
	progress := flag.Bool("progress", false, "")
	hist := flag.Bool("hist", false, "replay histories of fetches (ProjectPool.tla) instead of single requests (ProjectCases.tla)")
	noAPI := flag.Bool("noapi", false, "skip the public proxy API paths")
	flag.Int("workers", 1, "")
	verbose := flag.Bool("v", false, "keep the log of the real code")
	flag.Parse()
	if !*verbose {
		logger.SetLevel(zapcore.FatalLevel)
	}
	sc := bufio.NewScanner(os.Stdin)
	sc.Buffer(make([]byte, 1<<20), 1<<26)
	// one store for the whole run: one bulk per corpus (case group = universe + field sets)
	e, err := env.New(env.Opts{SkipFsync: true})
	if err != nil {
		emit(map[string]any{"infra": err.Error()})
		os.Exit(3)
	}
	defer e.Close()
	ing := env.NewProxy([][]*env.Env{{e}})
	if *hist {
		runHist(e, ing, sc, *progress)
		return
	}
	var api *apiEnv
	if !*noAPI {
		api, err = newAPIEnv(e)
		if err != nil {
			emit(map[string]any{"infra": "proxy api: " + err.Error()})
			os.Exit(3)
		}
	}
	stored := map[string]*corpus{}
	n, evals, nontriv := 0, 0, 0
	pp := env.ProxyParams{Params: env.Params{From: 0, To: 1 << 40, Order: "desc"}, Size: 10, Fetch: true}
	for sc.Scan() {
		line := sc.Text()
		if !strings.HasPrefix(line, "{") {
			continue
		}
		var c Case
		if err := json.Unmarshal([]byte(line), &c); err != nil {
			emit(map[string]any{"infra": "bad case " + err.Error()})
			os.Exit(3)
		}
		if *progress {
			emit(map[string]any{"begin": n})
		}
		kb, _ := json.Marshal([]any{c.U, c.Docs})
		key := string(kb)
		cp, ok := stored[key]
		if !ok {
			cp = storeCorpus(e, ing, pp, len(stored), c.Cls, c.Docs)
			stored[key] = cp
		}
		ids := cp.ids
		nofilter := len(c.Flt.Fields) == 0
		fields := make([]string, 0, len(c.Flt.Fields))
		for _, f := range c.Flt.Fields {
			fields = append(fields, cp.concr[f])
		}
		// check compares the documents (aligned with the case's ids) with the specification's projection;
		// exact: the bytes must be the stored ones (case without a filter on a path that hands bytes through)
		check := func(path string, docs [][]byte, exact bool) {
			evals++
			if len(docs) != len(ids) {
				emit(map[string]any{"n": n, "path": path, "what": fmt.Sprintf("got %d documents for %d ids", len(docs), len(ids)), "fields": fields, "allow": c.Flt.Allow})
				return
			}
			for i := range ids {
				if nofilter && exact {
					if string(docs[i]) != cp.bodies[ids[i]] {
						emit(map[string]any{"n": n, "path": path, "what": "document changed without a filter", "doc": string(docs[i]), "orig": cp.bodies[ids[i]]})
						return
					}
					continue
				}
				if what, wantNames := diffDoc(cp, ids[i], c.Exp[i], docs[i]); what != "" {
					emit(map[string]any{"n": n, "path": path, "what": what, "doc": string(docs[i]), "orig": cp.bodies[ids[i]], "fields": fields, "allow": c.Flt.Allow, "want_fields": wantNames})
					return
				}
			}
		}
		// alignIDs brings documents returned in search order into the order of the case's ids and
		// checks that identifiers and their order are those of the search without a pipe
		alignIDs := func(path string, got []seq.ID, docs [][]byte) ([][]byte, bool) {
			if fmt.Sprint(got) != fmt.Sprint(cp.order) {
				emit(map[string]any{"n": n, "path": path, "what": "set/order of returned ids differs from the search without a pipe", "got": fmt.Sprint(got), "exp": fmt.Sprint(cp.order), "fields": fields, "allow": c.Flt.Allow})
				return nil, false
			}
			byID := map[seq.ID][]byte{}
			for i, id := range got {
				if i < len(docs) {
					byID[id] = docs[i]
				}
			}
			var aligned [][]byte
			for _, id := range ids {
				if d, ok := byID[id]; ok {
					aligned = append(aligned, d)
				}
			}
			return aligned, true
		}
		nt := false
		for i := range c.Exp {
			if len(c.Exp[i]) > 0 && len(c.Exp[i]) < len(c.Docs[i]) {
				nt = true
			}
		}
		if nt {
			nontriv++
		}
		// the query text: keyword case and the quoting of the names vary
		query := fmt.Sprintf("k:c%d", cp.idx)
		if !nofilter {
			kw := []string{"fields", "FIELDS", "Fields"}[(n+*seed)%3]
			query += " | " + kw + " "
			if !c.Flt.Allow {
				query += []string{"except ", "EXCEPT ", "Except "}[(n/3+*seed)%3]
			}
			for i, f := range fields {
				if i > 0 {
					query += []string{", ", ",", " , "}[(n/7+i)%3]
				}
				query += pipeName(f, n/5+i+*seed)
			}
		}
		// (a) store fetch with a field filter
		var sf *pb.FetchRequest_FieldsFilter
		if !nofilter {
			sf = &pb.FetchRequest_FieldsFilter{Fields: fields, AllowList: c.Flt.Allow}
		}
		docs, _, err := e.Fetch(ids, sf)
		if err != nil {
			emit(map[string]any{"n": n, "path": "store-fetch", "what": "error: " + err.Error()})
		} else {
			check("store-fetch", docs, true)
		}
		// (b) search.Ingestor.Search with a fields pipe
		path := "proxy-pipe"
		if nofilter {
			path = "proxy-nopipe"
		}
		q1, d1, err1 := env.ProxySearch(ing, query, pp)
		if err1 != nil {
			emit(map[string]any{"n": n, "path": path, "what": fmt.Sprintf("error: %v", err1), "query": query})
		} else {
			var got []seq.ID
			for _, id := range q1.IDs {
				got = append(got, id.ID)
			}
			if aligned, ok := alignIDs(path, got, d1); ok {
				check(path, aligned, true)
			}
		}
		// (c), (d) the public proxy API
		if api != nil {
			for _, p := range apiPaths {
				// a fetch asks for the ids in ascending or (as a client does after a search) descending order
				req := ids
				if p.fetch && n%2 == 1 {
					req = cp.order
				}
				got, docs, exact, err := p.run(api, req, fields, c.Flt.Allow, nofilter, query)
				if err != nil {
					emit(map[string]any{"n": n, "path": p.name, "what": "error: " + err.Error(), "query": query, "fields": fields, "allow": c.Flt.Allow})
					continue
				}
				if p.fetch {
					// a fetch returns the documents in the order of the requested ids
					if fmt.Sprint(got) != fmt.Sprint(req) {
						emit(map[string]any{"n": n, "path": p.name, "what": "set/order of fetched ids differs from the request", "got": fmt.Sprint(got), "exp": fmt.Sprint(req), "fields": fields, "allow": c.Flt.Allow})
						continue
					}
					byID := map[seq.ID][]byte{}
					for i, id := range got {
						byID[id] = docs[i]
					}
					aligned := make([][]byte, 0, len(ids))
					for _, id := range ids {
						aligned = append(aligned, byID[id])
					}
					check(p.name, aligned, exact)
				} else if aligned, ok := alignIDs(p.name, got, docs); ok {
					check(p.name, aligned, exact)
				}
			}
		}
		if *progress {
			emit(map[string]any{"end": n})
		}
		n++
	}
	if api != nil {
		api.stop()
	}
	emit(map[string]any{"summary": true, "cases": n, "evals": evals, "nontrivial": nontriv, "corpora": len(stored)})
}
