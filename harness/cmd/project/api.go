package main

// The public proxy API in front of the store of the driver: a real proxyapi.Ingestor (gRPC server with
// grpcV1 + HTTP server with the gRPC gateway) over the in-process store, asked through real sockets.

import (
	"bytes"
	"context"
	"encoding/json"
	"errors"
	"fmt"
	"io"
	"net"
	"net/http"
	"time"

	"google.golang.org/grpc"
	"google.golang.org/grpc/credentials/insecure"
	"google.golang.org/protobuf/encoding/protojson"
	"google.golang.org/protobuf/proto"
	"google.golang.org/protobuf/types/known/timestamppb"

	"github.com/ozontech/seq-db/consts"
	"github.com/ozontech/seq-db/network/circuitbreaker"
	"github.com/ozontech/seq-db/pkg/seqproxyapi/v1"
	"github.com/ozontech/seq-db/proxy/bulk"
	"github.com/ozontech/seq-db/proxy/search"
	"github.com/ozontech/seq-db/proxy/stores"
	"github.com/ozontech/seq-db/proxyapi"
	"github.com/ozontech/seq-db/seq"

	"verifharness/env"
)

type apiEnv struct {
	ing  *proxyapi.Ingestor
	conn *grpc.ClientConn
	cl   seqproxyapi.SeqProxyApiClient
	http string // base URL of the HTTP server (gateway)
	hc   *http.Client
}

func newAPIEnv(e *env.Env) (*apiEnv, error) {
	httpLis, err := net.Listen("tcp", "127.0.0.1:0")
	if err != nil {
		return nil, err
	}
	grpcLis, err := net.Listen("tcp", "127.0.0.1:0")
	if err != nil {
		return nil, err
	}
	empty := func() *stores.Stores { return &stores.Stores{Shards: [][]string{}, Vers: []string{}} }
	ing, err := proxyapi.NewIngestor(proxyapi.IngestorConfig{
		API: proxyapi.APIConfig{SearchTimeout: time.Minute, ExportTimeout: time.Minute, QueryRateLimit: 1e12, EsVersion: "test",
			GatewayAddr: grpcLis.Addr().String()},
		Bulk: bulk.IngestorConfig{HotStores: empty(), WriteStores: empty(),
			BulkCircuit:      circuitbreaker.Config{RequestVolumeThreshold: 101, Timeout: time.Hour},
			MaxInflightBulks: 1, MappingProvider: e.MP, MaxTokenSize: consts.DefaultMaxTokenSize, MaxDocumentSize: consts.MB},
		Search: search.Config{HotStores: empty(), HotReadStores: empty(), ReadStores: empty(), WriteStores: empty()},
	}, e.Store) // the store's in-memory client becomes the only hot shard
	if err != nil {
		return nil, err
	}
	ing.Start(httpLis, grpcLis)
	conn, err := grpc.NewClient(grpcLis.Addr().String(), grpc.WithTransportCredentials(insecure.NewCredentials()),
		grpc.WithDefaultCallOptions(grpc.MaxCallRecvMsgSize(64<<20)))
	if err != nil {
		return nil, err
	}
	return &apiEnv{ing: ing, conn: conn, cl: seqproxyapi.NewSeqProxyApiClient(conn), http: "http://" + httpLis.Addr().String(),
		hc: &http.Client{Timeout: time.Minute}}, nil
}

func (a *apiEnv) stop() {
	_ = a.conn.Close()
	a.hc.CloseIdleConnections()
	a.ing.Stop()
}

// apiPath asks one public entry point. It returns the identifiers and documents in the order of the
// response; exact = the path hands the stored bytes through (the HTTP gateway re-encodes them as JSON).
type apiPath struct {
	name  string
	fetch bool
	run   func(a *apiEnv, ids []seq.ID, fields []string, allow, nofilter bool, query string) ([]seq.ID, [][]byte, bool, error)
}

var apiPaths = []apiPath{
	{"api-fetch", true, (*apiEnv).grpcFetch},
	{"http-fetch", true, (*apiEnv).httpFetch},
	{"api-search", false, (*apiEnv).grpcSearch},
	{"api-complex-search", false, (*apiEnv).grpcComplexSearch},
	{"api-export", false, (*apiEnv).grpcExport},
	{"http-search", false, (*apiEnv).httpSearch},
}

func fetchReq(ids []seq.ID, fields []string, allow, nofilter bool) *seqproxyapi.FetchRequest {
	req := &seqproxyapi.FetchRequest{}
	for _, id := range ids {
		req.Ids = append(req.Ids, id.String())
	}
	if !nofilter {
		req.FieldsFilter = &seqproxyapi.FetchRequest_FieldsFilter{Fields: fields, AllowList: allow}
	}
	return req
}

func searchQuery(query string) *seqproxyapi.SearchQuery {
	return &seqproxyapi.SearchQuery{Query: query, From: timestamppb.New(time.UnixMilli(0)), To: timestamppb.New(time.UnixMilli(1 << 36))}
}

func protoDocs(docs []*seqproxyapi.Document) ([]seq.ID, [][]byte, error) {
	var ids []seq.ID
	var out [][]byte
	for _, d := range docs {
		id, err := seq.FromString(d.GetId())
		if err != nil {
			return nil, nil, fmt.Errorf("unparsable id %q in the response", d.GetId())
		}
		ids = append(ids, id)
		out = append(out, append([]byte(nil), d.GetData()...))
	}
	return ids, out, nil
}

func apiErr(e *seqproxyapi.Error) error {
	if e != nil && e.GetCode() != seqproxyapi.ErrorCode_ERROR_CODE_NO && e.GetCode() != seqproxyapi.ErrorCode_ERROR_CODE_UNSPECIFIED {
		return fmt.Errorf("response error %s: %s", e.GetCode(), e.GetMessage())
	}
	return nil
}

func (a *apiEnv) grpcFetch(ids []seq.ID, fields []string, allow, nofilter bool, _ string) ([]seq.ID, [][]byte, bool, error) {
	ctx, cancel := context.WithTimeout(context.Background(), time.Minute)
	defer cancel()
	st, err := a.cl.Fetch(ctx, fetchReq(ids, fields, allow, nofilter))
	if err != nil {
		return nil, nil, true, err
	}
	var docs []*seqproxyapi.Document
	for {
		d, err := st.Recv()
		if errors.Is(err, io.EOF) {
			break
		}
		if err != nil {
			return nil, nil, true, err
		}
		docs = append(docs, d)
	}
	got, out, err := protoDocs(docs)
	return got, out, true, err
}

func (a *apiEnv) grpcSearch(_ []seq.ID, _ []string, _, _ bool, query string) ([]seq.ID, [][]byte, bool, error) {
	ctx, cancel := context.WithTimeout(context.Background(), time.Minute)
	defer cancel()
	resp, err := a.cl.Search(ctx, &seqproxyapi.SearchRequest{Query: searchQuery(query), Size: 10, Order: seqproxyapi.Order_ORDER_DESC})
	if err != nil {
		return nil, nil, true, err
	}
	if err := apiErr(resp.GetError()); err != nil {
		return nil, nil, true, err
	}
	got, out, err := protoDocs(resp.GetDocs())
	return got, out, true, err
}

func (a *apiEnv) grpcComplexSearch(_ []seq.ID, _ []string, _, _ bool, query string) ([]seq.ID, [][]byte, bool, error) {
	ctx, cancel := context.WithTimeout(context.Background(), time.Minute)
	defer cancel()
	resp, err := a.cl.ComplexSearch(ctx, &seqproxyapi.ComplexSearchRequest{Query: searchQuery(query), Size: 10, Order: seqproxyapi.Order_ORDER_DESC, WithTotal: true})
	if err != nil {
		return nil, nil, true, err
	}
	if err := apiErr(resp.GetError()); err != nil {
		return nil, nil, true, err
	}
	got, out, err := protoDocs(resp.GetDocs())
	return got, out, true, err
}

func (a *apiEnv) grpcExport(_ []seq.ID, _ []string, _, _ bool, query string) ([]seq.ID, [][]byte, bool, error) {
	ctx, cancel := context.WithTimeout(context.Background(), time.Minute)
	defer cancel()
	st, err := a.cl.Export(ctx, &seqproxyapi.ExportRequest{Query: searchQuery(query), Size: 10})
	if err != nil {
		return nil, nil, true, err
	}
	var docs []*seqproxyapi.Document
	for {
		r, err := st.Recv()
		if errors.Is(err, io.EOF) {
			break
		}
		if err != nil {
			return nil, nil, true, err
		}
		docs = append(docs, r.GetDoc())
	}
	got, out, err := protoDocs(docs)
	return got, out, true, err
}

// jsonDoc is a document as the HTTP gateway writes it (seqproxyapi.Document.MarshalJSON: data is raw JSON).
type jsonDoc struct {
	ID   string          `json:"id"`
	Data json.RawMessage `json:"data"`
}

func jsonDocs(docs []jsonDoc) ([]seq.ID, [][]byte, error) {
	var ids []seq.ID
	var out [][]byte
	for _, d := range docs {
		id, err := seq.FromString(d.ID)
		if err != nil {
			return nil, nil, fmt.Errorf("unparsable id %q in the response", d.ID)
		}
		ids = append(ids, id)
		out = append(out, []byte(d.Data))
	}
	return ids, out, nil
}

func (a *apiEnv) post(path string, req proto.Message) ([]byte, error) {
	body, err := protojson.Marshal(req)
	if err != nil {
		return nil, err
	}
	r, err := a.hc.Post(a.http+path, "application/json", bytes.NewReader(body))
	if err != nil {
		return nil, err
	}
	defer r.Body.Close()
	out, err := io.ReadAll(r.Body)
	if err != nil {
		return nil, err
	}
	if r.StatusCode != http.StatusOK {
		return nil, fmt.Errorf("HTTP %d: %.300s", r.StatusCode, out)
	}
	return out, nil
}

func (a *apiEnv) httpFetch(ids []seq.ID, fields []string, allow, nofilter bool, _ string) ([]seq.ID, [][]byte, bool, error) {
	out, err := a.post("/fetch", fetchReq(ids, fields, allow, nofilter))
	if err != nil {
		return nil, nil, false, err
	}
	// a stream of {"result": <document>} objects
	var docs []jsonDoc
	dec := json.NewDecoder(bytes.NewReader(out))
	for dec.More() {
		var item struct {
			Result *jsonDoc        `json:"result"`
			Error  json.RawMessage `json:"error"`
		}
		if err := dec.Decode(&item); err != nil {
			return nil, nil, false, fmt.Errorf("response is not a stream of JSON objects: %v: %.300s", err, out)
		}
		if item.Result == nil {
			return nil, nil, false, fmt.Errorf("error in the stream: %.300s", out)
		}
		docs = append(docs, *item.Result)
	}
	got, res, err := jsonDocs(docs)
	return got, res, false, err
}

func (a *apiEnv) httpSearch(_ []seq.ID, _ []string, _, _ bool, query string) ([]seq.ID, [][]byte, bool, error) {
	out, err := a.post("/search", &seqproxyapi.SearchRequest{Query: searchQuery(query), Size: 10, Order: seqproxyapi.Order_ORDER_DESC})
	if err != nil {
		return nil, nil, false, err
	}
	var resp struct {
		Docs  []jsonDoc `json:"docs"`
		Error *struct {
			Code    json.RawMessage `json:"code"`
			Message string          `json:"message"`
		} `json:"error"`
	}
	if err := json.Unmarshal(out, &resp); err != nil {
		return nil, nil, false, fmt.Errorf("response is not JSON: %v: %.300s", err, out)
	}
	if resp.Error != nil && resp.Error.Message != "" {
		return nil, nil, false, fmt.Errorf("response error %s: %s", resp.Error.Code, resp.Error.Message)
	}
	got, res, err := jsonDocs(resp.Docs)
	return got, res, false, err
}
