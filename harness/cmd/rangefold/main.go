// rangefold replays RangeFold.tla's cases into the real SeqQL parser: `f:[a, b]` with ends over a palette of
// both letter cases, both bracket kinds, case-sensitive and case-insensitive configuration; the Range node the
// parser returns must carry the ends the specification says the filter denotes.
package main

import (
	"bufio"
	"encoding/json"
	"fmt"
	"os"
	"strings"

	"github.com/ozontech/seq-db/conf"
	"github.com/ozontech/seq-db/parser"
	"github.com/ozontech/seq-db/seq"
)

type rng struct {
	From []string `json:"from"`
	To   []string `json:"to"`
	IncF bool     `json:"incf"`
	IncT bool     `json:"inct"`
	Sens bool     `json:"sens"`
}
type cs struct {
	Q   rng `json:"q"`
	Exp rng `json:"exp"`
}

func emit(v any) { b, _ := json.Marshal(v); os.Stdout.Write(append(b, '\n')) }

func find(n *parser.ASTNode) *parser.Range {
	if n == nil {
		return nil
	}
	if r, ok := n.Value.(*parser.Range); ok {
		return r
	}
	for _, c := range n.Children {
		if r := find(c); r != nil {
			return r
		}
	}
	return nil
}

func spell(e []string, quoted bool) string {
	s := strings.Join(e, "")
	if s == "*" || !quoted {
		return s
	}
	return `"` + s + `"`
}

func main() {
	mapping := seq.Mapping{"f": seq.NewSingleType(seq.TokenizerTypeKeyword, "", 0)}
	sc := bufio.NewScanner(os.Stdin)
	sc.Buffer(make([]byte, 1<<20), 1<<24)
	n, evals := 0, 0
	for sc.Scan() {
		ln := strings.TrimSpace(sc.Text())
		if !strings.HasPrefix(ln, "{") {
			continue
		}
		var c cs
		if err := json.Unmarshal([]byte(ln), &c); err != nil {
			emit(map[string]any{"infra": "bad case: " + err.Error()})
			os.Exit(3)
		}
		n++
		conf.CaseSensitive = c.Q.Sens
		for _, quoted := range []bool{false, true} {
			open, cl := "(", ")"
			if c.Q.IncF {
				open = "["
			}
			if c.Q.IncT {
				cl = "]"
			}
			if strings.HasPrefix(strings.Join(c.Q.From, ""), "-") && !quoted || strings.HasPrefix(strings.Join(c.Q.To, ""), "-") && !quoted {
				continue // a bare sign is not a value of the grammar
			}
			q := fmt.Sprintf("f:%s%s, %s%s", open, spell(c.Q.From, quoted), spell(c.Q.To, quoted), cl)
			evals++
			res, err := parser.ParseSeqQL(q, mapping)
			if err != nil {
				emit(map[string]any{"n": n, "what": "range filter rejected: " + err.Error(), "query": q})
				continue
			}
			r := find(res.Root)
			if r == nil {
				emit(map[string]any{"n": n, "what": "no range node in the parsed query", "query": q})
				continue
			}
			end := func(t parser.Term) string {
				if t.Kind == parser.TermSymbol {
					return "*"
				}
				return t.Data
			}
			gf, gt := end(r.From), end(r.To)
			ef, et := strings.Join(c.Exp.From, ""), strings.Join(c.Exp.To, "")
			if gf != ef || gt != et || r.IncludeFrom != c.Exp.IncF || r.IncludeTo != c.Exp.IncT {
				emit(map[string]any{"n": n, "what": fmt.Sprintf("range ends differ from RangeFold.tla (case-sensitive=%v): got %q..%q incl %v/%v, the filter denotes %q..%q incl %v/%v", c.Q.Sens, gf, gt, r.IncludeFrom, r.IncludeTo, ef, et, c.Exp.IncF, c.Exp.IncT), "query": q})
			}
		}
	}
	conf.CaseSensitive = false
	emit(map[string]any{"summary": true, "cases": n, "evals": evals, "nontrivial": n, "corpora": 0})
}
