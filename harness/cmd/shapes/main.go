// shapes replays the CASE lines of spec/IndexLayout.tla (mode "real") into real seq-db fractions (C03).
//
// A case is a corpus *shape* (document count, documents per timestamp, posting intervals of the k
// tokens, size of the u dictionary, token byte sizes, body size), a store configuration (sorted-docs
// rewriting on/off, cache size class, zstd level, bulk size), the block layout the specification
// predicts for the sealed fraction, and a list of probes with the answers the specification
// computed.  The driver builds the corpus for real, and asks every probe
//
//	(a) of the active fraction,
//	(b) of the fraction right after sealing (frac.Seal -> NewSealedPreloaded inside the store),
//	(c) of the store restarted from its files (Loader.Load),
//	(d) of the store restarted once more with the other cache size class,
//
// through frac.DataProvider (and a third of the search probes also through the real Searcher, one
// fetch list through GrpcV1.Fetch).  Aggregation probes name a group-by field (g | k | u | x) and a
// function (count | unique | num = the numeric samples of the u values); the specification's answer
// names the groups by index (runs <<a, b, count>>), the driver only renders the index as the token.  After sealing, the .index file is read back with the real
// disk.IndexReader / lids.Loader / token.TableLoader and compared with the predicted layout.
//
// stdin : one JSON case per line; stdout: one JSON line per disagreement, then {"summary":...}.
// No seq-db logic is re-implemented here: expected values come from the case only.
package main

import (
	"bufio"
	"bytes"
	"context"
	"encoding/json"
	"flag"
	"fmt"
	"os"
	"path/filepath"
	"strconv"
	"strings"
	"sync"
	"sync/atomic"
	"time"

	"github.com/prometheus/client_golang/prometheus"

	"github.com/ozontech/seq-db/cache"
	"github.com/ozontech/seq-db/disk"
	"github.com/ozontech/seq-db/frac"
	"github.com/ozontech/seq-db/frac/lids"
	"github.com/ozontech/seq-db/frac/processor"
	"github.com/ozontech/seq-db/frac/token"
	"github.com/ozontech/seq-db/parser"
	pb "github.com/ozontech/seq-db/pkg/storeapi"
	"github.com/ozontech/seq-db/seq"
	"github.com/ozontech/seq-db/storeapi"
	"github.com/ozontech/seq-db/verifhook"

	"verifharness/env"
)

type KTok struct {
	Lo int `json:"lo"`
	Hi int `json:"hi"`
	Sz int `json:"sz"`
}

type Shape struct {
	N   int    `json:"n"`
	D   int    `json:"d"`
	G   int    `json:"g"`
	Bsz int    `json:"bsz"`
	W   int    `json:"w"`
	K   []KTok `json:"k"`
	Ulo int    `json:"ulo"`
	Uhi int    `json:"uhi"`
	Xlo int    `json:"xlo"`
	Xhi int    `json:"xhi"`
}

type Cfg struct {
	SkipSort bool   `json:"skipSort"`
	Cache    string `json:"cache"`
	Zstd     int    `json:"zstd"`
	Bulk     int    `json:"bulk"`
}

type TableField struct {
	Name    string   `json:"name"`
	Entries [][5]int `json:"entries"` // StartTID, ValCount, StartIndex, BlockIndex, position of MaxVal in the field
}

type Layout struct {
	Lids      [][5]int     `json:"lids"` // MinTID, MaxTID, IsContinued, chunks, LIDs
	IdsTotal  int          `json:"idsTotal"`
	IdBlocks  []int        `json:"idBlocks"` // document index of the min ID of each block
	TokBlocks int          `json:"tokBlocks"`
	Stuck     bool         `json:"stuck"`
	Table     []TableField `json:"table"`
}

type Query struct {
	Op string `json:"op"`
	J  int    `json:"j"`
	I  int    `json:"i"`
	P  int    `json:"p"`
	Z  int    `json:"z"`
	Lo int    `json:"lo"`
	Hi int    `json:"hi"`
	A  *Query `json:"a"`
	B  *Query `json:"b"`
}

type Probe struct {
	T     string   `json:"t"`
	Q     *Query   `json:"q"`
	F     int      `json:"f"`
	To    int      `json:"to"`
	Order string   `json:"order"`
	Limit int      `json:"limit"`
	Wt    bool     `json:"wt"`
	Iv    int      `json:"iv"`
	Ids   [][2]int `json:"ids"`
	By    string   `json:"by"` // aggregation: group by field g | k | u | x ("" = one group)
	Fn    string   `json:"fn"` // aggregation: count | unique | num (numeric value of the u token)
}

type Exp struct {
	Ids   [][2]int `json:"ids"`
	Total int      `json:"total"`
	Hist  [][2]int `json:"hist"`
	Agg   [][3]int `json:"agg"` // runs: each of the group names a..b has c documents
	Ne    int      `json:"ne"`  // documents of the answer without a token of the group-by field
	Num   [][6]int `json:"num"` // group, count, min, max, sum, documents of the group without a u token
	Docs  []int    `json:"docs"`
}

type PE struct {
	P   json.RawMessage `json:"p"`
	Exp Exp             `json:"exp"`
	p   Probe
}

type Case struct {
	N      int    `json:"-"`
	I      int    `json:"i"`
	C      int    `json:"c"`
	Shape  Shape  `json:"shape"`
	Cfg    Cfg    `json:"cfg"`
	Layout Layout `json:"layout"`
	Probes []PE   `json:"probes"`
	F9     bool   `json:"f9"`
}

var (
	workers  = flag.Int("workers", 8, "cases in parallel")
	progress = flag.Bool("progress", false, "serial, with begin/end markers (crash attribution)")
	formsF   = flag.String("forms", "active,sealed,sealed2,reloaded,recached", "forms to probe")
	maxRep   = flag.Int("maxreports", 12, "disagreements reported per case")
	slowMs   = flag.Int("slow", 0, "log probes slower than this many ms to stderr (tuning aid)")
	outMu    sync.Mutex
	evals    atomic.Int64
	nontriv  atomic.Int64
	layouts  atomic.Int64
)

func emit(v any) {
	b, _ := json.Marshal(v)
	outMu.Lock()
	os.Stdout.Write(append(b, '\n'))
	outMu.Unlock()
}

// ---------------------------------------------------------------- corpus (representatives of the shape)

type corpus struct {
	s    Shape
	base uint64
}

func (c *corpus) id(i int) seq.ID {
	return seq.ID{MID: seq.MID(c.base + uint64(i/c.s.D)), RID: seq.RID(i)}
}

func (c *corpus) body(i int) []byte {
	b := []byte(`{"i":` + strconv.Itoa(i) + `,"p":"`)
	for len(b)+2 < c.s.Bsz {
		b = append(b, 'x')
	}
	return append(b, '"', '}')
}

func kName(j, sz int) string { return "t" + strconv.Itoa(j) + strings.Repeat("x", sz-2) }

func (c *corpus) uName(i int) string { return fmt.Sprintf("%0*d", c.s.W, i) }

func (c *corpus) tokens(i int) []string {
	t := []string{"_all_:"}
	if c.s.G > 0 {
		t = append(t, "g:"+strconv.Itoa(i%c.s.G))
	}
	for j, k := range c.s.K {
		if k.Lo <= i && i <= k.Hi {
			t = append(t, "k:"+kName(j+1, k.Sz))
		}
	}
	if c.s.Ulo <= i && i <= c.s.Uhi {
		t = append(t, "u:"+c.uName(i))
	}
	if c.s.Xlo <= i && i <= c.s.Xhi {
		t = append(t, "x:1")
	}
	return t
}

// the token at (1-based) position pos of a field's sorted dictionary
func (c *corpus) tokenAt(field string, pos int) string {
	switch field {
	case "_all_":
		return ""
	case "g":
		if c.s.N >= c.s.G {
			return strconv.Itoa(pos - 1)
		}
		return strconv.Itoa(pos) // documents 1..n < g: tokens "1".."n"
	case "k":
		return kName(pos, c.s.K[pos-1].Sz)
	case "u":
		return c.uName(c.s.Ulo + pos - 1)
	case "x":
		return "1"
	}
	return "?"
}

// arrival order of the documents: ascending, descending or bulks interleaved
func arrival(n, kind, bulk int) []int {
	out := make([]int, 0, n)
	switch kind % 3 {
	case 0:
		for i := 1; i <= n; i++ {
			out = append(out, i)
		}
	case 1:
		for i := n; i >= 1; i-- {
			out = append(out, i)
		}
	default:
		nb := (n + bulk - 1) / bulk
		for pass := 0; pass < 2; pass++ {
			for b := pass; b < nb; b += 2 {
				for i := b*bulk + 1; i <= n && i <= (b+1)*bulk; i++ {
					out = append(out, i)
				}
			}
		}
	}
	return out
}

func ingest(e *env.Env, c *corpus, cfg Cfg, kind int) error {
	order := arrival(c.s.N, kind, cfg.Bulk)
	dp := frac.NewDocProvider()
	cnt := 0
	flush := func() error {
		if cnt == 0 {
			return nil
		}
		req := &pb.BulkRequest{Count: int64(cnt)}
		req.Docs, req.Metas = dp.Provide()
		_, err := e.Client.Bulk(context.Background(), req)
		dp = frac.NewDocProvider()
		cnt = 0
		return err
	}
	for _, i := range order {
		dp.Append(c.body(i), nil, c.id(i), seq.Tokens(c.tokens(i)...))
		cnt++
		if cnt >= cfg.Bulk {
			if err := flush(); err != nil {
				return err
			}
		}
	}
	return flush()
}

// ---------------------------------------------------------------- queries

func lit(field string, terms ...parser.Term) *parser.ASTNode {
	return &parser.ASTNode{Value: &parser.Literal{Field: field, Terms: terms}}
}
func text(s string) parser.Term { return parser.Term{Kind: parser.TermText, Data: s} }

var star = parser.Term{Kind: parser.TermSymbol, Data: "*"}

func logical(op string, ch ...*parser.ASTNode) *parser.ASTNode {
	var k parser.Logical
	switch op {
	case "and":
		k = parser.Logical{Operator: parser.LogicalAnd}
	case "or":
		k = parser.Logical{Operator: parser.LogicalOr}
	default:
		k = parser.Logical{Operator: parser.LogicalNot}
	}
	return &parser.ASTNode{Value: &k, Children: ch}
}

func (c *corpus) ast(q *Query) *parser.ASTNode {
	switch q.Op {
	case "all":
		return lit("_all_", star)
	case "tok":
		return lit("k", text(kName(q.J, c.s.K[q.J-1].Sz)))
	case "kany":
		return lit("k", text("t"), star)
	case "u":
		return lit("u", text(c.uName(q.I)))
	case "uall":
		return lit("u", star)
	case "ur":
		return &parser.ASTNode{Value: &parser.Range{Field: "u", From: text(c.uName(q.Lo)), To: text(c.uName(q.Hi)), IncludeFrom: true, IncludeTo: true}}
	case "x":
		return lit("x", text("1"))
	case "up":
		return lit("u", text(fmt.Sprintf("%0*d", c.s.W-q.Z, q.P)), star)
	case "and":
		return logical("and", c.ast(q.A), c.ast(q.B))
	case "or":
		return logical("or", c.ast(q.A), c.ast(q.B))
	case "not":
		return logical("not", c.ast(q.A))
	}
	panic("unknown query op " + q.Op)
}

func (c *corpus) params(p *Probe) processor.SearchParams {
	sp := processor.SearchParams{AST: c.ast(p.Q), From: seq.MID(c.base + uint64(p.F)), To: seq.MID(c.base + uint64(p.To)),
		Limit: p.Limit, WithTotal: p.Wt, Order: env.Order(p.Order)}
	switch p.T {
	case "h":
		sp.HistInterval = uint64(p.Iv)
		sp.WithTotal = true
	case "a":
		sp.WithTotal = true
		sp.Limit = 0
		sp.AggQ = env.AggQueries([]env.Agg{aggOf(p)})
	}
	return sp
}

// aggOf: the aggregation request of an "a" probe, as storeapi builds it (group-by / field literal `<field>:*`)
func aggOf(p *Probe) env.Agg {
	switch p.Fn {
	case "unique":
		return env.Agg{Func: "unique", GroupBy: p.By}
	case "num": // min / max / sum / avg are one aggregator; the samples are compared, not one function of them
		fn := "sum"
		if p.F%2 == 1 {
			fn = "min"
		}
		return env.Agg{Func: fn, Field: "u", GroupBy: p.By}
	}
	return env.Agg{Func: "count", GroupBy: p.By}
}

// groupName: the token the specification's group index stands for
func (c *corpus) groupName(by string, v int) string {
	switch by {
	case "g":
		return strconv.Itoa(v)
	case "k":
		return kName(v, c.s.K[v-1].Sz)
	case "u":
		return c.uName(v)
	case "x":
		return "1"
	}
	return ""
}

func (c *corpus) compareAgg(p *Probe, x *Exp, q *seq.QPR) string {
	if len(q.Aggs) != 1 {
		return fmt.Sprintf("aggs: got %d results", len(q.Aggs))
	}
	if p.Fn == "num" {
		samples := q.Aggs[0].SamplesByBin
		seen := 0
		for _, row := range x.Num {
			name := c.groupName(p.By, row[0])
			var h *seq.SamplesContainer
			for bin, sc := range samples {
				if bin.Token == name {
					if h != nil {
						return fmt.Sprintf("agg num[%s=%q]: two bins", p.By, name)
					}
					h = sc
				}
			}
			if h == nil {
				return fmt.Sprintf("agg num[%s=%q]: group missing, expected count %d min %d max %d sum %d not-exists %d", p.By, name, row[1], row[2], row[3], row[4], row[5])
			}
			seen++
			if h.Total != int64(row[1]) || h.NotExists != int64(row[5]) {
				return fmt.Sprintf("agg num[%s=%q]: got count %d not-exists %d expected %d / %d", p.By, name, h.Total, h.NotExists, row[1], row[5])
			}
			if row[1] > 0 && (h.Min != float64(row[2]) || h.Max != float64(row[3]) || h.Sum != float64(row[4])) {
				return fmt.Sprintf("agg num[%s=%q]: got min %v max %v sum %v expected %d %d %d", p.By, name, h.Min, h.Max, h.Sum, row[2], row[3], row[4])
			}
		}
		if seen != len(samples) {
			return fmt.Sprintf("agg num: got %d groups expected %d", len(samples), len(x.Num))
		}
		return ""
	}
	res := q.Aggs[0].Aggregate(env.AggArgs(aggOf(p)))
	got := make(map[string]int64, len(res.Buckets))
	ne := res.NotExists
	for _, b := range res.Buckets {
		if b.Name == "_not_exists" { // the count aggregator's legacy bucket for documents without the field
			if int64(b.Value) != res.NotExists {
				return fmt.Sprintf("agg: _not_exists bucket %v but NotExists %d", b.Value, res.NotExists)
			}
			continue
		}
		if _, dup := got[b.Name]; dup {
			return fmt.Sprintf("agg[%s=%q]: two buckets", p.By, trunc([]byte(b.Name)))
		}
		got[b.Name] = int64(b.Value)
	}
	if ne != int64(x.Ne) {
		return fmt.Sprintf("agg: %d documents without %s, expected %d", ne, p.By, x.Ne)
	}
	want := 0
	for _, run := range x.Agg {
		for v := run[0]; v <= run[1]; v++ {
			want++
			name := c.groupName(p.By, v)
			g, ok := got[name]
			if !ok {
				return fmt.Sprintf("agg[%s=%q]: bucket missing (expected %d documents); got %d buckets", p.By, trunc([]byte(name)), run[2], len(got))
			}
			if p.Fn == "count" && g != int64(run[2]) {
				return fmt.Sprintf("agg[%s=%q]: got %d expected %d", p.By, trunc([]byte(name)), g, run[2])
			}
		}
	}
	if want != len(got) {
		return fmt.Sprintf("agg: got %d buckets expected %d", len(got), want)
	}
	return ""
}

// compareQPR returns "" when the answer equals the expectation of the specification
func (c *corpus) compareQPR(p *Probe, x *Exp, q *seq.QPR) string {
	if p.T != "a" {
		k := 0
		for _, run := range x.Ids {
			step := 1
			if run[0] > run[1] {
				step = -1
			}
			for i := run[0]; ; i += step {
				if k >= len(q.IDs) {
					return fmt.Sprintf("ids: got %d ids, expected more (next expected document %d)", len(q.IDs), i)
				}
				if q.IDs[k].ID != c.id(i) {
					return fmt.Sprintf("ids[%d]: got (%d,%d) expected document %d = (%d,%d)", k, q.IDs[k].ID.MID, q.IDs[k].ID.RID, i, c.id(i).MID, c.id(i).RID)
				}
				k++
				if i == run[1] {
					break
				}
			}
		}
		if k != len(q.IDs) {
			return fmt.Sprintf("ids: got %d ids expected %d (first extra (%d,%d))", len(q.IDs), k, q.IDs[k].ID.MID, q.IDs[k].ID.RID)
		}
	}
	if (p.Wt || p.T != "s") && q.Total != uint64(x.Total) {
		return fmt.Sprintf("total: got %d expected %d", q.Total, x.Total)
	}
	if !p.Wt && p.T == "s" && q.Total != 0 {
		return fmt.Sprintf("total: got %d without with-total", q.Total)
	}
	if p.T == "h" {
		if len(q.Histogram) != len(x.Hist) {
			return fmt.Sprintf("histogram: got %d buckets expected %d: %v", len(q.Histogram), len(x.Hist), q.Histogram)
		}
		for _, b := range x.Hist {
			if got := q.Histogram[seq.MID(c.base+uint64(b[0]))]; got != uint64(b[1]) {
				return fmt.Sprintf("histogram[base+%d]: got %d expected %d", b[0], got, b[1])
			}
		}
	}
	if p.T == "a" {
		return c.compareAgg(p, x, q)
	}
	return ""
}

// ---------------------------------------------------------------- running one case

type runner struct {
	c       *Case
	cp      *corpus
	e       *env.Env
	reports int

	evictEvery int
}

func (r *runner) report(form, path string, pi int, what string, probe json.RawMessage, exp any) {
	r.reports++
	if r.reports > *maxRep {
		return
	}
	emit(map[string]any{"n": r.c.N, "i": r.c.I, "form": form, "path": path, "probe": pi, "what": what, "p": probe, "exp": exp,
		"f9": r.c.F9, "shape": r.c.Shape, "cfg": r.c.Cfg})
}

func (r *runner) dataFrac() frac.Fraction {
	for _, f := range r.e.FM().GetAllFracs() {
		if f.Info().DocsTotal > 0 {
			return f
		}
	}
	return nil
}

func safely(fn func() string) (res string) {
	defer func() {
		if p := recover(); p != nil {
			res = fmt.Sprintf("panic: %v", p)
		}
	}()
	return fn()
}

func (r *runner) probeAll(form string) {
	r.probe(form, false)
}

// probe asks every probe of the data fraction; fracOnly leaves out the paths that go over all fractions of the store
func (r *runner) probe(form string, fracOnly bool) {
	f := r.dataFrac()
	if f == nil {
		r.report(form, "frac", -1, "no fraction with documents", nil, nil)
		return
	}
	seen := map[string]bool{}
	fetchViaGrpc := !fracOnly
	for pi := range r.c.Probes {
		pe := &r.c.Probes[pi]
		key := string(pe.P)
		if seen[key] {
			continue
		}
		seen[key] = true
		p := &pe.p
		if r.evictEvery > 0 && len(seen)%r.evictEvery == 0 {
			r.e.ResetCache()
		}
		if p.T == "f" {
			ids := make([]seq.ID, len(p.Ids))
			for k, x := range p.Ids {
				ids[k] = seq.ID{MID: seq.MID(r.cp.base + uint64(x[0])), RID: seq.RID(x[1])}
			}
			check := func(docs [][]byte) string {
				if len(docs) != len(ids) {
					return fmt.Sprintf("fetch: got %d entries for %d ids", len(docs), len(ids))
				}
				for k, d := range pe.Exp.Docs {
					if d == 0 {
						if len(docs[k]) != 0 {
							return fmt.Sprintf("fetch[%d]: absent id (%d,%d) answered %q", k, ids[k].MID, ids[k].RID, trunc(docs[k]))
						}
					} else if !bytes.Equal(docs[k], r.cp.body(d)) {
						return fmt.Sprintf("fetch[%d]: id (%d,%d) answered %q expected document %d", k, ids[k].MID, ids[k].RID, trunc(docs[k]), d)
					}
				}
				return ""
			}
			what := safely(func() string {
				dp, release := f.DataProvider(context.Background())
				defer release()
				docs, err := dp.Fetch(ids)
				if err != nil {
					return "fetch error: " + err.Error()
				}
				return check(docs)
			})
			evals.Add(1)
			if what != "" {
				r.report(form, "dataprovider", pi, what, pe.P, pe.Exp.Docs)
			}
			if fetchViaGrpc { // one list per form also through GrpcV1.Fetch (docsStream, all fractions)
				fetchViaGrpc = false
				what = safely(func() string {
					docs, _, err := r.e.Fetch(ids, nil)
					if err != nil {
						return "fetch error: " + err.Error()
					}
					return check(docs)
				})
				evals.Add(1)
				if what != "" {
					r.report(form, "grpc", pi, what, pe.P, pe.Exp.Docs)
				}
			}
			continue
		}
		if pe.Exp.Total > 0 || len(pe.Exp.Ids) > 0 {
			nontriv.Add(1)
		}
		t0 := time.Now()
		what := safely(func() string {
			q, err := env.FracSearch(f, r.cp.params(p))
			if err != nil {
				return "search error: " + err.Error()
			}
			return r.cp.compareQPR(p, &pe.Exp, q)
		})
		if d := time.Since(t0); *slowMs > 0 && d > time.Duration(*slowMs)*time.Millisecond {
			fmt.Fprintf(os.Stderr, "SLOW shape %d form %s probe %d %v: %s\n", r.c.I, form, pi, d, trunc2(pe.P, 200))
		}
		evals.Add(1)
		if what != "" {
			r.report(form, "dataprovider", pi, what, pe.P, pe.Exp)
		}
		if pi%3 == 0 && !fracOnly { // the same request through the real Searcher over every fraction of the store
			what = safely(func() string {
				res, err := env.SearchFracs(r.e.FM().GetAllFracs(), 2, r.cp.params(p))
				if err != nil {
					return "search error: " + err.Error()
				}
				return r.cp.compareQPR(p, &pe.Exp, res.QPR)
			})
			evals.Add(1)
			if what != "" {
				r.report(form, "searcher", pi, what, pe.P, pe.Exp)
			}
		}
	}
}

func trunc2(b []byte, n int) string {
	if len(b) > n {
		return string(b[:n]) + "..."
	}
	return string(b)
}

func trunc(b []byte) string {
	if len(b) > 40 {
		return string(b[:40]) + "..."
	}
	return string(b)
}

// checkLayout reads the sealed fraction's .index back with the real readers and compares it with the
// layout IndexLayout.tla predicts.
func (r *runner) checkLayout() {
	files, _ := filepath.Glob(filepath.Join(r.e.O.Dir, "*.index"))
	if len(files) != 1 {
		r.report("sealed", "layout", -1, fmt.Sprintf("expected one .index file, found %d", len(files)), nil, nil)
		return
	}
	fh, err := os.Open(files[0])
	if err != nil {
		r.report("sealed", "layout", -1, "open: "+err.Error(), nil, nil)
		return
	}
	defer fh.Close()
	rl := disk.NewReadLimiter(1, prometheus.NewCounter(prometheus.CounterOpts{Name: "verif_reads"}))
	reader := disk.NewIndexReader(rl, fh, cache.NewCache[[]byte](nil, nil))
	L := &r.c.Layout
	bad := func(what string, a ...any) {
		r.report("sealed", "layout", -1, fmt.Sprintf(what, a...), nil, nil)
	}
	hdr := func(i uint32) disk.IndexBlockHeader {
		h, err := reader.GetBlockHeader(i)
		if err != nil {
			panic(err)
		}
		return h
	}
	what := safely(func() string {
		i := uint32(1)
		ntok := 0
		for ; hdr(i).Len() > 0; i++ { // tokens blocks
			ntok++
		}
		i++
		if ntok != L.TokBlocks {
			bad("tokens blocks: file has %d, model predicts %d", ntok, L.TokBlocks)
		}
		for ; hdr(i).Len() > 0; i++ { // token table blocks
		}
		i++
		i++ // positions block
		var minIDs []seq.ID
		for hdr(i).Len() > 0 { // (MIDs, RIDs, positions) triples; the MIDs header carries the block's min ID
			minIDs = append(minIDs, seq.ID{MID: seq.MID(hdr(i).GetExt1()), RID: seq.RID(hdr(i).GetExt2())})
			i += 3
		}
		i++
		if len(minIDs) != len(L.IdBlocks) {
			bad("id blocks: file has %d, model predicts %d", len(minIDs), len(L.IdBlocks))
		} else {
			for k, d := range L.IdBlocks {
				want := r.cp.id(d)
				if d == 0 {
					want = seq.ID{MID: ^seq.MID(0), RID: ^seq.RID(0)}
				}
				if minIDs[k] != want {
					bad("id block %d: registry min ID (%d,%d), model predicts document %d = (%d,%d)", k, minIDs[k].MID, minIDs[k].RID, d, want.MID, want.RID)
					break
				}
			}
		}
		loader := lids.NewLoader(&reader, cache.NewCache[*lids.Chunks](nil, nil))
		nl := 0
		for ; hdr(i).Len() > 0; i++ { // LID blocks: ext1 = IsContinued, ext2 = MaxTID<<32 | MinTID
			h := hdr(i)
			if nl < len(L.Lids) {
				w := L.Lids[nl]
				cont := 0
				if h.GetExt1() == 1 {
					cont = 1
				}
				minT, maxT := int(uint32(h.GetExt2())), int(h.GetExt2()>>32)
				if minT != w[0] || maxT != w[1] || cont != w[2] {
					bad("lid block %d: file has (min %d, max %d, continued %d), model predicts (%d, %d, %d)", nl, minT, maxT, cont, w[0], w[1], w[2])
				}
				ch, err := loader.GetLIDsChunks(i)
				if err != nil {
					bad("lid block %d: %v", nl, err)
				} else if len(ch.Offsets)-1 != w[3] || len(ch.LIDs) != w[4] {
					bad("lid block %d: unpacked %d chunks / %d lids, model predicts %d / %d", nl, len(ch.Offsets)-1, len(ch.LIDs), w[3], w[4])
				}
			}
			nl++
		}
		if nl != len(L.Lids) {
			bad("lid blocks: file has %d, model predicts %d", nl, len(L.Lids))
		}
		tbl := token.NewTableLoader(files[0], &reader, cache.NewCache[token.Table](nil, nil)).Load()
		if len(tbl) != len(L.Table) {
			bad("token table: file has %d fields, model predicts %d", len(tbl), len(L.Table))
		}
		for _, tf := range L.Table {
			fd := tbl[tf.Name]
			if fd == nil {
				bad("token table: field %q missing", tf.Name)
				continue
			}
			if fd.MinVal != r.cp.tokenAt(tf.Name, 1) {
				bad("token table %q: MinVal %q, expected %q", tf.Name, trunc([]byte(fd.MinVal)), trunc([]byte(r.cp.tokenAt(tf.Name, 1))))
			}
			if len(fd.Entries) != len(tf.Entries) {
				bad("token table %q: %d entries, model predicts %d", tf.Name, len(fd.Entries), len(tf.Entries))
				continue
			}
			for k, w := range tf.Entries {
				g := fd.Entries[k]
				if int(g.StartTID) != w[0] || int(g.ValCount) != w[1] || int(g.StartIndex) != w[2] || int(g.BlockIndex) != w[3] ||
					g.MaxVal != r.cp.tokenAt(tf.Name, w[4]) {
					bad("token table %q entry %d: file has (tid %d, count %d, start %d, block %d, max %q), model predicts (%d, %d, %d, %d, %q)",
						tf.Name, k, g.StartTID, g.ValCount, g.StartIndex, g.BlockIndex, trunc([]byte(g.MaxVal)), w[0], w[1], w[2], w[3],
						trunc([]byte(r.cp.tokenAt(tf.Name, w[4]))))
					break
				}
			}
		}
		return ""
	})
	layouts.Add(1)
	if what != "" {
		bad("reading the index back: %s", what)
	}
}

const (
	tinyCache  = 64 << 10
	midCache   = 1 << 20
	largeCache = 256 << 20
)

// docBlock: shapes with an odd index write sorted documents in blocks of 4 KiB (many document blocks per
// fraction), the others keep the default block size
func (r *runner) docBlock(c *storeapi.StoreConfig) {
	if r.c.I%2 == 1 {
		c.FracManager.SealParams.DocBlockSize = 4096
	}
}

func (r *runner) reopen(class string) error {
	r.evictEvery = 0
	if class == "tiny" || class == "mid" {
		r.e.O.CacheSize = tinyCache
		if class == "mid" {
			r.e.O.CacheSize = midCache
		}
		return r.e.ReopenWith(func(c *storeapi.StoreConfig) {
			c.FracManager.CacheCleanupDelay = time.Millisecond // the real cleaning loop: constant eviction
			c.FracManager.CacheGCDelay = 4 * time.Millisecond
			r.docBlock(c)
		})
	}
	r.e.O.CacheSize = largeCache
	r.evictEvery = 16 // no cleaner loop: every 16th probe starts from emptied caches (ResetCacheForTests)
	return r.e.ReopenWith(r.docBlock)
}

// sealAnother puts a second fraction beside the sealed one and seals it in the same process: the freshly sealed
// object of the first fraction must not share anything with the sealing of the next one (pooled writers and
// buffers). The second fraction's documents match none of the probes' fetch IDs; it is deleted afterwards.
func (r *runner) sealAnother() string {
	var bulk []env.Doc
	for i := 0; i < 120; i++ {
		bulk = append(bulk, env.Doc{MID: r.cp.base + 5_000_000 + uint64(i), RID: uint64(9_000_000 + i), Tok: map[string][]string{"x": {"2"}},
			Body: fmt.Sprintf(`{"other":%d,"pad":"%s"}`, i, strings.Repeat("y", 300+i*7%400))})
	}
	if err := r.e.Bulk(bulk); err != nil {
		return "bulk into the next fraction failed: " + err.Error()
	}
	r.e.WaitIdle()
	if what := safely(func() string { r.e.Seal(); return "" }); what != "" {
		return "sealing the next fraction panicked: " + what
	}
	return ""
}

// fetchSpread fetches documents spread over the whole fraction (the newest ones, which sit in the first document
// blocks of the sorted file, the oldest ones and a stride in between) and compares them with the bytes ingested.
func (r *runner) fetchSpread(form string, f frac.Fraction) {
	n := r.cp.s.N
	var idx []int
	for i := n; i >= 1 && len(idx) < 60; i -= 1 + (n-i)/6 {
		idx = append(idx, i)
	}
	for i := 1; i <= n && len(idx) < 90; i += 1 + n/40 {
		idx = append(idx, i)
	}
	ids := make([]seq.ID, len(idx))
	for k, i := range idx {
		ids[k] = r.cp.id(i)
	}
	what := safely(func() string {
		dp, release := f.DataProvider(context.Background())
		defer release()
		docs, err := dp.Fetch(ids)
		if err != nil {
			return "fetch error: " + err.Error()
		}
		for k, i := range idx {
			if !bytes.Equal(docs[k], r.cp.body(i)) {
				return fmt.Sprintf("fetch: id (%d,%d) answered %q expected document %d", ids[k].MID, ids[k].RID, trunc(docs[k]), i)
			}
		}
		return ""
	})
	evals.Add(1)
	if what != "" {
		r.report(form, "dataprovider", -2, what, nil, nil)
	}
}

func (r *runner) dropOthers(keep frac.Fraction) {
	for _, f := range r.e.FM().GetAllFracs() {
		if f != keep && f.Info().DocsTotal > 0 {
			f.Suicide()
		}
	}
}

// one process-wide hook (workers seal concurrently): at the sync of a fraction's ._index file the callback registered
// for that fraction's data directory runs
var sealProbes sync.Map

func init() {
	verifhook.Set(func(point string, obj any, a, b int64) {
		if name, _ := obj.(string); point == "file.sync" && strings.HasSuffix(name, "._index") {
			if f, ok := sealProbes.Load(filepath.Dir(name)); ok {
				f.(func())()
			}
		}
	})
}

func runCase(c *Case) {
	base := uint64(1_000_000)
	if c.I%2 == 1 {
		base = 1_700_000 * 1_000_000
	}
	r := &runner{c: c, cp: &corpus{s: c.Shape, base: base}}
	mark := func(form string, begin bool) {
		if *progress {
			if begin {
				emit(map[string]any{"begin": c.N, "form": form})
			} else {
				emit(map[string]any{"end": c.N, "form": form})
			}
		}
	}
	mark("setup", true)
	mapping := seq.Mapping{}
	for _, f := range []string{"k", "g", "u", "x"} {
		mapping[f] = seq.NewSingleType(seq.TokenizerTypeKeyword, "", 0)
	}
	e, err := env.New(env.Opts{SkipFsync: true, SkipSortDocs: c.Cfg.SkipSort, ZstdLevel: c.Cfg.Zstd, Mapping: mapping})
	if err != nil {
		emit(map[string]any{"infra": "env: " + err.Error()})
		return
	}
	r.e = e
	abandoned := false // a store whose seal panicked cannot be closed (its fraction stays locked): leave it
	defer func() {
		if abandoned {
			os.RemoveAll(r.e.O.Dir)
		} else {
			r.e.Close()
		}
	}()
	e.Halt()
	if err := r.reopen(c.Cfg.Cache); err != nil {
		emit(map[string]any{"infra": "reopen: " + err.Error()})
		return
	}
	if err := ingest(e, r.cp, c.Cfg, c.I+c.C); err != nil {
		emit(map[string]any{"infra": "bulk: " + err.Error()})
		return
	}
	e.WaitIdle()
	mark("setup", false)
	other := "tiny" // the restart with a resized cache
	if c.Cfg.Cache == "tiny" {
		other = "large"
	}
	for _, form := range strings.Split(*formsF, ",") {
		mark(form, true)
		switch form {
		case "active":
		case "sealed":
			// SealForcedForTests seals in the calling goroutine, so a panic of the sealer can be observed here
			// (in a running store it happens in the maintenance goroutine and kills the process).
			// while the seal is running the fraction still answers from its active form (proxyFrac serves the active
			// fraction until the sealed copy is published): at the moment the index file is complete (hook between its
			// sync and its rename) the active form is asked again - sealing must not have touched what it serves
			var during atomic.Bool
			sealProbes.Store(r.e.O.Dir, func() {
				if during.CompareAndSwap(false, true) {
					r.probe("active-during-seal", true)
				}
			})
			sealWhat := safely(func() string { e.Seal(); return "" })
			sealProbes.Delete(r.e.O.Dir)
			if what := sealWhat; what != "" {
				abandoned = true
				again := "not retried"
				if err := r.reopen(c.Cfg.Cache); err == nil { // what a restart after the crash does
					again = safely(func() string { r.e.Seal(); return "" })
					if again == "" {
						again = "second seal succeeded"
					}
				}
				r.report(form, "seal", -1, "sealing panicked: "+what+"; after a restart (fraction replayed): "+again, nil, nil)
				mark(form, false)
				return
			}
			r.checkLayout()
		case "sealed2":
			// the freshly sealed fraction once more, after ANOTHER fraction was sealed in the same process
			first := r.dataFrac()
			if what := r.sealAnother(); what != "" {
				r.report(form, "seal", -1, what, nil, nil)
				return
			}
			r.probe(form, true)
			r.fetchSpread(form, first)
			r.dropOthers(first)
			mark(form, false)
			continue
		case "reloaded":
			e.Halt()
			if err := r.reopen(c.Cfg.Cache); err != nil {
				r.report(form, "restart", -1, "restart failed: "+err.Error(), nil, nil)
				return
			}
		case "recached":
			e.Halt()
			if err := r.reopen(other); err != nil {
				r.report(form, "restart", -1, "restart failed: "+err.Error(), nil, nil)
				return
			}
		}
		r.probeAll(form)
		mark(form, false)
	}
}

func main() {
	flag.Parse()
	sc := bufio.NewScanner(os.Stdin)
	sc.Buffer(make([]byte, 1<<20), 1<<28)
	var all []*Case
	for sc.Scan() {
		line := sc.Text()
		if !strings.HasPrefix(line, "{") {
			continue
		}
		c := &Case{N: len(all)}
		if err := json.Unmarshal([]byte(line), c); err != nil {
			emit(map[string]any{"infra": "bad case: " + err.Error()})
			os.Exit(3)
		}
		for k := range c.Probes {
			if err := json.Unmarshal(c.Probes[k].P, &c.Probes[k].p); err != nil {
				emit(map[string]any{"infra": "bad probe: " + err.Error()})
				os.Exit(3)
			}
		}
		all = append(all, c)
	}
	w := *workers
	if *progress {
		w = 1
	}
	ch := make(chan *Case)
	var wg sync.WaitGroup
	for k := 0; k < w; k++ {
		wg.Add(1)
		go func() {
			defer wg.Done()
			for c := range ch {
				runCase(c)
			}
		}()
	}
	for _, c := range all {
		ch <- c
	}
	close(ch)
	wg.Wait()
	emit(map[string]any{"summary": true, "cases": len(all), "evals": evals.Load(), "nontrivial": nontriv.Load(), "corpora": layouts.Load()})
}
