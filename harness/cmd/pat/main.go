// pat replays Pattern.tla cases into pattern.Search (unordered and ordered providers) and into the
// sealed-fraction dictionary path token.Table.SelectEntries -> token.Provider -> pattern.Search.
package main

import (
	"bufio"
	"context"
	"encoding/binary"
	"encoding/json"
	"flag"
	"fmt"
	"os"
	"reflect"
	"sort"
	"strings"

	"github.com/ozontech/seq-db/cache"
	"github.com/ozontech/seq-db/frac/token"
	"github.com/ozontech/seq-db/parser"
	"github.com/ozontech/seq-db/pattern"

	"verifharness/cases"
)

type Tok struct {
	K     string      `json:"k"`
	Terms []cases.Str `json:"terms"`
	Lo    cases.Str   `json:"lo"`
	Hi    cases.Str   `json:"hi"`
	ILo   bool        `json:"ilo"`
	IHi   bool        `json:"ihi"`
}

type Case struct {
	Dict   []cases.Str `json:"dict"`
	Layout []int       `json:"layout"`
	Tok    Tok         `json:"tok"`
	Exp    []cases.Str `json:"exp"`
}

type sliceProvider struct {
	toks    [][]byte
	ordered bool
}

func (p *sliceProvider) GetToken(tid uint32) []byte { return p.toks[tid-1] }
func (p *sliceProvider) FirstTID() uint32           { return 1 }
func (p *sliceProvider) LastTID() uint32            { return uint32(len(p.toks)) }
func (p *sliceProvider) Ordered() bool              { return p.ordered }

// str renders a model string. The model's alphabet is bytes: the two symbols X and Y stand for the bytes 0xC3 and
// 0xA9 (X Y = the 2-byte character e-acute), so that dictionary borders and hints can fall inside a character.
func str(s cases.Str) string {
	b := []byte(s.String())
	for i := range b {
		switch b[i] {
		case 'X':
			b[i] = 0xC3
		case 'Y':
			b[i] = 0xA9
		}
	}
	return string(b)
}

func term(s cases.Str) parser.Term {
	if s.IsStar() {
		return parser.Term{Kind: parser.TermSymbol, Data: "*"}
	}
	return parser.Term{Kind: parser.TermText, Data: str(s)}
}

func (t Tok) token() parser.Token {
	if t.K == "lit" {
		l := &parser.Literal{Field: "f"}
		for _, x := range t.Terms {
			l.Terms = append(l.Terms, term(x))
		}
		return l
	}
	return &parser.Range{Field: "f", From: term(t.Lo), To: term(t.Hi), IncludeFrom: t.ILo, IncludeTo: t.IHi}
}

func emit(v any) {
	b, _ := json.Marshal(v)
	os.Stdout.Write(append(b, '\n'))
}

func collect(tids []uint32, get func(uint32) []byte) []string {
	out := make([]string, 0, len(tids))
	for _, t := range tids {
		out = append(out, string(get(t)))
	}
	sort.Strings(out)
	return out
}

func sealedPath(dict [][]byte, layout []int, tk parser.Token) (res []string, err error) {
	defer func() {
		if r := recover(); r != nil {
			err = fmt.Errorf("panic: %v", r)
		}
	}()
	c := cache.NewCache[*token.CacheEntry](nil, nil)
	fd := &token.FieldData{MinVal: string(dict[0])}
	pos := 0
	for bi, n := range layout {
		var payload, offsets []byte
		for _, v := range dict[pos : pos+n] {
			offsets = binary.LittleEndian.AppendUint32(offsets, uint32(len(payload)))
			payload = binary.LittleEndian.AppendUint32(payload, uint32(len(v)))
			payload = append(payload, v...)
		}
		e := &token.TableEntry{StartIndex: 0, StartTID: uint32(pos + 1), BlockIndex: uint32(bi + 1), ValCount: uint32(n), MaxVal: string(dict[pos+n-1])}
		if bi == 0 {
			e.MinVal = fd.MinVal
		}
		fd.Entries = append(fd.Entries, e)
		ce := &token.CacheEntry{Block: payload, Offset: offsets}
		c.Get(uint32(bi+1), func() (*token.CacheEntry, int) { return ce, ce.GetSize() })
		pos += n
	}
	tbl := token.Table{"f": fd}
	entries := tbl.SelectEntries("f", parser.GetHint(tk))
	if len(entries) == 0 {
		return []string{}, nil
	}
	tp := token.NewProvider(token.NewBlockLoader("verif", nil, c), entries)
	tids, err := pattern.Search(context.Background(), tk, tp)
	if err != nil {
		return nil, err
	}
	return collect(tids, tp.GetToken), nil
}

func main() {
	progress := flag.Bool("progress", false, "")
	flag.Int("workers", 1, "")
	flag.Parse()
	sc := bufio.NewScanner(os.Stdin)
	sc.Buffer(make([]byte, 1<<20), 1<<26)
	n, evals, nontriv := 0, 0, 0
	for sc.Scan() {
		line := sc.Text()
		if !strings.HasPrefix(line, "{") {
			continue
		}
		var c Case
		if err := json.Unmarshal([]byte(line), &c); err != nil {
			emit(map[string]any{"infra": "bad case " + err.Error()})
			os.Exit(3)
		}
		if *progress {
			emit(map[string]any{"begin": n})
		}
		exp := make([]string, 0, len(c.Exp))
		for _, s := range c.Exp {
			exp = append(exp, str(s))
		}
		sort.Strings(exp)
		if len(exp) > 0 && len(exp) < len(c.Dict) {
			nontriv++
		}
		dict := make([][]byte, len(c.Dict))
		for i, s := range c.Dict {
			dict[i] = []byte(str(s))
		}
		// unordered: reversed + rotated order
		un := make([][]byte, 0, len(dict))
		for i := len(dict) - 1; i >= 0; i-- {
			un = append(un, dict[i])
		}
		if len(un) > 2 {
			un = append(un[1:], un[0])
		}
		check := func(path string, got []string, err error) {
			evals++
			if err != nil {
				emit(map[string]any{"n": n, "path": path, "what": "error: " + err.Error()})
				return
			}
			if !reflect.DeepEqual(got, exp) {
				emit(map[string]any{"n": n, "path": path, "what": "token set", "got": got, "exp": exp})
			}
		}
		func() {
			defer func() {
				if r := recover(); r != nil {
					emit(map[string]any{"n": n, "path": "search", "what": fmt.Sprintf("panic: %v", r)})
				}
			}()
			p1 := &sliceProvider{toks: un}
			tids, err := pattern.Search(context.Background(), c.Tok.token(), p1)
			check("unordered", collect(tids, p1.GetToken), err)
			p2 := &sliceProvider{toks: dict, ordered: true}
			tids, err = pattern.Search(context.Background(), c.Tok.token(), p2)
			check("ordered", collect(tids, p2.GetToken), err)
		}()
		got, err := sealedPath(dict, c.Layout, c.Tok.token())
		check("sealed-table", got, err)
		if *progress {
			emit(map[string]any{"end": n})
		}
		n++
	}
	emit(map[string]any{"summary": true, "cases": n, "evals": evals, "nontrivial": nontriv, "corpora": 0})
}
