// storetrace records whole-store histories for StoreTrace.tla (trace validation against Store.tla).
//
// A run is a sequence of phases; every phase is a separate OS process (this binary re-executed) that
// opens a real store on the run's data directory, performs seeded random operations (bulks,
// maintenance passes that rotate / seal / apply retention, observations, graceful stop) and may be
// killed at the N-th verif hook point (os.Exit inside the hook: a real process death - all
// goroutines stop where they are, the files stay as the page cache has them). The next phase
// restarts over whatever was left. Events are appended to one ndjson log at their linearization
// points (hooks fire under the lock that protects the change): rotate, seal (published), shift
// (popped by retention), delbegin (first rename to *.del), bulkbegin / bulk (acknowledged), crash,
// load / loadend, stopbegin / stopend and obs = the full abstract state read back from the real
// store: for every listed fraction its id, the bulks it serves and whether it is sealed on disk.
//
// Independently of the model the driver checks at every observation that the public search / fetch
// path agrees with the per-fraction picture, every bulk is wholly present or wholly absent, every
// document is found by its own token and fetched byte for byte.
package main

import (
	"bytes"
	"encoding/json"
	"flag"
	"fmt"
	"math/rand"
	"os"
	"os/exec"
	"path/filepath"
	"runtime"
	"sort"
	"strconv"
	"strings"
	"sync"
	"sync/atomic"
	"time"

	"github.com/ozontech/seq-db/frac"
	"github.com/ozontech/seq-db/seq"
	"github.com/ozontech/seq-db/verifhook"

	"verifharness/cases"
	"verifharness/env"
)

var (
	fRuns     = flag.Int("runs", 0, "parent mode: number of runs")
	fFirst    = flag.Int("first", 0, "parent mode: index of the first run (to reproduce one run of a batch)")
	fPhases   = flag.Int("phases", 4, "")
	fSeed     = flag.Int("seed", 1, "")
	fOut      = flag.String("out", "store.ndjson", "parent mode: concatenated trace")
	fWork     = flag.String("work", "", "parent mode: scratch directory")
	fProcs    = flag.Int("procs", 8, "")
	fScenario = flag.String("scenario", "", "slowseal: forced schedule (older fraction still sealing while a newer one is sealed, then crash)")

	fChild   = flag.Bool("child", false, "")
	fDir     = flag.String("dir", "", "")
	fLog     = flag.String("log", "", "")
	fPhase   = flag.Int("phase", 0, "")
	fOps     = flag.Int("ops", 12, "")
	fCrashAt = flag.Int("crashat", 0, "")
	fSlow    = flag.Bool("slow", false, "park the first sealer of this phase")
	fTotal   = flag.Uint64("total", 6000, "")
	fFrac    = flag.Uint64("fracsize", 300, "")
	fSkip    = flag.Bool("skipsort", false, "")
)

// ---------------------------------------------------------------- event log (child)

type frRec struct {
	ID     int   `json:"id"`
	Bulks  []int `json:"bulks"`
	Sealed int   `json:"sealed"` // 1 / 0 / -1 unknown (seal may be in flight)
}
type event struct {
	Ev   string  `json:"ev"`
	F    int     `json:"f"`
	B    int     `json:"b"`
	O    []frRec `json:"o"`
	Name string  `json:"name"`
	Ph   int     `json:"ph"`
}

var (
	logMu      sync.Mutex
	logF       *os.File
	names      []string // fraction names in creation order; id = index + 1
	nextB      = 1
	hooks      int
	loadEnded  bool
	mainGo     int64
	activeName string
	delBegun   = map[string]bool{}
	violations []map[string]any

	allocMu     sync.Mutex
	phaseFirstB = 1            // bulks below were settled by the restart of this phase
	ackedNow    = map[int]bool{} // bulks acknowledged in this phase
)

func allocBulk() int {
	allocMu.Lock()
	defer allocMu.Unlock()
	b := nextB
	nextB++
	return b
}

func markAcked(b int) {
	allocMu.Lock()
	ackedNow[b] = true
	allocMu.Unlock()
}

// reportable: the bulk is settled - acknowledged in this phase, or begun before this phase's restart
// (a bulk still in flight may become visible at any moment and is not part of the abstract state yet)
func reportable(b int) bool {
	allocMu.Lock()
	defer allocMu.Unlock()
	return b < phaseFirstB || ackedNow[b]
}

// concurrentBulks: several goroutines send bulks; Store.WaitIdle (a WaitGroup.Wait that races with the Add
// of the next bulk) must then not be used - observations wait for the indexer instead
var concurrentBulks bool

// The bulker goroutines may not outrun the maintenance passes: a fraction that grows beyond TotalSize on
// its own would be popped by retention in the very pass that rotates it, while bulks are still being
// indexed into it - a degenerate configuration (TotalSize below one fraction) that production rules out
// and that the listed properties do not quantify over. sinceMaint counts the bulks since the last pass.
var (
	sinceMaint atomic.Int64
	maintOver  atomic.Bool
)

func doBulk(e *env.Env) {
	b := allocBulk()
	logEv(event{Ev: "bulkbegin", B: b})
	if err := e.Bulk(bulkDocs(b)); err != nil {
		viol("bulk failed: "+err.Error(), nil)
		os.Exit(0)
	}
	if !concurrentBulks {
		e.WaitIdle()
	}
	markAcked(b)
	logEv(event{Ev: "bulk", B: b})
}

var evSeq int

func put(e event) { // logMu held
	evSeq++
	if e.O == nil {
		e.O = []frRec{}
	}
	e.Ph = *fPhase
	b, _ := json.Marshal(e)
	logF.Write(append(b, '\n'))
}

func logEv(e event) {
	logMu.Lock()
	defer logMu.Unlock()
	put(e)
}

func idOf(name string) int {
	for i, n := range names {
		if n == name {
			return i + 1
		}
	}
	return 99
}

func goid() int64 {
	var buf [64]byte
	n := runtime.Stack(buf[:], false)
	f := strings.Fields(string(buf[:n]))
	if len(f) < 2 {
		return -1
	}
	v, _ := strconv.ParseInt(f[1], 10, 64)
	return v
}

func fracOfPath(p string) string {
	b := filepath.Base(p)
	if i := strings.IndexByte(b, '.'); i >= 0 {
		return b[:i]
	}
	return b
}

var (
	gateMu   sync.Mutex
	gateUsed bool
	gate     chan struct{}
	parked   = make(chan string, 1)
)

func observer(point string, obj any, a, b int64) {
	s, _ := obj.(string)
	g := goid()
	logMu.Lock()
	hooks++
	ensureLoadEnd := func() {
		// Load's own seals and rotation run in the goroutine that opens the store; anything from another
		// goroutine belongs to the maintenance pass that FracManager.Start launches after Load
		if !loadEnded && g != mainGo {
			loadEnded = true
			put(event{Ev: "loadend"})
		}
	}
	switch point {
	case "fm.rotate":
		ensureLoadEnd()
		name := filepath.Base(s)
		names = append(names, name)
		activeName = name
		put(event{Ev: "rotate", F: len(names), Name: name})
	case "fm.shift":
		ensureLoadEnd()
		put(event{Ev: "shift", F: idOf(s), Name: s})
		if s == activeName {
			// retention removed the active fraction: the store cannot go on (nor stop) - the process ends here
			put(event{Ev: "crash"})
			os.Exit(77)
		}
	case "pf.publish":
		ensureLoadEnd()
		put(event{Ev: "seal", F: idOf(filepath.Base(s)), Name: filepath.Base(s)})
	case "pf.released":
		ensureLoadEnd()
		put(event{Ev: "released", F: idOf(filepath.Base(s)), Name: filepath.Base(s)})
	case "file.remove":
		// the last steps of a deletion (Sealed.Suicide removes *.index.del last, Active.Suicide *.docs.del): the deletion
		// has run to its end - whatever path it believed the files to have
		if strings.HasSuffix(s, ".index.del") || strings.HasSuffix(s, ".docs.del") {
			ensureLoadEnd()
			fr := fracOfPath(s)
			put(event{Ev: "delend", F: idOf(fr), Name: fr})
		}
	case "file.rename":
		// the hook also fires after a rename that found nothing to rename (no .docs next to .sdocs):
		// the deletion has begun on disk when the *.del file really exists
		if strings.HasSuffix(s, ".del") && env.FileSize(s) >= 0 {
			fr := fracOfPath(s)
			if !delBegun[fr] {
				delBegun[fr] = true
				ensureLoadEnd()
				put(event{Ev: "delbegin", F: idOf(fr), Name: fr})
			}
		}
	}
	if *fCrashAt > 0 && hooks == *fCrashAt {
		put(event{Ev: "crash"})
		os.Exit(77)
	}
	logMu.Unlock()
	if point == "pf.idle" && *fSlow && g != mainGo {
		gateMu.Lock()
		mine := !gateUsed
		gateUsed = true
		gateMu.Unlock()
		if mine {
			select {
			case parked <- filepath.Base(s):
			default:
			}
			<-gate
		}
	}
}

// ---------------------------------------------------------------- documents

func bulkSize(b int) int { return 1 + (b*7+*fSeed)%3 }

func docOf(b, i int) env.Doc {
	return env.Doc{MID: uint64(1000 + b), RID: uint64(b*100 + i),
		Tok:  map[string][]string{"k": {fmt.Sprintf("b%d", b)}, "n": {fmt.Sprintf("d%d_%d", b, i)}},
		Body: fmt.Sprintf(`{"b":%d,"i":%d,"pad":"%s"}`, b, i, strings.Repeat("x", 40+(b*13+i*29)%90))}
}

func bulkDocs(b int) []env.Doc {
	var ds []env.Doc
	for i := 0; i < bulkSize(b); i++ {
		ds = append(ds, docOf(b, i))
	}
	return ds
}

func viol(what string, extra map[string]any) {
	m := map[string]any{"n": *fSeed, "phase": *fPhase, "what": what}
	for k, v := range extra {
		m[k] = v
	}
	b, _ := json.Marshal(m)
	fmt.Println(string(b))
}

// ---------------------------------------------------------------- observation

func allParams() env.Params {
	return env.Params{From: 0, To: 1 << 40, Limit: 10000, Order: "desc", WithTotal: true}
}

// observe reads the abstract state back; the reading is not atomic, so it is repeated until no event
// was logged while it was taken (background seals / deletions of a maintenance pass may be finishing).
func observe(e *env.Env, quiet bool) {
	for try := 0; try < 50; try++ {
		logMu.Lock()
		start := evSeq
		logMu.Unlock()
		var buf []map[string]any
		recs := observeOnce(e, &buf)
		// an acknowledged bulk is indexed in the background (a rotation may have overtaken it, so that waiting
		// for the current writer is not enough): give the indexer up to a second before the reading counts
		if try < 40 && missingAcked(recs) {
			time.Sleep(25 * time.Millisecond)
			continue
		}
		logMu.Lock()
		if evSeq == start {
			for _, v := range buf {
				b, _ := json.Marshal(v)
				fmt.Println(string(b))
			}
			put(event{Ev: "obs", O: recs})
			logMu.Unlock()
			return
		}
		logMu.Unlock()
		time.Sleep(2 * time.Millisecond)
	}
}

func missingAcked(recs []frRec) bool {
	seen := map[int]bool{}
	for _, r := range recs {
		for _, b := range r.Bulks {
			seen[b] = true
		}
	}
	allocMu.Lock()
	defer allocMu.Unlock()
	for b := range ackedNow {
		if !seen[b] {
			return true
		}
	}
	return false
}

func observeOnce(e *env.Env, buf *[]map[string]any) []frRec {
	viol := func(what string, extra map[string]any) {
		m := map[string]any{"n": *fSeed, "phase": *fPhase, "what": what}
		for k, v := range extra {
			m[k] = v
		}
		*buf = append(*buf, m)
	}
	all := &cases.AST{Op: "all"}
	ast, _ := all.Build()
	var recs []frRec
	union := map[[2]uint64]bool{}
	for _, f := range e.FM().GetAllFracs() {
		name := f.Info().Name()
		r, err := env.SearchFracs([]frac.Fraction{f}, 1, e.SearchParamsAST(ast, allParams()))
		if err != nil {
			viol("search of one fraction failed: "+err.Error(), map[string]any{"frac": name})
			continue
		}
		cnt := map[int]int{}
		for _, id := range r.IDs {
			if !reportable(int(id[1] / 100)) {
				continue
			}
			cnt[int(id[1]/100)]++
			if union[id] {
				viol(fmt.Sprintf("document %v served by two fractions", id), nil)
			}
			union[id] = true
		}
		rec := frRec{ID: idOf(name), Bulks: []int{}, Sealed: 0}
		for b, c := range cnt {
			if c != bulkSize(b) {
				viol(fmt.Sprintf("bulk %d is partially present in %s: %d of %d documents", b, name, c, bulkSize(b)), nil)
				b = -b
			}
			rec.Bulks = append(rec.Bulks, b)
		}
		sort.Ints(rec.Bulks)
		// published as sealed: the list holds the sealed object; certainly not published: no .index file yet
		// (the rename to .index precedes the publication); otherwise a seal is somewhere in between
		base := filepath.Join(e.O.Dir, name)
		if _, ok := f.(*frac.Sealed); ok {
			rec.Sealed = 1
		} else if env.FileSize(base+".index") >= 0 {
			rec.Sealed = -1
		}
		recs = append(recs, rec)
	}
	// the public path agrees with the per-fraction picture
	r, err := e.SearchAST(ast, allParams())
	if err != nil {
		viol("search failed: "+err.Error(), nil)
	} else {
		n := 0
		for _, id := range r.IDs {
			if reportable(int(id[1] / 100)) {
				n++
			}
		}
		if n != len(union) {
			viol(fmt.Sprintf("search over the store returns %d documents, its fractions hold %d", n, len(union)), nil)
		}
		for _, id := range r.IDs {
			if reportable(int(id[1]/100)) && !union[id] {
				viol(fmt.Sprintf("search over the store returns %v which no listed fraction holds", id), nil)
			}
		}
	}
	var ids []seq.ID
	var exp [][]byte
	var present []bool
	allocMu.Lock()
	upTo := nextB
	allocMu.Unlock()
	for b := 1; b < upTo; b++ {
		if !reportable(b) {
			continue
		}
		for i := 0; i < bulkSize(b); i++ {
			d := docOf(b, i)
			ids = append(ids, d.ID())
			exp = append(exp, d.BodyBytes())
			present = append(present, union[[2]uint64{d.MID, d.RID}])
		}
		lit := &cases.AST{Op: "lit", F: "k", Terms: []cases.Str{{"b", fmt.Sprint(b)}}}
		a, _ := lit.Build()
		rr, err := e.SearchAST(a, allParams())
		if err != nil {
			viol("token search failed: "+err.Error(), nil)
			continue
		}
		want := 0
		if union[[2]uint64{uint64(1000 + b), uint64(b * 100)}] {
			want = bulkSize(b)
		}
		if len(rr.IDs) != want {
			viol(fmt.Sprintf("search k:b%d finds %d documents, the fractions hold %d of that bulk", b, len(rr.IDs), want), nil)
		}
	}
	if len(ids) > 0 {
		docs, _, err := e.Fetch(ids, nil)
		if err != nil {
			viol("fetch failed: "+err.Error(), nil)
		} else {
			for i := range ids {
				if present[i] && !bytes.Equal(docs[i], exp[i]) {
					viol(fmt.Sprintf("fetch of %v returns %q, stored %q", ids[i], docs[i], exp[i]), nil)
				}
				if !present[i] && len(docs[i]) != 0 {
					viol(fmt.Sprintf("fetch of %v returns %q although no fraction lists the document", ids[i], docs[i]), nil)
				}
			}
		}
	}
	return recs
}

// ---------------------------------------------------------------- child

func readLog() {
	data, err := os.ReadFile(*fLog)
	if err != nil {
		return
	}
	for _, line := range bytes.Split(data, []byte("\n")) {
		var e event
		if json.Unmarshal(line, &e) != nil {
			continue
		}
		switch e.Ev {
		case "rotate":
			names = append(names, e.Name)
		case "bulkbegin":
			if e.B >= nextB {
				nextB = e.B + 1
			}
		case "delbegin":
			delBegun[e.Name] = true
		}
	}
}

func child() {
	if !verifhook.Enabled {
		fmt.Println(`{"infra":"built without -tags verif"}`)
		os.Exit(3)
	}
	readLog()
	phaseFirstB = nextB
	var err error
	logF, err = os.OpenFile(*fLog, os.O_APPEND|os.O_CREATE|os.O_WRONLY, 0o644)
	if err != nil {
		fmt.Printf(`{"infra":%q}`+"\n", err.Error())
		os.Exit(3)
	}
	mainGo = goid()
	gate = make(chan struct{})
	rng := rand.New(rand.NewSource(int64(*fSeed)*1000 + int64(*fPhase)))
	if *fPhase > 0 {
		logEv(event{Ev: "load"})
	}
	verifhook.Set(observer)
	e, err := env.New(env.Opts{Dir: *fDir, SkipFsync: true, SkipSortDocs: *fSkip, FracSize: *fFrac, TotalSize: *fTotal})
	if err != nil {
		viol("the store does not come back up: "+err.Error(), nil)
		os.Exit(0)
	}
	logMu.Lock()
	if !loadEnded {
		loadEnded = true
		put(event{Ev: "loadend"})
	}
	activeName = e.FM().Active().Info().Name()
	logMu.Unlock()
	observe(e, true)

	var sealWG, suicideWG sync.WaitGroup
	async := false // background seals / deletions may be in flight
	settle := func() {
		select {
		case <-gate:
		default:
			close(gate)
		}
		sealWG.Wait()
		suicideWG.Wait()
		async = false
	}
	// in a third of the phases the bulks come from 1-2 goroutines of their own, concurrently with the
	// maintenance passes (rotation and seal overtaking bulks in flight) and with the observations
	conc := rng.Intn(3) == 0
	concurrentBulks = conc
	var bulkers sync.WaitGroup
	if conc {
		nb := 1 + rng.Intn(2)
		per := 2 + rng.Intn(*fOps)
		for w := 0; w < nb; w++ {
			bulkers.Add(1)
			wr := rand.New(rand.NewSource(int64(*fSeed)*7919 + int64(*fPhase)*13 + int64(w)))
			go func() {
				defer bulkers.Done()
				limit := int64(*fTotal / 3 / 500)
				if limit < 1 {
					limit = 1
				}
				for i := 0; i < per; i++ {
					for sinceMaint.Load() >= limit && !maintOver.Load() {
						time.Sleep(200 * time.Microsecond)
					}
					if maintOver.Load() {
						return
					}
					sinceMaint.Add(1)
					doBulk(e)
					time.Sleep(time.Duration(wr.Intn(3000)) * time.Microsecond)
				}
			}()
		}
	}
	for op := 0; op < *fOps; op++ {
		switch x := rng.Intn(100); {
		case x < 55:
			if conc {
				time.Sleep(time.Duration(rng.Intn(4000)) * time.Microsecond)
			} else {
				doBulk(e)
			}
		case x < 85:
			e.FM().VerifMaintenancePass(&sealWG, &suicideWG)
			sinceMaint.Store(0)
			if *fSlow {
				async = true
				// give the un-gated seals and deletions of this pass time to finish, as they would between
				// two passes of the maintenance loop
				time.Sleep(time.Duration(5+rng.Intn(20)) * time.Millisecond)
			} else {
				sealWG.Wait()
				suicideWG.Wait()
			}
		case x < 95:
			observe(e, !async)
		default:
			op = *fOps
		}
	}
	maintOver.Store(true)
	if rng.Intn(3) == 0 { // the process just dies (bulks of the bulker goroutines and a parked sealer may be in flight)
		logMu.Lock() // nothing is logged after the crash line
		put(event{Ev: "crash"})
		os.Exit(77)
	}
	bulkers.Wait()
	settle()
	observe(e, true)
	logEv(event{Ev: "stopbegin"})
	e.Halt()
	logEv(event{Ev: "stopend"})
	os.Exit(0)
}

// slowseal: the forced schedule. Fraction A is rotated and its sealer parked; fraction B is filled,
// rotated and sealed completely; the process dies. After the restart the fraction list is observed.
func scenarioSlowSeal() {
	readLog()
	var err error
	logF, err = os.OpenFile(*fLog, os.O_APPEND|os.O_CREATE|os.O_WRONLY, 0o644)
	if err != nil {
		os.Exit(3)
	}
	mainGo = goid()
	gate = make(chan struct{})
	*fSlow = true
	verifhook.Set(observer)
	e, err := env.New(env.Opts{Dir: *fDir, SkipFsync: true, SkipSortDocs: *fSkip, FracSize: *fFrac, TotalSize: 1 << 40})
	if err != nil {
		viol("the store does not come back up: "+err.Error(), nil)
		os.Exit(0)
	}
	logMu.Lock()
	loadEnded = true
	put(event{Ev: "loadend"})
	activeName = e.FM().Active().Info().Name()
	logMu.Unlock()
	var sealWG, suicideWG sync.WaitGroup
	bulk := func() { doBulk(e) }
	for i := 0; i < 3 || e.FM().Active().Info().DocsOnDisk <= *fFrac; i++ { // until the next pass must rotate
		bulk()
	}
	e.FM().VerifMaintenancePass(&sealWG, &suicideWG) // rotates A, its sealer parks
	select {
	case <-parked:
	case <-time.After(180 * time.Second):
		fmt.Println(`{"infra":"sealer did not park"}`)
		os.Exit(3)
	}
	for i := 0; i < 3 || e.FM().Active().Info().DocsOnDisk <= *fFrac; i++ { // until the next pass must rotate
		bulk()
	}
	before := len(names)
	e.FM().VerifMaintenancePass(&sealWG, &suicideWG) // rotates B and seals it (not gated)
	if len(names) == before {
		fmt.Println(`{"infra":"second pass did not rotate"}`)
		os.Exit(3)
	}
	// wait until B is published
	for i := 0; i < 2000; i++ {
		base := filepath.Join(*fDir, names[before-1])
		if env.FileSize(base+".index") >= 0 && env.FileSize(base+".meta") < 0 {
			break
		}
		time.Sleep(time.Millisecond)
	}
	if *fOps%2 == 1 { // variant: the newest fraction holds data as well
		bulk()
	}
	observe(e, false)
	logMu.Lock()
	put(event{Ev: "crash"})
	os.Exit(77)
}

// ---------------------------------------------------------------- parent

func runOne(run int, work string) (trace []byte, out []byte, fatal string) {
	seed := *fSeed*100000 + run
	rng := rand.New(rand.NewSource(int64(seed)))
	dir := filepath.Join(work, fmt.Sprintf("r%d", run))
	os.MkdirAll(dir, 0o755)
	defer func() { os.RemoveAll(dir) }()
	logp := filepath.Join(work, fmt.Sprintf("r%d.log", run))
	defer os.Remove(logp)
	total := 3000 + 1500*rng.Intn(4)
	fracsz := 150 + 150*rng.Intn(3)
	skip := rng.Intn(2) == 0
	var all bytes.Buffer
	for ph := 0; ph < *fPhases; ph++ {
		// between two lives of the store the data directory may be moved (another mount point, a copied volume, a
		// relative vs absolute path): everything the store persisted about its fractions has to work from the new
		// path (.frac-cache records the paths of the sealed fractions)
		if ph > 0 && rng.Intn(3) == 0 {
			moved := filepath.Join(work, fmt.Sprintf("r%d-m%d", run, ph))
			if os.Rename(dir, moved) == nil {
				dir = moved
			}
		}
		args := []string{"-child", "-dir", dir, "-log", logp, "-seed", fmt.Sprint(seed), "-phase", fmt.Sprint(ph),
			"-ops", fmt.Sprint(6 + rng.Intn(12)), "-total", fmt.Sprint(total), "-fracsize", fmt.Sprint(fracsz)}
		if skip {
			args = append(args, "-skipsort")
		}
		if rng.Intn(2) == 0 {
			args = append(args, "-crashat", fmt.Sprint(1+rng.Intn(600)))
		}
		if rng.Intn(3) == 0 {
			args = append(args, "-slow")
		}
		if *fScenario != "" && ph == 0 {
			args = append(args, "-scenario", *fScenario, "-ops", fmt.Sprint(run))
		}
		cmd := exec.Command(os.Args[0], args...)
		var so, se bytes.Buffer
		cmd.Stdout, cmd.Stderr = &so, &se
		done := make(chan error, 1)
		cmd.Start()
		go func() { done <- cmd.Wait() }()
		var err error
		select {
		case err = <-done:
		case <-time.After(120 * time.Second):
			cmd.Process.Kill()
			<-done
			return nil, all.Bytes(), fmt.Sprintf("run %d phase %d: child timed out (args %v)", run, ph, args)
		}
		all.Write(so.Bytes())
		code := 0
		if err != nil {
			if ee, ok := err.(*exec.ExitError); ok {
				code = ee.ExitCode()
			} else {
				return nil, all.Bytes(), "exec: " + err.Error()
			}
		}
		switch code {
		case 0, 77:
		case 3:
			return nil, all.Bytes(), fmt.Sprintf("run %d phase %d: infra: %s", run, ph, so.String())
		default:
			// the process died on its own: a panic or a Fatal of the store
			tail := se.String()
			if len(tail) > 1500 {
				tail = tail[len(tail)-1500:]
			}
			b, _ := json.Marshal(map[string]any{"n": seed, "phase": ph, "args": args,
				"what": fmt.Sprintf("the store process died by itself (exit %d) in phase %d", code, ph), "stderr": tail})
			all.Write(append(b, '\n'))
			t, _ := os.ReadFile(logp)
			return t, all.Bytes(), ""
		}
	}
	t, _ := os.ReadFile(logp)
	return t, all.Bytes(), ""
}

func parent() {
	work := *fWork
	if work == "" {
		var err error
		work, err = os.MkdirTemp("", "storetrace-")
		if err != nil {
			panic(err)
		}
		defer os.RemoveAll(work)
	}
	os.MkdirAll(work, 0o755)
	type res struct {
		run        int
		trace, out []byte
		fatal      string
	}
	results := make([]res, *fRuns)
	var wg sync.WaitGroup
	sem := make(chan struct{}, *fProcs)
	for r := 0; r < *fRuns; r++ {
		wg.Add(1)
		sem <- struct{}{}
		go func(r int) {
			defer wg.Done()
			defer func() { <-sem }()
			t, o, f := runOne(*fFirst+r, work)
			results[r] = res{r, t, o, f}
		}(r)
	}
	wg.Wait()
	fh, _ := os.Create(*fOut)
	events, crashes, lines := 0, 0, 0
	for _, r := range results {
		if r.fatal != "" {
			fmt.Printf(`{"infra":%q}`+"\n", r.fatal)
			os.Exit(3)
		}
		os.Stdout.Write(r.out)
		fmt.Fprintf(fh, `{"ev":"RESET","f":0,"b":0,"o":[],"name":"run %d","ph":0}`+"\n", *fSeed*100000+*fFirst+r.run)
		fh.Write(r.trace)
		lines++
		for _, l := range bytes.Split(r.trace, []byte("\n")) {
			if len(l) > 0 {
				events++
				lines++
			}
			if bytes.Contains(l, []byte(`"ev":"crash"`)) {
				crashes++
			}
		}
	}
	fh.Close()
	fmt.Printf(`{"summary":true,"runs":%d,"events":%d,"crashes":%d,"lines":%d}`+"\n", *fRuns, events, crashes, lines)
}

func main() {
	flag.Parse()
	switch {
	case *fChild && *fScenario != "" && *fPhase == 0:
		scenarioSlowSeal()
	case *fChild:
		child()
	default:
		parent()
	}
}
