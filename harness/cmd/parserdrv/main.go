// parserdrv replays Parser.tla cases into the real query parsers of seq-db:
//
//	kind "sem": a rendered boolean expression with the truth table the specification requires.
//	            parser.ParseSeqQL / parser.ParseQuery must return a query whose AST (AND/OR/NOT/NAND over
//	            literals, as handed to the search engine) has exactly that table; the AST is also compared
//	            with the specification's transcription of the accumulator parser + propagateNot ("shape").
//	kind "pipe": a filter expression followed by a tail of lexer tokens (bar, fields, except, commas, bare and quoted
//	            names, quoted empty / keyword / separator tokens) in one spacing.  ParseSeqQL must end in the outcome of
//	            the reference grammar (query | error, never a panic); a query must carry exactly the pipes of the
//	            reference (field list, except flag) and an AST with the truth table of the filter expression.
//	            ParseQuery and ParseAggregationFilter get the same string: (query | error).
//	kind "tot": a hostile lexeme sequence (plus all its extensions by <= k lexemes) x every mapping type
//	            of field f; ParseSeqQL, ParseQuery and ParseAggregationFilter must return (query | error):
//	            a panic or a call that does not return is a totality violation.
//
// With -store the "tot" strings are sent through the store's real search handler (GrpcV1.Search, SeqQL
// and legacy) instead, to observe what a panic of the parser means for the store process.
//
// The only evaluation done here is of the *returned* AST over the atoms named by the case.
package main

import (
	"bufio"
	"bytes"
	"context"
	"encoding/json"
	"flag"
	"fmt"
	"os"
	"os/exec"
	"reflect"
	"regexp"
	"sort"
	"strconv"
	"strings"
	"sync"
	"sync/atomic"
	"time"

	"github.com/ozontech/seq-db/parser"
	pb "github.com/ozontech/seq-db/pkg/storeapi"
	"github.com/ozontech/seq-db/seq"

	"google.golang.org/grpc/metadata"

	"verifharness/env"
)

// spelling of the named pieces of Parser.tla
var named = map[string]string{
	"<SP>": " ", "<DQ>": `"`, "<SQ>": "'", "<BQ>": "`", "<BS>": `\`, "<NL>": "\n",
	"<BAD>": "\xff", "<PUA>": "\uE000",
}

// <NAME> inside a piece or a word: a named byte sequence, or <U+XXXX> = the UTF-8 encoding of that code point.
// <W> (the wildcard term in the name of an atom) is not a spelling and stays as it is.
var nameRe = regexp.MustCompile(`<(U\+[0-9A-F]{4,6}|[A-Z]{2,3})>`)

func unname(s string) string {
	if !strings.Contains(s, "<") {
		return s
	}
	return nameRe.ReplaceAllStringFunc(s, func(m string) string {
		if v, ok := named[m]; ok {
			return v
		}
		if strings.HasPrefix(m, "<U+") {
			if cp, err := strconv.ParseUint(m[3:len(m)-1], 16, 32); err == nil {
				return string(rune(cp))
			}
		}
		return m
	})
}

func spell(pieces []string) string {
	var b strings.Builder
	for _, p := range pieces {
		b.WriteString(unname(p))
	}
	return b.String()
}

// the words of the specification (atoms, expected tree) in bytes
func (t *Tree) unname() {
	if t == nil {
		return
	}
	t.W = unname(t.W)
	t.L.unname()
	t.R.unname()
}

type Tree struct {
	Op string `json:"op"`
	F  string `json:"f,omitempty"`
	W  string `json:"w,omitempty"`
	L  *Tree  `json:"l,omitempty"`
	R  *Tree  `json:"r,omitempty"`
}

// DeclItem: one field of the declared mapping (Parser.tla section v): its types in declaration order, the entry
// without a title is the field itself
type DeclType struct {
	Title string `json:"title"`
	Typ   string `json:"typ"`
}
type DeclItem struct {
	Name  string     `json:"name"`
	Types []DeclType `json:"types"`
}

type Case struct {
	Kind    string            `json:"kind"`
	Label   string            `json:"label"`
	Q       []string          `json:"q"`
	Langs   []string          `json:"langs"`
	NilMap  bool              `json:"nilmap"`
	Decl    []DeclItem        `json:"decl"`
	Atoms   [][2]string       `json:"atoms"`
	TT      []int             `json:"tt"`
	AST     *Tree             `json:"ast"`
	Allowed []string          `json:"allowed"`
	Pre     []string          `json:"pre"`
	Ext     []string          `json:"ext"`
	K       int               `json:"k"`
	Maps    []string          `json:"maps"`
	Shape   string            `json:"shape"`
	Open    []string          `json:"open"`
	Core    []string          `json:"core"`
	Close   []string          `json:"close"`
	N       int               `json:"n"`
	Toks    []string          `json:"toks"`
	Exp     string            `json:"exp"`
	Pipes   []PipeExp         `json:"pipes"`
}

// PipeExp: one pipe of the reference (Parser.tla RefPipe): fields [except] names
type PipeExp struct {
	Fields []string `json:"fields"`
	Except bool     `json:"except"`
}

var typeByName = map[string]seq.TokenizerType{
	"keyword": seq.TokenizerTypeKeyword, "text": seq.TokenizerTypeText, "path": seq.TokenizerTypePath,
	"exists": seq.TokenizerTypeExists, "object": seq.TokenizerTypeObject, "tags": seq.TokenizerTypeTags,
	"nested": seq.TokenizerTypeNested, "noop": seq.TokenizerTypeNoop,
}

// mapping of the totality walk: how field f is mapped (x is always a keyword field so that the walk gets
// past the field lookup with either word)
func walkMapping(kind string) (seq.Mapping, error) {
	switch kind {
	case "nil":
		return nil, nil
	case "unmapped":
		return seq.Mapping{"g": seq.NewSingleType(seq.TokenizerTypeKeyword, "", 0)}, nil
	case "multi2": // the same types as "multi", declared keyword first, converted by the real seq.ReadMapping
		m, err := readDecl([]DeclItem{{Name: "x", Types: []DeclType{{"", "keyword"}}},
			{Name: "f", Types: []DeclType{{"keyword", "keyword"}, {"", "text"}}}})
		if err != nil {
			return nil, err
		}
		cp := seq.Mapping{} // the store mode adds a key: never hand out the cached map
		for k, v := range m {
			cp[k] = v
		}
		return cp, nil
	case "multi":
		return seq.Mapping{
			"x": seq.NewSingleType(seq.TokenizerTypeKeyword, "", 0),
			"f": seq.MappingTypes{
				Main: seq.MappingType{Title: "f", TokenizerType: seq.TokenizerTypeText},
				All: []seq.MappingType{{Title: "f", TokenizerType: seq.TokenizerTypeText},
					{Title: "f.keyword", TokenizerType: seq.TokenizerTypeKeyword, MaxSize: 18}},
			},
			"f.keyword": seq.NewSingleType(seq.TokenizerTypeKeyword, "f.keyword", 18),
		}, nil
	}
	t, ok := typeByName[kind]
	if !ok {
		return nil, fmt.Errorf("unknown mapping kind %q", kind)
	}
	return seq.Mapping{"x": seq.NewSingleType(seq.TokenizerTypeKeyword, "", 0), "f": seq.NewSingleType(t, "", 0)}, nil
}

// declYAML writes the declared mapping in the format of the mapping file (names and type words in the order of
// the declaration; nothing is decided here): a field with one untitled type in the old `type:` form, every other
// one as a `types:` list.
func declYAML(items []DeclItem) string {
	var b strings.Builder
	b.WriteString("mapping-list:\n")
	for _, it := range items {
		fmt.Fprintf(&b, "  - name: %s\n", it.Name)
		if len(it.Types) == 1 && it.Types[0].Title == "" {
			fmt.Fprintf(&b, "    type: %s\n", it.Types[0].Typ)
			continue
		}
		b.WriteString("    types:\n")
		for _, t := range it.Types {
			if t.Title != "" {
				fmt.Fprintf(&b, "      - title: %s\n        type: %s\n", t.Title, t.Typ)
			} else {
				fmt.Fprintf(&b, "      - type: %s\n", t.Typ)
			}
		}
	}
	return b.String()
}

var (
	mapMu    sync.Mutex
	mappings = map[string]seq.Mapping{}
)

// readDecl: the real conversion (seq.ReadMapping) of a declared mapping, cached per YAML text
func readDecl(items []DeclItem) (seq.Mapping, error) {
	if len(items) == 0 {
		return nil, fmt.Errorf("case without a declared mapping")
	}
	y := declYAML(items)
	mapMu.Lock()
	defer mapMu.Unlock()
	if m, ok := mappings[y]; ok {
		return m, nil
	}
	m, err := seq.ReadMapping([]byte(y))
	if err != nil {
		return nil, fmt.Errorf("seq.ReadMapping rejects the declared mapping: %v\n%s", err, y)
	}
	mappings[y] = m
	return m, nil
}

// ---------------------------------------------------------------- calling the real parsers
type job struct {
	n     int
	fn    string
	mp    string
	q     string
	start int64
}

type worker struct {
	cur atomic.Pointer[job]
}

// call runs one parser entry point; a panic is turned into outcome "panic".
func (w *worker) call(n int, fn, mp, q string, f func() (*parser.ASTNode, error)) (ast *parser.ASTNode, outcome, msg string) {
	w.cur.Store(&job{n: n, fn: fn, mp: mp, q: q, start: time.Now().UnixNano()})
	defer w.cur.Store(nil)
	defer func() {
		if r := recover(); r != nil {
			ast, outcome, msg = nil, "panic", fmt.Sprint(r)
		}
	}()
	a, err := f()
	if err != nil {
		return nil, "err", err.Error()
	}
	return a, "ok", ""
}

func parseWith(fn, q string, m seq.Mapping) func() (*parser.ASTNode, error) {
	switch fn {
	case "ParseSeqQL":
		return func() (*parser.ASTNode, error) {
			r, err := parser.ParseSeqQL(q, m)
			if err != nil {
				return nil, err
			}
			if r.Root == nil {
				return nil, nil
			}
			return r.Root, nil
		}
	case "ParseQuery":
		return func() (*parser.ASTNode, error) { return parser.ParseQuery(q, m) }
	default: // ParseAggregationFilter
		return func() (*parser.ASTNode, error) {
			l, err := parser.ParseAggregationFilter(q)
			if err != nil || l == nil {
				return nil, err
			}
			return &parser.ASTNode{Value: l}, nil
		}
	}
}

// ---------------------------------------------------------------- the returned AST
func shape(n *parser.ASTNode) (*Tree, error) {
	if n == nil {
		return nil, fmt.Errorf("nil node")
	}
	switch v := n.Value.(type) {
	case *parser.Literal:
		// the name of the atom: the text terms as they are, <W> for a wildcard term (Parser.tla PatOf)
		if len(v.Terms) == 0 {
			return nil, fmt.Errorf("leaf on field %q without terms", v.Field)
		}
		w := ""
		for _, tm := range v.Terms {
			switch {
			case tm.Kind == parser.TermText:
				w += tm.Data
			case tm.IsWildcard():
				w += "<W>"
			default:
				return nil, fmt.Errorf("leaf %s has a term that is neither text nor wildcard", v.String())
			}
		}
		return &Tree{Op: "lit", F: v.Field, W: w}, nil
	case *parser.Logical:
		op, nch := "", 2
		switch v.Operator {
		case parser.LogicalAnd:
			op = "and"
		case parser.LogicalOr:
			op = "or"
		case parser.LogicalNAnd:
			op = "nand"
		case parser.LogicalNot:
			op, nch = "not", 1
		default:
			return nil, fmt.Errorf("unknown operator %d", v.Operator)
		}
		if len(n.Children) != nch {
			return nil, fmt.Errorf("%s node with %d children", op, len(n.Children))
		}
		l, err := shape(n.Children[0])
		if err != nil {
			return nil, err
		}
		t := &Tree{Op: op, L: l}
		if nch == 2 {
			if t.R, err = shape(n.Children[1]); err != nil {
				return nil, err
			}
		}
		return t, nil
	}
	return nil, fmt.Errorf("leaf of type %T", n.Value)
}

// eval gives the value of the returned tree the way the engine reads it (frac/processor/eval_tree.go:
// NAND = children[1] and not children[0]).
func eval(t *Tree, a map[[2]string]bool) bool {
	switch t.Op {
	case "lit":
		return a[[2]string{t.F, t.W}]
	case "not":
		return !eval(t.L, a)
	case "and":
		return eval(t.L, a) && eval(t.R, a)
	case "or":
		return eval(t.L, a) || eval(t.R, a)
	case "nand":
		return eval(t.R, a) && !eval(t.L, a)
	}
	panic("bad tree")
}

// strangers lists the leaves of the returned tree that are not atoms of the written expression.
func strangers(t *Tree, atoms map[[2]string]bool, out []string) []string {
	if t == nil {
		return out
	}
	if t.Op == "lit" {
		if !atoms[[2]string{t.F, t.W}] {
			out = append(out, strconv.QuoteToASCII(t.F+":"+t.W))
		}
		return out
	}
	return strangers(t.R, atoms, strangers(t.L, atoms, out))
}

func table(t *Tree, atoms [][2]string) []int {
	out := make([]int, 1<<len(atoms))
	a := map[[2]string]bool{}
	for i := range out {
		for j, at := range atoms {
			a[at] = i>>j&1 == 1
		}
		if eval(t, a) {
			out[i] = 1
		}
	}
	return out
}

// ---------------------------------------------------------------- output
var outMu sync.Mutex

func emit(v any) {
	b, _ := json.Marshal(v)
	outMu.Lock()
	os.Stdout.Write(append(b, '\n'))
	outMu.Unlock()
}

type stats struct {
	evals, nontrivial, inputs, shapeEq, shapeDiff int64
}

// panics are reported once per signature (entry point, mapping type, message) with the shortest input
type sigRec struct {
	N     int    `json:"n"`
	What  string `json:"what"`
	Fn    string `json:"fn"`
	Map   string `json:"map"`
	Got   string `json:"got"`
	Exp   string `json:"exp"`
	Q     string `json:"q"`
	Count int    `json:"count"`
}

var (
	sigMu  sync.Mutex
	sigs   = map[string]*sigRec{}
	digits = regexp.MustCompile(`[0-9]+`)
)

func reportOutcome(n int, fn, mp, q, outcome, msg string, allowed []string) {
	reportAs("outcome", n, fn, mp, q, outcome, msg, strings.Join(allowed, "|"))
}

// reportAs: one record per (what, entry point, mapping, outcome, message) with the shortest input and a count
func reportAs(what string, n int, fn, mp, q, outcome, msg, exp string) {
	if len(q) > 200 {
		q = fmt.Sprintf("%s...(%d bytes)...%s", q[:40], len(q), q[len(q)-20:])
	}
	m := msg
	if i := strings.Index(m, "&{"); i >= 0 { // "BUG: lexer is not end: {..state..}" and similar: keep the stable part
		m = m[:i]
	}
	if i := strings.Index(m, ": {"); i >= 0 && what == "outcome" {
		m = m[:i]
	}
	if what == "pipes" { // the message is the returned list itself
		m = ""
	}
	if len(m) > 80 {
		m = m[:80]
	}
	key := what + "|" + fn + "|" + mp + "|" + outcome + "|" + digits.ReplaceAllString(m, "N")
	sigMu.Lock()
	defer sigMu.Unlock()
	r := sigs[key]
	if r == nil {
		sigs[key] = &sigRec{N: n, What: what, Fn: fn, Map: mp, Got: outcome + ": " + msg, Exp: exp,
			Q: strconv.QuoteToASCII(q), Count: 1}
		return
	}
	r.Count++
	if len(strconv.QuoteToASCII(q)) < len(r.Q) {
		r.N, r.Q, r.Got, r.Exp = n, strconv.QuoteToASCII(q), outcome+": "+msg, exp
	}
}

func allowedHas(allowed []string, o string) bool {
	for _, a := range allowed {
		if a == o {
			return true
		}
	}
	return false
}

// ---------------------------------------------------------------- case kinds
func (w *worker) runSem(n int, c *Case, st *stats) {
	q := spell(c.Q)
	qshow := q // in reports: as a Go string literal when it is not plain ASCII
	for i := 0; i < len(q); i++ {
		if q[i] < ' ' || q[i] > '~' {
			qshow = strconv.QuoteToASCII(q)
			break
		}
	}
	atomSet := map[[2]string]bool{}
	for i := range c.Atoms {
		c.Atoms[i][1] = unname(c.Atoms[i][1])
		atomSet[c.Atoms[i]] = true
	}
	c.AST.unname()
	typed, err := readDecl(c.Decl)
	if err != nil {
		emit(map[string]any{"infra": err.Error()})
		os.Exit(3)
	}
	nontriv := false
	for _, v := range c.TT {
		if v != c.TT[0] {
			nontriv = true
		}
	}
	if nontriv {
		atomic.AddInt64(&st.nontrivial, 1)
	}
	atomic.AddInt64(&st.inputs, 1)
	type run struct {
		fn, mp string
		m      seq.Mapping
	}
	var runs []run
	for _, l := range c.Langs {
		fn := "ParseSeqQL"
		if l == "legacy" {
			fn = "ParseQuery"
		}
		runs = append(runs, run{fn, "typed", typed})
		if c.NilMap {
			runs = append(runs, run{fn, "nil", nil})
		}
	}
	words := map[string]string{} // entry point -> the leaves of its tree under the declared mapping
	for _, r := range runs {
		atomic.AddInt64(&st.evals, 1)
		ast, outcome, msg := w.call(n, r.fn, r.mp, q, parseWith(r.fn, q, r.m))
		if !allowedHas(c.Allowed, outcome) {
			emit(map[string]any{"n": n, "what": "outcome", "fn": r.fn, "map": r.mp, "got": outcome + ": " + msg,
				"exp": strings.Join(c.Allowed, "|"), "q": qshow})
			continue
		}
		if outcome != "ok" {
			continue
		}
		got, err := shape(ast)
		if err != nil {
			emit(map[string]any{"n": n, "what": "returned tree", "fn": r.fn, "map": r.mp, "got": err.Error(), "q": qshow})
			continue
		}
		if r.mp == "typed" {
			ls := leaves(got, nil)
			sort.Strings(ls)
			words[r.fn] = strings.Join(ls, " ")
		}
		if st := strangers(got, atomSet, nil); len(st) > 0 {
			// a term that is none of the written words: the query depends on something the expression does not name
			emit(map[string]any{"n": n, "what": "returned tree", "fn": r.fn, "map": r.mp,
				"got": "leaf " + strings.Join(st, ", ") + " is not a word of the expression", "q": qshow, "tree": got})
			continue
		}
		if tt := table(got, c.Atoms); !reflect.DeepEqual(tt, c.TT) {
			emit(map[string]any{"n": n, "what": "truth table", "fn": r.fn, "map": r.mp, "got": tt, "exp": c.TT, "q": qshow,
				"tree": got})
			continue
		}
		if reflect.DeepEqual(got, c.AST) {
			atomic.AddInt64(&st.shapeEq, 1)
		} else if atomic.AddInt64(&st.shapeDiff, 1) <= 3 {
			// same meaning, other shape than the transcription in Parser.tla: not a violation of C12
			emit(map[string]any{"n": n, "what": "shape drift", "fn": r.fn, "q": qshow, "got": got, "exp": c.AST})
		}
	}
	// the two languages read the same text: the same (case-folded) terms
	if a, ok := words["ParseSeqQL"]; ok {
		if b, ok := words["ParseQuery"]; ok && a != b {
			emit(map[string]any{"n": n, "what": "parsers disagree", "fn": "ParseQuery", "map": "typed", "got": b, "exp": a, "q": qshow})
		}
	}
}

// leaves lists the literals of a tree from left to right.
func leaves(t *Tree, out []string) []string {
	if t == nil {
		return out
	}
	if t.Op == "lit" {
		return append(out, strconv.QuoteToASCII(t.F+":"+t.W))
	}
	return leaves(t.R, leaves(t.L, out))
}

// ---------------------------------------------------------------- kind "pipe"
func pipesOf(ps []parser.Pipe) ([]PipeExp, error) {
	out := []PipeExp{}
	for _, p := range ps {
		f, ok := p.(*parser.PipeFields)
		if !ok || f == nil {
			return nil, fmt.Errorf("pipe of type %T", p)
		}
		out = append(out, PipeExp{Fields: append([]string{}, f.Fields...), Except: f.Except})
	}
	return out, nil
}

func showPipes(ps []PipeExp) string {
	b, _ := json.Marshal(ps)
	return string(b)
}

func (w *worker) runPipe(n int, c *Case, st *stats) {
	q := spell(c.Q)
	atomSet := map[[2]string]bool{}
	for i := range c.Atoms {
		c.Atoms[i][1] = unname(c.Atoms[i][1])
		atomSet[c.Atoms[i]] = true
	}
	typed, err := readDecl(c.Decl)
	if err != nil {
		emit(map[string]any{"infra": err.Error()})
		os.Exit(3)
	}
	if c.Exp != "ok" && c.Exp != "err" {
		emit(map[string]any{"infra": "pipe case with expectation " + c.Exp})
		os.Exit(3)
	}
	if c.Pipes == nil {
		c.Pipes = []PipeExp{}
	}
	atomic.AddInt64(&st.inputs, 1)
	if c.Exp == "ok" && len(c.Pipes) > 0 {
		atomic.AddInt64(&st.nontrivial, 1)
	}
	type run struct {
		mp string
		m  seq.Mapping
	}
	runs := []run{{"typed", typed}}
	if c.NilMap {
		runs = append(runs, run{"nil", nil})
	}
	for _, r := range runs {
		atomic.AddInt64(&st.evals, 1)
		var pipes []parser.Pipe
		ast, outcome, msg := w.call(n, "ParseSeqQL", r.mp, q, func() (*parser.ASTNode, error) {
			res, err := parser.ParseSeqQL(q, r.m)
			if err != nil {
				return nil, err
			}
			pipes = res.Pipes
			return res.Root, nil
		})
		if outcome != "ok" && outcome != "err" {
			// neither a query nor an error: the totality half of the property
			reportOutcome(n, "ParseSeqQL", r.mp, q, outcome, msg, []string{"ok", "err"})
			continue
		}
		if outcome != c.Exp {
			// the reference grammar of the pipe part says the opposite
			reportAs("pipe grammar", n, "ParseSeqQL", r.mp, q, outcome, msg, c.Exp+" "+showPipes(c.Pipes))
			continue
		}
		if outcome != "ok" {
			continue
		}
		got, err := pipesOf(pipes)
		if err != nil || !reflect.DeepEqual(got, c.Pipes) {
			g := showPipes(got)
			if err != nil {
				g = err.Error()
			}
			reportAs("pipes", n, "ParseSeqQL", r.mp, q, "ok", g, showPipes(c.Pipes))
			continue
		}
		// the filter expression in front of the pipes keeps its meaning
		tree, err := shape(ast)
		if err != nil {
			emit(map[string]any{"n": n, "what": "returned tree", "fn": "ParseSeqQL", "map": r.mp, "got": err.Error(), "q": strconv.QuoteToASCII(q)})
			continue
		}
		if sg := strangers(tree, atomSet, nil); len(sg) > 0 {
			emit(map[string]any{"n": n, "what": "returned tree", "fn": "ParseSeqQL", "map": r.mp,
				"got": "leaf " + strings.Join(sg, ", ") + " is not a word of the expression", "q": strconv.QuoteToASCII(q), "tree": tree})
			continue
		}
		if tt := table(tree, c.Atoms); !reflect.DeepEqual(tt, c.TT) {
			emit(map[string]any{"n": n, "what": "truth table", "fn": "ParseSeqQL", "map": r.mp, "got": tt, "exp": c.TT,
				"q": strconv.QuoteToASCII(q), "tree": tree})
		}
	}
	// the other entry points get the same string: a query or an error
	for _, fn := range []string{"ParseQuery", "ParseAggregationFilter"} {
		atomic.AddInt64(&st.evals, 1)
		mp, m := "typed", typed
		if fn == "ParseAggregationFilter" {
			mp, m = "-", nil
		}
		_, outcome, msg := w.call(n, fn, mp, q, parseWith(fn, q, m))
		if outcome != "ok" && outcome != "err" {
			reportOutcome(n, fn, mp, q, outcome, msg, []string{"ok", "err"})
		}
	}
}

var fns = []string{"ParseSeqQL", "ParseQuery"}

func (w *worker) totString(n int, q string, c *Case, maps []seq.Mapping, st *stats) {
	atomic.AddInt64(&st.inputs, 1)
	accepted := false
	for i, mk := range c.Maps {
		for _, fn := range fns {
			atomic.AddInt64(&st.evals, 1)
			_, outcome, msg := w.call(n, fn, mk, q, parseWith(fn, q, maps[i]))
			if outcome == "ok" {
				accepted = true
			}
			if !allowedHas(c.Allowed, outcome) {
				reportOutcome(n, fn, mk, q, outcome, msg, c.Allowed)
			}
		}
	}
	atomic.AddInt64(&st.evals, 1)
	_, outcome, msg := w.call(n, "ParseAggregationFilter", "-", q, parseWith("ParseAggregationFilter", q, nil))
	if !allowedHas(c.Allowed, outcome) {
		reportOutcome(n, "ParseAggregationFilter", "-", q, outcome, msg, c.Allowed)
	}
	if accepted {
		atomic.AddInt64(&st.nontrivial, 1)
	}
}

func (w *worker) runTot(n int, c *Case, st *stats) {
	maps := make([]seq.Mapping, len(c.Maps))
	for i, mk := range c.Maps {
		m, err := walkMapping(mk)
		if err != nil {
			emit(map[string]any{"infra": err.Error()})
			os.Exit(3)
		}
		maps[i] = m
	}
	ext := make([]string, len(c.Ext))
	for i, e := range c.Ext {
		ext[i] = spell([]string{e})
	}
	var rec func(prefix string, k int)
	rec = func(prefix string, k int) {
		w.totString(n, prefix, c, maps, st)
		if k == 0 {
			return
		}
		for _, e := range ext {
			rec(prefix+e, k-1)
		}
	}
	rec(spell(c.Pre), c.K)
}

// Deep cases: open^n core close^n (nesting-depth classes).  A stack overflow is a fatal error of the Go
// runtime that no recover() can stop, so every deep case runs in a child process (this binary with
// -deepchild): the child announces each call before making it; if the child dies, the announced call gets
// outcome "fatal" and a new child continues with the next call.
type deepCall struct {
	fn, mp string
}

func deepCalls(c *Case) []deepCall {
	var out []deepCall
	for _, mk := range c.Maps {
		for _, fn := range fns {
			out = append(out, deepCall{fn, mk})
		}
	}
	return append(out, deepCall{"ParseAggregationFilter", "-"})
}

func deepString(c *Case) string {
	return strings.Repeat(spell(c.Open), c.N) + spell(c.Core) + strings.Repeat(spell(c.Close), c.N)
}

// deepChild runs the calls from index `from` on and prints {"call":i} before and {"done":i,...} after each.
func deepChild(from int, hang time.Duration) {
	sc := bufio.NewScanner(os.Stdin)
	sc.Buffer(make([]byte, 1<<20), 1<<26)
	if !sc.Scan() {
		os.Exit(3)
	}
	c := &Case{}
	if err := json.Unmarshal(sc.Bytes(), c); err != nil {
		os.Exit(3)
	}
	q := deepString(c)
	w := &worker{}
	go func() {
		for {
			time.Sleep(200 * time.Millisecond)
			if j := w.cur.Load(); j != nil && time.Now().UnixNano()-j.start > int64(hang) {
				emit(map[string]any{"hang": true})
				os.Exit(5)
			}
		}
	}()
	for i, dc := range deepCalls(c) {
		if i < from {
			continue
		}
		emit(map[string]any{"call": i})
		var m seq.Mapping
		if dc.mp != "-" {
			var err error
			if m, err = walkMapping(dc.mp); err != nil {
				os.Exit(3)
			}
		}
		_, outcome, msg := w.call(0, dc.fn, dc.mp, q, parseWith(dc.fn, q, m))
		emit(map[string]any{"done": i, "outcome": outcome, "msg": msg})
	}
}

var fatalLine = regexp.MustCompile(`(?m)^(fatal error|panic): (.*)$`)

func (w *worker) runDeep(n int, c *Case, st *stats, hang time.Duration) {
	calls := deepCalls(c)
	line, _ := json.Marshal(c)
	desc := fmt.Sprintf("%q x %d + %q + %q x %d", spell(c.Open), c.N, spell(c.Core), spell(c.Close), c.N)
	atomic.AddInt64(&st.inputs, 1)
	accepted := false
	for from := 0; from < len(calls); {
		cmd := exec.Command(os.Args[0], "-deepchild", "-from", strconv.Itoa(from), "-hang", hang.String())
		cmd.Stdin = bytes.NewReader(append(line, '\n'))
		var stdout, stderr bytes.Buffer
		cmd.Stdout, cmd.Stderr = &stdout, &stderr
		err := cmd.Run()
		last, finished := -1, -1
		hung := false
		for _, ln := range strings.Split(stdout.String(), "\n") {
			var o struct {
				Call    *int   `json:"call"`
				Done    *int   `json:"done"`
				Outcome string `json:"outcome"`
				Msg     string `json:"msg"`
				Hang    bool   `json:"hang"`
			}
			if json.Unmarshal([]byte(ln), &o) != nil {
				continue
			}
			switch {
			case o.Call != nil:
				last = *o.Call
			case o.Done != nil:
				finished = *o.Done
				atomic.AddInt64(&st.evals, 1)
				if o.Outcome == "ok" {
					accepted = true
				}
				if !allowedHas(c.Allowed, o.Outcome) {
					reportOutcome(n, calls[finished].fn, calls[finished].mp, desc, o.Outcome, o.Msg, c.Allowed)
				}
			case o.Hang:
				hung = true
			}
		}
		if err == nil && finished == len(calls)-1 {
			break
		}
		if last < 0 || last == finished {
			emit(map[string]any{"infra": fmt.Sprintf("deep child failed outside a call: %v: %s", err, tail(stderr.String(), 300))})
			os.Exit(3)
		}
		// the child died (or hung) inside call `last`
		atomic.AddInt64(&st.evals, 1)
		outcome, msg := "fatal", "process died: "+fmt.Sprint(err)
		if hung {
			outcome, msg = "hang", fmt.Sprintf("no return within %s", hang)
		} else if m := fatalLine.FindStringSubmatch(stderr.String()); m != nil {
			msg = m[1] + ": " + m[2]
		}
		reportOutcome(n, calls[last].fn, calls[last].mp, desc, outcome, msg, c.Allowed)
		from = last + 1
	}
	if accepted {
		atomic.AddInt64(&st.nontrivial, 1)
	}
}

func tail(s string, n int) string {
	if len(s) > n {
		return s[len(s)-n:]
	}
	return s
}

// ---------------------------------------------------------------- store mode
type storeSet struct {
	envs map[string]*env.Env
}

func (s *storeSet) get(mk string) (*env.Env, error) {
	if e, ok := s.envs[mk]; ok {
		return e, nil
	}
	m, err := walkMapping(mk)
	if err != nil {
		return nil, err
	}
	if m == nil {
		return nil, nil // a store always has a mapping
	}
	m["_exists_"] = seq.NewSingleType(seq.TokenizerTypeKeyword, "", 0)
	e, err := env.New(env.Opts{Mapping: m, SkipFsync: true})
	if err != nil {
		return nil, err
	}
	if err := e.Bulk([]env.Doc{{MID: 1, RID: 1, Tok: map[string][]string{"x": {"x"}}}}); err != nil {
		return nil, err
	}
	e.WaitIdle()
	s.envs[mk] = e
	return e, nil
}

func (w *worker) runStore(n int, c *Case, ss *storeSet, st *stats) {
	q := spell(c.Pre)
	if q == "" {
		return
	}
	atomic.AddInt64(&st.inputs, 1)
	for _, mk := range c.Maps {
		e, err := ss.get(mk)
		if err != nil {
			emit(map[string]any{"infra": "store: " + err.Error()})
			os.Exit(3)
		}
		if e == nil {
			continue
		}
		for _, lang := range []string{"seqql", "legacy"} {
			ctx := metadata.NewIncomingContext(context.Background(), metadata.Pairs("use-seq-ql", "false"))
			if lang == "seqql" {
				ctx = env.SeqQLCtx()
			}
			atomic.AddInt64(&st.evals, 1)
			fn := "GrpcV1.Search/" + lang
			_, outcome, msg := w.call(n, fn, mk, q, func() (*parser.ASTNode, error) {
				_, err := e.Store.GrpcV1().Search(ctx, &pb.SearchRequest{Query: q, From: 0, To: 10, Size: 10})
				return nil, err
			})
			if outcome == "ok" {
				atomic.AddInt64(&st.nontrivial, 1)
			}
			if !allowedHas(c.Allowed, outcome) {
				reportOutcome(n, fn, mk, q, outcome, msg, c.Allowed)
			}
		}
	}
}

// ---------------------------------------------------------------- main
func main() {
	progress := flag.Bool("progress", false, "print begin/end markers, run serially")
	nw := flag.Int("workers", 1, "parallel workers")
	store := flag.Bool("store", false, "send tot prefixes through GrpcV1.Search of a real store")
	hang := flag.Duration("hang", 20*time.Second, "a single parser call running longer than this is a hang")
	child := flag.Bool("deepchild", false, "internal: run one deep case read from stdin")
	from := flag.Int("from", 0, "internal: first call index of the deep child")
	flag.Parse()
	if *child {
		deepChild(*from, *hang)
		return
	}
	if *progress || *store {
		*nw = 1
	}
	var st stats
	type item struct {
		n int
		c *Case
	}
	ch := make(chan item, 256)
	var wg sync.WaitGroup
	workers := make([]*worker, *nw)
	ss := &storeSet{envs: map[string]*env.Env{}}
	for i := range workers {
		w := &worker{}
		workers[i] = w
		wg.Add(1)
		go func() {
			defer wg.Done()
			for it := range ch {
				if *progress {
					emit(map[string]any{"begin": it.n})
				}
				switch {
				case it.c.Kind == "sem":
					w.runSem(it.n, it.c, &st)
				case it.c.Kind == "pipe":
					w.runPipe(it.n, it.c, &st)
				case it.c.Kind == "tot" && *store:
					w.runStore(it.n, it.c, ss, &st)
				case it.c.Kind == "tot":
					w.runTot(it.n, it.c, &st)
				case it.c.Kind == "deep":
					w.runDeep(it.n, it.c, &st, *hang)
				default:
					emit(map[string]any{"infra": "unknown case kind " + it.c.Kind})
					os.Exit(3)
				}
				if *progress {
					emit(map[string]any{"end": it.n})
				}
			}
		}()
	}
	var nread int64
	var once sync.Once
	finish := func(aborted bool) {
		once.Do(func() {
			sigMu.Lock()
			keys := make([]string, 0, len(sigs))
			for k := range sigs {
				keys = append(keys, k)
			}
			sort.Strings(keys)
			for _, k := range keys {
				emit(sigs[k])
			}
			sigMu.Unlock()
			emit(map[string]any{"n": 0, "what": "info", "shape_equal": atomic.LoadInt64(&st.shapeEq),
				"shape_diff": atomic.LoadInt64(&st.shapeDiff), "aborted_at_hang": aborted})
			emit(map[string]any{"summary": true, "cases": atomic.LoadInt64(&nread), "evals": atomic.LoadInt64(&st.evals),
				"nontrivial": atomic.LoadInt64(&st.nontrivial), "corpora": atomic.LoadInt64(&st.inputs)})
		})
	}
	// watchdog: the specification says every call returns. One that does not cannot be stopped, so it is
	// reported (outcome "hang") and the run ends there: what was checked so far is still reported.
	go func() {
		for {
			time.Sleep(200 * time.Millisecond)
			now := time.Now().UnixNano()
			for _, w := range workers {
				if j := w.cur.Load(); j != nil && now-j.start > int64(*hang) {
					fmt.Fprintf(os.Stderr, "HANG n=%d fn=%s map=%s q=%s\n", j.n, j.fn, j.mp, strconv.QuoteToASCII(j.q))
					reportOutcome(j.n, j.fn, j.mp, j.q, "hang", fmt.Sprintf("no return within %s", *hang), []string{"ok", "err"})
					finish(true)
					os.Exit(0)
				}
			}
		}
	}()
	sc := bufio.NewScanner(os.Stdin)
	sc.Buffer(make([]byte, 1<<20), 1<<26)
	n := 0
	for sc.Scan() {
		line := sc.Bytes()
		if len(line) == 0 || line[0] != '{' {
			continue
		}
		c := &Case{}
		if err := json.Unmarshal(line, c); err != nil {
			emit(map[string]any{"infra": "bad case: " + err.Error()})
			os.Exit(3)
		}
		ch <- item{n, c}
		n++
		atomic.StoreInt64(&nread, int64(n))
	}
	close(ch)
	wg.Wait()
	for _, e := range ss.envs {
		e.Close()
	}
	atomic.StoreInt64(&nread, int64(n))
	finish(false)
}
