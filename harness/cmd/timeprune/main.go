// timeprune replays TimePrune.tla cases (C14) into the real code:
//
//	k="bits": util.Bitmask (Set / HasBitsIn / GetBitmaskBinary / LoadBitmask)
//	k="dist": seq.MIDsDistribution (New / Add / IsIntersecting / MarshalJSON / UnmarshalJSON)
//	k="real": -mode unit: frac.Info (BuildDistribution with the sealer's ID list, IsIntersecting, Save/Load)
//	          -mode e2e : a real store whose fractions hold the case's documents at wall-clock offsets
//	                      from the first fraction's creation time; Searcher over FilterInRange, Fetcher,
//	                      Fraction.IsIntersecting and the fraction Info, right after sealing, after a
//	                      restart (Info from the index info block) and after a second restart (.frac-cache).
//
// Expected values are the ones TimePrune.tla computed; this file only maps model time to real time
// (real MID = base + model value; 0 -> 0; qinf -> MaxInt64, or MaxUint64 with -inf maxuint64) and compares.
// Every disagreement carries a level: "property" (the code hides a document / differs from the reference
// / crashes) or "conformance" (the code differs from the transcription without hiding anything).
package main

import (
	"bufio"
	"context"
	"encoding/json"
	"flag"
	"fmt"
	"math"
	"os"
	"path/filepath"
	"reflect"
	"sort"
	"strings"
	"sync"
	"sync/atomic"
	"time"

	"github.com/ozontech/seq-db/frac"
	"github.com/ozontech/seq-db/frac/processor"
	"github.com/ozontech/seq-db/fracmanager"
	"github.com/ozontech/seq-db/parser"
	"github.com/ozontech/seq-db/seq"
	"github.com/ozontech/seq-db/util"

	"verifharness/env"
)

type Run struct {
	Mid int64  `json:"mid"`
	Cnt int    `json:"cnt"`
	A   string `json:"a"`
	Rb  int64  `json:"rb"`
}

type InfoM struct {
	From    int64 `json:"from"`
	To      int64 `json:"to"`
	Total   int   `json:"total"`
	HasDist bool  `json:"hasDist"`
	DFrom   int64 `json:"dfrom"`
	DTo     int64 `json:"dto"`
	Bucket  int64 `json:"bucket"`
	Size    int   `json:"size"`
	Bits    []int `json:"bits"`
}

type FracM struct {
	Sealed bool  `json:"sealed"`
	Runs   []Run `json:"runs"`
	Info   InfoM `json:"info"`
	InfoRT InfoM `json:"infoRT"`
}

type QueryM struct {
	Qf    int64      `json:"qf"`
	Qt    int64      `json:"qt"`
	Kind  string     `json:"kind"`
	Order string     `json:"order"`
	Limit int        `json:"limit"`
	Hit   []bool     `json:"hit"`
	HitRT []bool     `json:"hitRT"`
	Must  []bool     `json:"must"`
	Total int        `json:"total"`
	IDs   [][2]int64 `json:"ids"`
}

type Case struct {
	K string `json:"k"`
	// bits
	Size int     `json:"size"`
	Bits []int   `json:"bits"`
	Bin  []int   `json:"bin"`
	Tbl  [][]int `json:"tbl"`
	// dist
	From      int64   `json:"from"`
	To        int64   `json:"to"`
	Bucket    int64   `json:"bucket"`
	TPS       int64   `json:"tps"`
	Docs      []int64 `json:"docs"`
	QMax      int64   `json:"qmax"`
	BucketSec int64   `json:"bucketSec"`
	Hit       [][]int `json:"hit"`
	HitRT     [][]int `json:"hitRT"`
	Must      [][]int `json:"must"`
	// real
	C     int64      `json:"c"`
	QInf  int64      `json:"qinf"`
	Big   bool       `json:"big"`
	Fracs []FracM    `json:"fracs"`
	Qs    []QueryM   `json:"qs"`
	Fetch [][2]int64 `json:"fetch"`

	n int
}

var (
	mode     = flag.String("mode", "unit", "unit | e2e (for k=real cases)")
	infRep   = flag.String("inf", "maxint64", "representative of the model's +inf query end: maxint64 | maxuint64; with maxuint64 only the queries ending at +inf are replayed (the rest is covered by the default pass)")
	workers  = flag.Int("workers", 8, "parallel cases")
	progress = flag.Bool("progress", false, "print begin/end markers (crash attribution)")
	outMu    sync.Mutex
	evals    atomic.Int64
	nontriv  atomic.Int64
	corpora  atomic.Int64
	nmism    atomic.Int64
)

const maxMism = 400

func emit(v any) {
	b, _ := json.Marshal(v)
	outMu.Lock()
	os.Stdout.Write(append(b, '\n'))
	outMu.Unlock()
}

// A mismatch is "property" level when the real code hides something the reference says is there (a
// pruning answer "no" where a document lies in the range, a search/fetch result that differs from the
// reference over all documents, a crash).  It is "conformance" level when the code merely differs from
// the transcription in a direction that cannot hide documents (an extra bit, a coarser answer): then
// the exhaustive TLC result no longer speaks about this code and the specification must be updated.
func mism(c *Case, level, path, what string, got, exp any) {
	if nmism.Add(1) > maxMism { // a broken primitive disagrees on millions of table entries
		return
	}
	emit(map[string]any{"n": c.n, "level": level, "path": path, "what": what, "got": got, "exp": exp})
}

const (
	prop = "property"
	conf = "conformance"
)

// prune classifies a pruning answer: got=false where a document is in range hides it.
func prune(c *Case, path, what string, got, exp, must bool) {
	if got == exp {
		return
	}
	if !got && must {
		mism(c, prop, path, what+": answers 'no documents' although a document lies in the range", got, exp)
		return
	}
	mism(c, conf, path, what, got, exp)
}

// ---------------------------------------------------------------- bits

func setBitsOf(bin []byte, size int) []int {
	out := []int{}
	for p := 0; p < size && p/8 < len(bin); p++ {
		if bin[p/8]&(1<<(p%8)) != 0 {
			out = append(out, p)
		}
	}
	return out
}

func runBits(c *Case) {
	bm := util.NewBitmask(c.Size)
	for _, b := range c.Bits {
		bm.Set(b, true)
	}
	bin := bm.GetBitmaskBinary()
	got := make([]int, len(bin))
	for i, x := range bin {
		got[i] = int(x)
	}
	if !reflect.DeepEqual(got, c.Bin) {
		mism(c, conf, "bits", "GetBitmaskBinary", got, c.Bin)
	}
	lb := util.LoadBitmask(c.Size, append([]byte(nil), bin...))
	ones, zeros := 0, 0
	for l := 0; l < c.Size; l++ {
		for r := l; r < c.Size; r++ {
			exp := c.Tbl[l][r-l] == 1
			if exp {
				ones++
			} else {
				zeros++
			}
			evals.Add(2)
			// the table is the reference itself: 1 iff a set bit lies in [l, r]
			prune(c, "bits", fmt.Sprintf("HasBitsIn(%d,%d)", l, r), bm.HasBitsIn(l, r), exp, exp)
			prune(c, "bits-loaded", fmt.Sprintf("HasBitsIn(%d,%d) after LoadBitmask", l, r), lb.HasBitsIn(l, r), exp, exp)
		}
	}
	if ones > 0 && zeros > 0 {
		nontriv.Add(1)
	}
}

// ---------------------------------------------------------------- dist

type distJSON struct {
	From    uint64 `json:"from"`
	To      uint64 `json:"to"`
	Bucket  uint64 `json:"bucket"`
	Bitmask []byte `json:"bitmask"`
}

const distBase = int64(1_700_000_000_137) // not second-aligned: the JSON form keeps ms-granular ends

func runDist(c *Case) {
	tick := 1000 / c.TPS
	at := func(v int64) int64 { return distBase + v*tick }
	d := seq.NewMIDsDistribution(time.UnixMilli(at(c.From)), time.UnixMilli(at(c.To)), time.Duration(c.Bucket*tick)*time.Millisecond)
	for _, m := range c.Docs {
		d.Add(seq.MID(at(m)))
	}
	js, err := d.MarshalJSON()
	if err != nil {
		mism(c, prop, "dist", "MarshalJSON error: "+err.Error(), nil, nil)
		return
	}
	var dj distJSON
	if err := json.Unmarshal(js, &dj); err != nil {
		mism(c, conf, "dist", "MarshalJSON output unreadable: "+string(js), nil, nil)
		return
	}
	if int64(dj.From) != at(c.From) || int64(dj.To) != at(c.To) || int64(dj.Bucket) != c.BucketSec {
		mism(c, conf, "dist-json", "from/to/bucket", []int64{int64(dj.From) - distBase, int64(dj.To) - distBase, int64(dj.Bucket)},
			[]int64{c.From * tick, c.To * tick, c.BucketSec})
	}
	if got := setBitsOf(dj.Bitmask, c.Size); !reflect.DeepEqual(got, c.Bits) || len(dj.Bitmask) != (c.Size+7)/8 {
		mism(c, conf, "dist-json", "bitmask", map[string]any{"bits": got, "bytes": len(dj.Bitmask)}, map[string]any{"bits": c.Bits, "size": c.Size})
	}
	var rt seq.MIDsDistribution
	if err := rt.UnmarshalJSON(js); err != nil {
		mism(c, prop, "dist-json", "UnmarshalJSON error: "+err.Error(), nil, nil)
		return
	}
	ones, zeros := 0, 0
	for qf := int64(0); qf <= c.QMax; qf++ {
		for qt := qf; qt <= c.QMax; qt++ {
			exp := c.Hit[qf][qt-qf] == 1
			expRT := c.HitRT[qf][qt-qf] == 1
			if exp {
				ones++
			} else {
				zeros++
			}
			evals.Add(2)
			must := c.Must[qf][qt-qf] == 1
			prune(c, "dist", fmt.Sprintf("IsIntersecting(%d,%d)", qf, qt), d.IsIntersecting(seq.MID(at(qf)), seq.MID(at(qt))), exp, must)
			prune(c, "dist-json", fmt.Sprintf("IsIntersecting(%d,%d) after JSON round trip", qf, qt),
				rt.IsIntersecting(seq.MID(at(qf)), seq.MID(at(qt))), expRT, must)
		}
	}
	if ones > 0 && zeros > 0 {
		nontriv.Add(1)
	}
}

// ---------------------------------------------------------------- real: common

type timeMap struct {
	base int64
	qinf int64
}

func (t timeMap) real(v int64) seq.MID {
	switch {
	case v == 0:
		return 0
	case v == t.qinf:
		if *infRep == "maxuint64" {
			return seq.MID(math.MaxUint64) // "no upper bound" as the repository's own test environment writes it
		}
		return seq.MID(math.MaxInt64)
	}
	return seq.MID(t.base + v)
}

func (t timeMap) model(m seq.MID) int64 { return int64(m) - t.base }

var systemID = seq.ID{MID: math.MaxUint64, RID: math.MaxUint64} // frac.systemSeqID: position 0 of the sealer's ID list

// sortedIDs is the list writeSealedFraction hands to Info.BuildDistribution: system ID, then all IDs descending.
func sortedIDs(f FracM, t timeMap) []seq.ID {
	ids := []seq.ID{systemID}
	for _, r := range f.Runs { // runs are emitted by descending mid; RIDs descend inside a run
		for k := r.Cnt; k >= 1; k-- {
			ids = append(ids, seq.ID{MID: t.real(r.Mid), RID: seq.RID(r.Rb + int64(k))})
		}
	}
	return ids
}

// distOf projects a real Info onto the fields the model emits.
func distOf(info *frac.Info, t timeMap) (InfoM, error) {
	out := InfoM{From: t.model(info.From), To: t.model(info.To), Total: int(info.DocsTotal), Bits: []int{}}
	if info.Distribution == nil {
		return out, nil
	}
	js, err := info.Distribution.MarshalJSON()
	if err != nil {
		return out, err
	}
	if string(js) == "null" {
		return out, nil
	}
	var dj distJSON
	if err := json.Unmarshal(js, &dj); err != nil {
		return out, err
	}
	out.HasDist = true
	out.DFrom = int64(dj.From) - t.base
	out.DTo = int64(dj.To) - t.base
	out.Bucket = int64(dj.Bucket) * 1000
	out.Bits = setBitsOf(dj.Bitmask, len(dj.Bitmask)*8)
	return out, nil
}

func sameInfo(got, exp InfoM, withDist bool) bool {
	if got.From != exp.From || got.To != exp.To || got.Total != exp.Total {
		return false
	}
	if !withDist {
		return true
	}
	if got.HasDist != exp.HasDist {
		return false
	}
	if !exp.HasDist {
		return true
	}
	return got.DFrom == exp.DFrom && got.DTo == exp.DTo && got.Bucket == exp.Bucket && reflect.DeepEqual(got.Bits, exp.Bits)
}

// ---------------------------------------------------------------- real: unit (frac.Info)

const unitCreation = int64(1_760_000_000_123)

func infOnly() bool { return *infRep == "maxuint64" }

func runRealUnit(c *Case) {
	t := timeMap{base: unitCreation - c.C, qinf: c.QInf}
	pruned := false
	for i, f := range c.Fracs {
		info := &frac.Info{Path: fmt.Sprintf("f%d", i), DocsTotal: uint32(f.Info.Total), From: t.real(f.Info.From), To: t.real(f.Info.To),
			CreationTime: uint64(t.base + c.C)}
		if f.Sealed {
			info.BuildDistribution(sortedIDs(f, t))
		}
		got, err := distOf(info, t)
		if err != nil {
			mism(c, conf, "info", "distribution unreadable: "+err.Error(), nil, nil)
			continue
		}
		evals.Add(1)
		if !infOnly() && !sameInfo(got, f.Info, true) {
			mism(c, conf, "info", fmt.Sprintf("frac %d: Info after BuildDistribution", i), got, f.Info)
		}
		restored := &frac.Info{}
		restored.Load(info.Save())
		gotRT, err := distOf(restored, t)
		if err != nil {
			mism(c, conf, "info-restored", "distribution unreadable: "+err.Error(), nil, nil)
			continue
		}
		evals.Add(1)
		if !infOnly() && !sameInfo(gotRT, f.InfoRT, true) {
			mism(c, conf, "info-restored", fmt.Sprintf("frac %d: Info after Save/Load", i), gotRT, f.InfoRT)
		}
		for qi, q := range c.Qs {
			if infOnly() && q.Qt != c.QInf {
				continue
			}
			evals.Add(2)
			prune(c, "info", fmt.Sprintf("frac %d query %d: IsIntersecting(%d,%d)", i, qi, q.Qf, q.Qt),
				info.IsIntersecting(t.real(q.Qf), t.real(q.Qt)), q.Hit[i], q.Must[i])
			prune(c, "info-restored", fmt.Sprintf("frac %d query %d: IsIntersecting(%d,%d) after Save/Load", i, qi, q.Qf, q.Qt),
				restored.IsIntersecting(t.real(q.Qf), t.real(q.Qt)), q.HitRT[i], q.Must[i])
			if !q.Hit[i] && q.Qt >= f.Info.From && q.Qf <= f.Info.To {
				pruned = true
			}
		}
	}
	if pruned {
		nontriv.Add(1)
	}
}

// ---------------------------------------------------------------- real: e2e (store)

func hasTok(r Run, k int) bool { return r.A == "all" || (r.A == "odd" && k%2 == 1) }

func fracDocs(f FracM, t timeMap) []env.Doc {
	var docs []env.Doc
	// arrival order is unrelated to time order: ascending runs, ascending RIDs
	for j := len(f.Runs) - 1; j >= 0; j-- {
		r := f.Runs[j]
		for k := 1; k <= r.Cnt; k++ {
			d := env.Doc{MID: uint64(t.real(r.Mid)), RID: uint64(r.Rb + int64(k))}
			if hasTok(r, k) {
				d.Tok = map[string][]string{"k": {"a"}}
			}
			docs = append(docs, d)
		}
	}
	return docs
}

func queryAST(kind string) *parser.ASTNode {
	all := &parser.ASTNode{Value: &parser.Literal{Field: "_all_", Terms: []parser.Term{{Kind: parser.TermSymbol, Data: "*"}}}}
	tok := &parser.ASTNode{Value: &parser.Literal{Field: "k", Terms: []parser.Term{{Kind: parser.TermText, Data: "a"}}}}
	switch kind {
	case "tok":
		return tok
	case "not":
		return &parser.ASTNode{Value: &parser.Logical{Operator: parser.LogicalNot}, Children: []*parser.ASTNode{tok}}
	}
	return all
}

func fracCacheHas(dir string, names []string) bool {
	b, err := os.ReadFile(filepath.Join(dir, ".frac-cache"))
	if err != nil {
		return false
	}
	var m map[string]json.RawMessage
	if json.Unmarshal(b, &m) != nil {
		return false
	}
	for _, n := range names {
		if _, ok := m[n]; !ok {
			return false
		}
	}
	return true
}

func runRealE2E(c *Case) {
	fpi := []int{1, 2, 0}[c.n%3]
	e, err := env.New(env.Opts{SkipFsync: true, FPI: fpi})
	if err != nil {
		emit(map[string]any{"infra": "env: " + err.Error()})
		return
	}
	defer e.Close()
	corpora.Add(1)
	// the first fraction's creation time anchors model time: real = creation - c.C + model value
	t := timeMap{base: int64(e.FM().Active().Info().CreationTime) - c.C, qinf: c.QInf}
	names := make([]string, len(c.Fracs))
	var sealedNames []string
	allDocs := 0
	for i, f := range c.Fracs {
		names[i] = e.FM().Active().Info().Name()
		docs := fracDocs(f, t)
		allDocs += len(docs)
		// one bulk, or two bulks split in the middle (odd case numbers)
		if c.n%2 == 1 && len(docs) > 1 {
			h := len(docs) / 2
			if err = e.Bulk(docs[:h]); err == nil {
				err = e.Bulk(docs[h:])
			}
		} else {
			err = e.Bulk(docs)
		}
		if err != nil {
			emit(map[string]any{"infra": "bulk: " + err.Error()})
			return
		}
		e.WaitIdle()
		if f.Sealed {
			e.Seal()
			sealedNames = append(sealedNames, names[i])
		}
	}
	nontrivial := false
	for _, state := range []string{"fresh", "restart-infoblock", "restart-fraccache"} {
		switch state {
		case "restart-infoblock":
			// nothing has written .frac-cache for the new fractions yet: Info comes from the index info block
			if fracCacheHas(e.O.Dir, sealedNames) && len(sealedNames) > 0 {
				os.Remove(filepath.Join(e.O.Dir, ".frac-cache"))
			}
			if err := e.Restart(); err != nil {
				mism(c, prop, state, "restart failed: "+err.Error(), nil, nil)
				return
			}
		case "restart-fraccache":
			if len(sealedNames) == 0 {
				continue
			}
			// the maintenance loop's first run writes .frac-cache; wait for it, then restart once more
			dl := time.Now().Add(20 * time.Second)
			for !fracCacheHas(e.O.Dir, sealedNames) {
				if time.Now().After(dl) {
					emit(map[string]any{"infra": ".frac-cache was not written within 20s"})
					return
				}
				time.Sleep(2 * time.Millisecond)
			}
			if err := e.Restart(); err != nil {
				mism(c, prop, state, "restart failed: "+err.Error(), nil, nil)
				return
			}
		}
		all := e.FM().GetAllFracs()
		byName := map[string]frac.Fraction{}
		for _, f := range all {
			byName[f.Info().Name()] = f
		}
		// fraction Info: From/To/DocsTotal for every fraction; the occupancy map for the first fraction
		// (its creation time is known exactly); for later fractions only "exists if the model says so"
		for i, fm := range c.Fracs {
			rf := byName[names[i]]
			if rf == nil {
				mism(c, prop, state, fmt.Sprintf("fraction %d (%s) disappeared", i, names[i]), nil, nil)
				return
			}
			got, err := distOf(rf.Info(), t)
			if err != nil {
				mism(c, conf, state, "distribution unreadable: "+err.Error(), nil, nil)
				continue
			}
			exp := fm.Info
			if state != "fresh" {
				exp = fm.InfoRT
			}
			evals.Add(1)
			if infOnly() {
				continue
			}
			if !sameInfo(got, exp, i == 0) || (i > 0 && exp.HasDist && !got.HasDist) {
				mism(c, conf, state, fmt.Sprintf("frac %d: Info", i), got, exp)
			}
		}
		first := byName[names[0]]
		for qi, q := range c.Qs {
			if infOnly() && q.Qt != c.QInf {
				continue
			}
			from, to := t.real(q.Qf), t.real(q.Qt)
			expHit := q.Hit[0]
			if state != "fresh" {
				expHit = q.HitRT[0]
			}
			evals.Add(2)
			prune(c, state, fmt.Sprintf("query %d: first fraction IsIntersecting(%d,%d)", qi, q.Qf, q.Qt), first.IsIntersecting(from, to), expHit, q.Must[0])
			inList := false
			for _, f := range all.FilterInRange(from, to) {
				if f.Info().Name() == names[0] {
					inList = true
				}
			}
			prune(c, state, fmt.Sprintf("query %d: first fraction in FilterInRange(%d,%d)", qi, q.Qf, q.Qt), inList, expHit, q.Must[0])
			order := seq.DocsOrderDesc
			if q.Order == "asc" {
				order = seq.DocsOrderAsc
			}
			sp := processor.SearchParams{AST: queryAST(q.Kind), From: from, To: to, Limit: q.Limit, WithTotal: true, Order: order}
			res, err := env.SearchFracs(all, fpi, sp)
			evals.Add(1)
			if err != nil {
				mism(c, prop, state, fmt.Sprintf("query %d: search error: %v", qi, err), nil, nil)
				continue
			}
			got := make([][2]int64, 0, len(res.IDs))
			for _, id := range res.IDs {
				got = append(got, [2]int64{t.model(seq.MID(id[0])), int64(id[1])})
			}
			exp := q.IDs
			if exp == nil {
				exp = [][2]int64{}
			}
			if int(res.Total) != q.Total || !reflect.DeepEqual(got, exp) {
				mism(c, prop, state, fmt.Sprintf("query %d [%d,%d] %s %s limit %d: pruned search differs from the reference over all documents", qi, q.Qf, q.Qt, q.Kind, q.Order, q.Limit),
					map[string]any{"total": res.Total, "ids": got}, map[string]any{"total": q.Total, "ids": exp})
			}
			if q.Total > 0 && q.Total < allDocs {
				nontrivial = true
			}
			// what the search returned must be fetchable with the hints it carries
			if state == "fresh" && qi%4 == 0 && len(res.QPR.IDs) > 0 {
				docs, err := fracmanager.NewFetcher(2).FetchDocs(context.Background(), all, res.QPR.IDs)
				evals.Add(1)
				if err != nil {
					mism(c, prop, state, fmt.Sprintf("query %d: fetch of found ids: %v", qi, err), nil, nil)
				} else {
					for k, d := range docs {
						if len(d) == 0 {
							mism(c, prop, state, fmt.Sprintf("query %d: found id %v (hint %q) is not fetchable", qi, res.IDs[k], res.QPR.IDs[k].Hint), nil, nil)
						}
					}
				}
			}
		}
		if infOnly() {
			continue
		}
		// every stored document is fetchable by ID without a hint (Fetcher: FilterInRange + Contains)
		var ids []seq.IDSource
		var bodies [][]byte
		for _, x := range c.Fetch {
			d := env.Doc{MID: uint64(t.real(x[0])), RID: uint64(x[1])}
			ids = append(ids, seq.IDSource{ID: d.ID()})
			bodies = append(bodies, d.BodyBytes())
		}
		sort.SliceStable(ids, func(a, b int) bool { return (a*7+c.n)%5 < (b*7+c.n)%5 }) // some unsorted order
		docs, err := fracmanager.NewFetcher(2).FetchDocs(context.Background(), all, ids)
		evals.Add(1)
		if err != nil {
			mism(c, prop, state, "fetch error: "+err.Error(), nil, nil)
		} else {
			want := map[seq.ID]string{}
			for k, x := range c.Fetch {
				want[seq.ID{MID: t.real(x[0]), RID: seq.RID(x[1])}] = string(bodies[k])
			}
			for k, d := range docs {
				if string(d) != want[ids[k].ID] {
					mism(c, prop, state, fmt.Sprintf("fetch of stored id [%d,%d]", t.model(ids[k].ID.MID), ids[k].ID.RID), string(d), want[ids[k].ID])
				}
			}
		}
	}
	if nontrivial {
		nontriv.Add(1)
	}
}

// ---------------------------------------------------------------- main

func runCase(c *Case) {
	if *progress {
		emit(map[string]any{"begin": c.n, "form": c.K})
	}
	func() {
		if c.K == "real" && *mode == "e2e" {
			runRealE2E(c) // a panic inside the store kills the process: attributed through -progress
			return
		}
		defer func() {
			if r := recover(); r != nil {
				mism(c, prop, c.K, fmt.Sprintf("panic: %v", r), nil, nil)
			}
		}()
		switch c.K {
		case "bits":
			runBits(c)
		case "dist":
			runDist(c)
		case "real":
			runRealUnit(c)
		default:
			emit(map[string]any{"infra": "unknown case kind " + c.K})
		}
	}()
	if *progress {
		emit(map[string]any{"end": c.n})
	}
}

func main() {
	flag.Parse()
	sc := bufio.NewScanner(os.Stdin)
	sc.Buffer(make([]byte, 1<<20), 1<<28)
	w := *workers
	if *progress || w < 1 {
		w = 1
	}
	ch := make(chan *Case, w)
	var wg sync.WaitGroup
	for i := 0; i < w; i++ {
		wg.Add(1)
		go func() {
			defer wg.Done()
			for c := range ch {
				runCase(c)
			}
		}()
	}
	n := 0
	for sc.Scan() {
		line := sc.Text()
		if !strings.HasPrefix(line, "{") {
			continue
		}
		c := &Case{}
		if err := json.Unmarshal([]byte(line), c); err != nil {
			emit(map[string]any{"infra": "bad case: " + err.Error()})
			os.Exit(3)
		}
		c.n = n
		n++
		ch <- c
	}
	close(ch)
	wg.Wait()
	emit(map[string]any{"summary": true, "cases": n, "evals": evals.Load(), "nontrivial": nontriv.Load(), "corpora": corpora.Load(), "mismatches": nmism.Load()})
}
