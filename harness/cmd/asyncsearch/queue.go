// The queue of the asynchronous searcher (AsyncSearch.tla: Acquire, OccStart / OccAcquire / OccFinish).
//
// A job with "queue": K additionally replays K QUEUE BEHAVIOURS.  A queue behaviour is a finished
// history of AsyncSearch.tla with other requests on the same searcher (NOcc) and a bounded number of
// worker slots (par = AsyncSearcherConfig.Parallelism), whose single crash happens while no goroutine is
// inside an atomic write: the request of the model either WAITS FOR A SLOT (ph = "queued": StartSearch
// has returned nil, all slots are taken by earlier, long searches) or holds a slot and stands before
// its last captured fraction, and every other request is not started / queued / running / finished.
//
// These states are produced on the REAL searcher, not by surgery:
//   - the requests the model calls finished are started and run to the end;
//   - the running ones are started next and really held (verif hook pf.read, qgate) right before they
//     search the last captured fraction (the active one): they occupy their slot for as long as the
//     driver wants - the "long search";
//   - the queued ones are started last: StartSearch returns nil, FetchSearchResult knows them, their
//     goroutine blocks on the semaphore.
//
// Then the store "crashes": the directory as it is at that moment (nothing is being written: every
// goroutine is blocked) is copied, byte for byte, and a new AsyncSearcher (MustStartAsync) is started
// over the copy - the image the model's Crash leaves.  After that restart EVERY request StartSearch had
// accepted must be known, must finish (the queue drains through the same semaphore) and must equal
// Searcher.SearchDocs over the captured fractions and the AggCases reference; the image of the model's
// request must be the model's image (the .info file of a request that was only queued is there),
// persisted partial results are not written again, requests the model had not started yet are
// started after the restart, and the request's directory at the end is the model's.  Finally the
// held goroutines of the abandoned searcher are let go, and the history without a crash (the queue
// drains, everything finishes with the synchronous result) is checked on it as well.
package main

import (
	"bufio"
	"encoding/json"
	"fmt"
	"io"
	"os"
	"path/filepath"
	"strings"
	"sync"
	"sync/atomic"
	"time"

	"github.com/ozontech/seq-db/fracmanager"
)

type QBeh struct {
	ID  int `json:"id"`
	NF  int `json:"nf"`
	Par int `json:"par"`
	At  struct {
		Ph string `json:"ph"`
		F  int    `json:"f"`
		N  int    `json:"n"`
	} `json:"at"`
	Occ   []string `json:"occ"`
	Img   Img      `json:"img"`
	Final Img      `json:"final"`
}

var (
	qbehs    = map[int][]QBeh{} // captured fractions -> queue behaviours
	qcursor  = map[int]int{}
	qcovered sync.Map
	scovered sync.Map
	qRun     atomic.Int64
	qQueued  atomic.Int64
	qSkip    atomic.Int64
	sRun     atomic.Int64
	sErr     atomic.Int64
	sFollowed atomic.Int64
)

func loadQueueAndStart() error {
	if *qbehFile != "" {
		fh, err := os.Open(*qbehFile)
		if err != nil {
			return err
		}
		bs := bufio.NewScanner(fh)
		bs.Buffer(make([]byte, 1<<20), 1<<26)
		for bs.Scan() {
			var b QBeh
			if err := json.Unmarshal(bs.Bytes(), &b); err != nil || b.Par < 1 || len(b.Img.Qpr) != b.NF+1 {
				return fmt.Errorf("bad queue behaviour %s: %v", bs.Text(), err)
			}
			qbehs[b.NF] = append(qbehs[b.NF], b)
		}
		fh.Close()
	}
	if *svecFile != "" {
		fh, err := os.Open(*svecFile)
		if err != nil {
			return err
		}
		bs := bufio.NewScanner(fh)
		for bs.Scan() {
			var v SVec
			if err := json.Unmarshal(bs.Bytes(), &v); err != nil || v.NS != len(v.Acc) || v.NS == 0 || v.NRep != len(v.Acc[0]) {
				return fmt.Errorf("bad start vector %s: %v", bs.Text(), err)
			}
			svecs[v.NS] = append(svecs[v.NS], v)
		}
		fh.Close()
	}
	return nil
}

func copyDir(src, dst string) error {
	if err := os.MkdirAll(dst, 0o777); err != nil {
		return err
	}
	ents, err := os.ReadDir(src)
	if err != nil {
		if os.IsNotExist(err) {
			return nil // the searcher creates its directory with the first write
		}
		return err
	}
	for _, e := range ents {
		in, err := os.Open(filepath.Join(src, e.Name()))
		if err != nil {
			return err
		}
		out, err := os.Create(filepath.Join(dst, e.Name()))
		if err != nil {
			in.Close()
			return err
		}
		_, err = io.Copy(out, in)
		in.Close()
		out.Close()
		if err != nil {
			return err
		}
	}
	return nil
}

func fetchID(as *fracmanager.AsyncSearcher, id string) (resp fracmanager.FetchSearchResultResponse, ok bool, pan string) {
	defer func() {
		if r := recover(); r != nil {
			pan = fmt.Sprint(r)
		}
	}()
	resp, ok = as.FetchSearchResult(fracmanager.FetchSearchResultRequest{ID: id})
	return
}

func waitDoneID(as *fracmanager.AsyncSearcher, id string, limit time.Duration) (*fracmanager.FetchSearchResultResponse, string, string) {
	t0 := time.Now()
	for {
		resp, ok, pan := fetchID(as, id)
		if pan != "" {
			return nil, "fetch-panics", "FetchSearchResult panics: " + pan
		}
		if !ok {
			return nil, "request-lost", "FetchSearchResult: request not found"
		}
		if resp.Done {
			return &resp, "", ""
		}
		if time.Since(t0) > limit {
			return nil, "never-done", fmt.Sprintf("request not done after %s", limit)
		}
		time.Sleep(500 * time.Microsecond)
	}
}

// startID: StartSearch of one more request with the job's query; it must return (it only persists the
// request and launches the goroutine).
func (w *world) startID(as *fracmanager.AsyncSearcher, id string) *mismatch {
	r := w.request()
	r.ID = id
	errc := make(chan error, 1)
	go func() { errc <- as.StartSearch(r) }()
	select {
	case err := <-errc:
		if err != nil {
			return &mismatch{"start-error", "StartSearch: " + err.Error()}
		}
		return nil
	case <-time.After(doneTimeout):
		return &mismatch{"start-blocks", "StartSearch of request " + id + " does not return while the worker slots are taken"}
	}
}

// ownUnknown: files of the request that the model's image has no place for.
func ownUnknown(unk []string, id string) []string {
	var out []string
	for _, n := range unk {
		if strings.HasPrefix(n, id+".") {
			out = append(out, n)
		}
	}
	return out
}

func (w *world) queueJob(report func(int, *mismatch)) {
	for k := 0; k < w.j.Queue; k++ {
		w.capture()
		all := qbehs[len(w.captured)]
		if len(all) == 0 || w.lastProx == "" {
			qSkip.Add(1) // the slots can only be kept busy at the active fraction (sealed ones have no hook)
			return
		}
		cursorMu.Lock()
		b := &all[qcursor[len(w.captured)]%len(all)]
		qcursor[len(w.captured)]++
		cursorMu.Unlock()
		if m := w.queueStage(b, k); m != nil {
			if m.kind != "infra" {
				m.kind = "queue-" + m.kind
			}
			report(-4, m)
			return
		}
		qcovered.Store(b.ID, true)
	}
}

func (w *world) queueStage(b *QBeh, k int) (res *mismatch) {
	qRun.Add(1)
	const me = "qme"
	occID := func(i int) string { return fmt.Sprintf("qo%d", i+1) }
	dir := filepath.Join(w.e.O.Dir, fmt.Sprintf("asq-%d", k))
	dir2 := dir + "-restarted"
	par := b.Par
	as := fracmanager.MustStartAsync(fracmanager.AsyncSearcherConfig{DataDir: dir, Parallelism: par}, w.e.MP, w.e.FM())
	nslots := b.NF + 1
	ctxt := fmt.Sprintf("Parallelism %d, other requests %v, the request %s", par, b.Occ, map[string]string{"queued": "waits for a slot", "frac": "stands before its last fraction"}[b.At.Ph])

	var fin, run, queued, later, accepted []string
	for i, o := range b.Occ {
		switch o {
		case "fin":
			fin = append(fin, occID(i))
		case "run":
			run = append(run, occID(i))
		case "queued":
			queued = append(queued, occID(i))
		case "none":
			later = append(later, occID(i))
		}
	}
	if b.At.Ph == "frac" {
		run = append(run, me)
	} else {
		queued = append(queued, me)
	}
	if len(run) > par || (len(queued) > 0 && len(run) != par) {
		return &mismatch{"infra", fmt.Sprintf("queue behaviour %d cannot be held on a real searcher", b.ID)}
	}

	// the abandoned searcher is let go and drained before the store goes away, whatever happens
	var qg *qgate
	released := false
	release := func() {
		if qg != nil && !released {
			released = true
			for range run {
				qg.verdict <- true
			}
			qgates.Delete(w.lastProx)
		}
	}
	defer func() {
		release()
		for _, id := range accepted {
			if _, kk, what := waitDoneID(as, id, doneTimeout); kk != "" && res == nil {
				res = &mismatch{kk, fmt.Sprintf("%s; no crash, the held searches continue: request %s: %s", ctxt, id, what)}
			}
		}
	}()

	// ---- the requests that are finished at the crash
	for _, id := range fin {
		if m := w.startID(as, id); m != nil {
			return m
		}
		accepted = append(accepted, id)
		resp, kk, what := waitDoneID(as, id, doneTimeout)
		if kk != "" {
			return &mismatch{kk, fmt.Sprintf("%s; request %s (alone on the searcher): %s", ctxt, id, what)}
		}
		if m := w.checkDone(resp); m != nil {
			return m
		}
	}
	// ---- the running ones: really held before their last fraction, each on a slot
	if len(run) > 0 {
		qg = &qgate{arrived: make(chan struct{}, len(run)), verdict: make(chan bool, len(run))}
		qg.need.Store(int32(len(run)))
		qgates.Store(w.lastProx, qg)
		for _, id := range run {
			if m := w.startID(as, id); m != nil {
				return m
			}
			accepted = append(accepted, id)
		}
		for range run {
			select {
			case <-qg.arrived:
			case <-time.After(doneTimeout):
				return &mismatch{"never-done", fmt.Sprintf("%s: %d requests on %d free slots, but not all of them reached their last fraction", ctxt, len(run), par)}
			}
		}
	}
	// ---- the queued ones: accepted, waiting for a slot
	for _, id := range queued {
		if m := w.startID(as, id); m != nil {
			return m
		}
		accepted = append(accepted, id)
	}
	time.Sleep(2 * time.Millisecond)
	for _, id := range append(append([]string(nil), run...), queued...) {
		resp, ok, pan := fetchID(as, id)
		if pan != "" || !ok {
			return &mismatch{"request-lost", fmt.Sprintf("%s: StartSearch returned nil for %s but FetchSearchResult: found=%v panic=%s", ctxt, id, ok, pan)}
		}
		if resp.Done {
			return &mismatch{"done-too-early", fmt.Sprintf("%s: request %s reports done while it is held / queued", ctxt, id)}
		}
	}

	// ---- the crash: the directory as it is (every goroutine is blocked), and MustStartAsync over it
	if err := copyDir(dir, dir2); err != nil {
		return &mismatch{"infra", "image: " + err.Error()}
	}
	d2 := &dirFiles{dir: dir2, names: append([]string(nil), w.captured...), id: me}
	imCrash, unkCrash := d2.classify(nslots)
	kept := map[string]os.FileInfo{}
	for _, id := range run {
		dd := &dirFiles{dir: dir2, names: w.captured, id: id}
		for i := 0; i < b.NF-1; i++ {
			if fi, err := os.Stat(dd.qpr(i)); err == nil {
				kept[dd.qpr(i)] = fi
			}
		}
	}
	as2 := fracmanager.MustStartAsync(fracmanager.AsyncSearcherConfig{DataDir: dir2, Parallelism: par}, w.e.MP, w.e.FM())
	defer func() {
		if res != nil { // nothing of the restarted searcher may run on when the store (and its directory) goes away
			for _, id := range accepted {
				waitDoneID(as2, id, 3*time.Second)
			}
		}
	}()
	role := func(id string) string {
		for _, q := range queued {
			if q == id {
				return fmt.Sprintf("accepted by StartSearch and still waiting for one of the %d worker slots", par)
			}
		}
		for _, q := range run {
			if q == id {
				return fmt.Sprintf("with %d of %d partial results persisted", b.NF-1, b.NF)
			}
		}
		return "finished"
	}
	for _, id := range accepted {
		if _, ok, pan := fetchID(as2, id); !ok || pan != "" {
			return &mismatch{"request-lost", fmt.Sprintf("%s: request %s, %s at the crash, is forgotten by the restart (MustStartAsync over the directory as it was): FetchSearchResult found=%v panic=%s; its .info file at the crash: %s",
				ctxt, id, role(id), ok, pan, (&dirFiles{dir: dir2, names: w.captured, id: id}).infoClass())}
		}
	}
	for _, id := range accepted {
		resp, kk, what := waitDoneID(as2, id, doneTimeout)
		if kk != "" {
			return &mismatch{kk, fmt.Sprintf("%s: after the restart request %s (%s at the crash): %s", ctxt, id, role(id), what)}
		}
		if m := w.checkDone(resp); m != nil {
			m.what = fmt.Sprintf("%s: after the restart request %s (%s at the crash): %s", ctxt, id, role(id), m.what)
			return m
		}
	}
	if len(queued) > 0 {
		qQueued.Add(int64(len(queued)))
		nontriv.Add(1)
	}
	for p, fi := range kept {
		if now, err := os.Stat(p); err != nil || !os.SameFile(fi, now) || !now.ModTime().Equal(fi.ModTime()) {
			return &mismatch{"partial-redone", fmt.Sprintf("%s: after the restart the persisted partial result %s was written again", ctxt, filepath.Base(p))}
		}
	}
	// the image of the model's request at the crash, and its directory at the end
	if !sameImg(imCrash, b.Img) || len(ownUnknown(unkCrash, me)) > 0 {
		return &mismatch{"dir-at-crash", fmt.Sprintf("%s: files of the request at the crash: got %+v %v, model %+v", ctxt, imCrash, ownUnknown(unkCrash, me), b.Img)}
	}
	// requests the model had not started yet
	for _, id := range later {
		if m := w.startID(as2, id); m != nil {
			return m
		}
		resp, kk, what := waitDoneID(as2, id, doneTimeout)
		if kk != "" {
			return &mismatch{kk, fmt.Sprintf("%s: request %s started after the restart: %s", ctxt, id, what)}
		}
		if m := w.checkDone(resp); m != nil {
			return m
		}
	}
	if im, unk := d2.classify(nslots); !sameImg(im, b.Final) || len(ownUnknown(unk, me)) > 0 {
		return &mismatch{"final-dir", fmt.Sprintf("%s: files of the request at the end: got %+v %v, model %+v", ctxt, im, ownUnknown(unk, me), b.Final)}
	}

	// ---- no crash: the held searches go on, the queue drains on the first searcher
	release()
	for _, id := range accepted {
		resp, kk, what := waitDoneID(as, id, doneTimeout)
		if kk != "" {
			return &mismatch{kk, fmt.Sprintf("%s; no crash, the held searches continue: request %s: %s", ctxt, id, what)}
		}
		if m := w.checkDone(resp); m != nil {
			m.what = fmt.Sprintf("%s; no crash: request %s: %s", ctxt, id, m.what)
			return m
		}
	}
	d1 := &dirFiles{dir: dir, names: append([]string(nil), w.captured...), id: me}
	if im, unk := d1.classify(nslots); !sameImg(im, b.Final) || len(ownUnknown(unk, me)) > 0 {
		return &mismatch{"final-dir", fmt.Sprintf("%s; no crash: files of the request at the end: got %+v %v, model %+v", ctxt, im, ownUnknown(unk, me), b.Final)}
	}
	return nil
}

func (d *dirFiles) infoClass() string {
	b, ok := read(d.info())
	if !ok {
		return "absent"
	}
	if dn, ok := infoDone(b); !ok {
		return "undecodable"
	} else if dn {
		return "done"
	}
	return "not done"
}
