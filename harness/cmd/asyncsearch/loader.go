// Several persisted requests across a restart (AsyncSearchLoader.tla: Start / Crash / LoadBegin /
// LoadOne / LoadEnd).
//
// A job with "loader": K additionally replays K LOADER BEHAVIOURS.  A loader behaviour is a finished
// history of AsyncSearchLoader.tla: NR requests in ONE async-search directory, each with ITS OWN captured
// fraction list (a subset of the store's fractions, selected by the request's own From/To) and its own
// parameter set (aggregation), a crash that finds each of them not started / accepted with k of its
// partial results persisted / finished, the boot path that decodes EVERY <id>.info (loadAsyncSearches),
// and the directory at the end.  The ids sort in the order of the model's request numbers (lr1 < lr2 <
// ...), which is the order filepath.Glob hands the files to the loader.
//
// Replay: the requests are started on a real searcher over the job's store and run to the end (the
// history without a crash: each must equal Searcher.SearchDocs over ITS fractions with ITS parameters,
// and own exactly its partial results).  The crash image is built in a second directory from these real
// files (the .info a request had when StartSearch returned, the partial results the image holds);
// MustStartAsync with the model's Parallelism is the restart.  Requests the image does not hold must
// be unknown and are started afterwards; EVERY request must be known, finish, and equal the synchronous
// search over its own fractions; persisted partial results are not written again; the directory at the
// end is the model's (per request: .info done, exactly the partial results of its list).
package main

import (
	"bufio"
	"bytes"
	"encoding/json"
	"flag"
	"fmt"
	"os"
	"path/filepath"
	"sort"
	"strings"
	"sync"
	"sync/atomic"
	"time"

	"github.com/ozontech/seq-db/frac/processor"
	"github.com/ozontech/seq-db/fracmanager"
	"github.com/ozontech/seq-db/parser"
	"github.com/ozontech/seq-db/seq"

	"verifharness/env"
)

type LImg struct {
	Info string `json:"info"`
	Qpr  []bool `json:"qpr"`
}

type LBeh struct {
	ID      int      `json:"id"`
	NF      int      `json:"nf"`
	NR      int      `json:"nr"`
	Par     int      `json:"par"`
	Lists   [][]int  `json:"lists"`
	Prms    []int    `json:"prms"`
	Crashes [][]LImg `json:"crashes"`
	Final   []LImg   `json:"final"`
	Differ  bool     `json:"differ"` // some crash leaves two unfinished requests with different fraction lists
}

var (
	lbehFile  = flag.String("lbehs", "", "file with the loader behaviours of AsyncSearchLoader.tla (several persisted requests across a restart)")
	lcovFile  = flag.String("lcov", "", "append the ids of the loader behaviours replayed by this process, and the counters, to this file")
	lbehs     = map[int][]LBeh{} // fractions of the store -> loader behaviours
	lcursor   = map[int]int{}
	lcovered  sync.Map
	lRun      atomic.Int64 // behaviours replayed
	lRestarts atomic.Int64 // restarts over a directory with >= 2 persisted requests
	lDiffer   atomic.Int64 // ... whose persisted, unfinished requests have different fraction lists
	lSkip     atomic.Int64 // no behaviour realisable on the job's store
)

func loadLoader() error {
	if *lbehFile == "" {
		return nil
	}
	fh, err := os.Open(*lbehFile)
	if err != nil {
		return err
	}
	defer fh.Close()
	bs := bufio.NewScanner(fh)
	bs.Buffer(make([]byte, 1<<20), 1<<26)
	for bs.Scan() {
		var b LBeh
		if err := json.Unmarshal(bs.Bytes(), &b); err != nil || b.NR < 1 || len(b.Lists) != b.NR || len(b.Prms) != b.NR || len(b.Final) != b.NR || b.Par < 1 {
			return fmt.Errorf("bad loader behaviour %s: %v", bs.Text(), err)
		}
		k := b.NF
		if b.Differ {
			k = -b.NF // (their own round-robin: every other replay of a job takes one of these)
		}
		lbehs[k] = append(lbehs[k], b)
	}
	return nil
}

func writeLoaderCov() {
	if *lcovFile == "" {
		return
	}
	var ids []string
	lcovered.Range(func(k, _ any) bool { ids = append(ids, fmt.Sprint(k)); return true })
	if fh, err := os.OpenFile(*lcovFile, os.O_APPEND|os.O_CREATE|os.O_WRONLY, 0o644); err == nil {
		fmt.Fprintln(fh, "#lcov "+strings.Join(ids, " "))
		fmt.Fprintf(fh, "#lstats behaviours=%d restarts=%d restartsDifferentLists=%d skipped=%d\n", lRun.Load(), lRestarts.Load(), lDiffer.Load(), lSkip.Load())
		fh.Close()
	}
}

func mask(list []int) int {
	m := 0
	for _, f := range list {
		m |= 1 << (f - 1)
	}
	return m
}

// ranges: for every subset of the store's (non-empty) fractions that SOME time range selects, one such
// range - found with the code's own FilterInRange over the boundaries of the fractions.
func (w *world) ranges() (names []string, byMask map[int][2]seq.MID) {
	all := w.e.FM().GetAllFracs().FilterInRange(0, seq.MID(^uint64(0)>>1))
	idx := map[string]int{}
	cand := map[seq.MID]bool{0: true}
	var hi seq.MID
	for i, f := range all {
		names = append(names, f.Info().Name())
		idx[f.Info().Name()] = i
		fr, to := f.Info().From, f.Info().To
		for _, m := range []seq.MID{fr, to, to + 1, fr + (to-fr)/2} {
			cand[m] = true
		}
		if fr > 0 {
			cand[fr-1] = true
		}
		if to > hi {
			hi = to
		}
	}
	cand[hi+1000] = true
	var cs []seq.MID
	for m := range cand {
		cs = append(cs, m)
	}
	sort.Slice(cs, func(i, j int) bool { return cs[i] < cs[j] })
	byMask = map[int][2]seq.MID{}
	for i, a := range cs {
		for _, b := range cs[i:] {
			m := 0
			for _, f := range w.e.FM().GetAllFracs().FilterInRange(a, b) {
				m |= 1 << idx[f.Info().Name()]
			}
			if _, ok := byMask[m]; !ok {
				byMask[m] = [2]seq.MID{a, b}
			}
		}
	}
	return names, byMask
}

// lreq: one request of the behaviour on this store.
type lreq struct {
	id     string
	names  []string // its captured fractions
	params processor.SearchParams
	args   []seq.AggregateArgs
	fn     string
	infoND []byte
	infoD  []byte
}

func (w *world) syncOver(q *lreq) (*seq.QPR, error) {
	fr, err := w.fracsByName(q.names)
	if err != nil {
		return nil, err
	}
	ast, err := parser.ParseSeqQL(w.query, w.e.MP.GetMapping())
	if err != nil {
		return nil, err
	}
	sp := q.params
	sp.AST = ast.Root
	r, err := env.SearchFracs(fr, w.e.O.FPI, sp)
	if err != nil {
		return nil, err
	}
	return r.QPR, nil
}

func (w *world) checkOwn(q *lreq, resp *fracmanager.FetchSearchResultResponse) *mismatch {
	evals.Add(1)
	syn, err := w.syncOver(q)
	if err != nil {
		return &mismatch{"infra", "synchronous search failed: " + err.Error()}
	}
	if k, what := sameQPR(&resp.QPR, syn, q.args, q.fn); k != "" {
		return &mismatch{"differs-" + k, fmt.Sprintf("request %s against the synchronous search over ITS fractions %v: %s", q.id, q.names, what)}
	}
	if resp.HistInterval != q.params.HistInterval || resp.Order != q.params.Order || len(resp.AggQueries) != len(q.params.AggQ) {
		return &mismatch{"meta", fmt.Sprintf("request %s: response meta: interval %d order %d aggs %d", q.id, resp.HistInterval, resp.Order, len(resp.AggQueries))}
	}
	return nil
}

// lfiles: the files the model's image gives the requests (names in the real directory).
func lfiles(im []LImg, reqs []*lreq, names []string) map[string]bool {
	out := map[string]bool{}
	for r, q := range reqs {
		if im[r].Info != "absent" {
			out[q.id+".info"] = true
		}
		for f, has := range im[r].Qpr {
			if has {
				out[q.id+"."+names[f]+".qpr"] = true
			}
		}
	}
	return out
}

// sameDir: the real directory against the model's image: the same files, every .info decodes with the
// image's done flag, every partial result decodes.
func sameDir(dir string, im []LImg, reqs []*lreq, names []string) string {
	want := lfiles(im, reqs, names)
	ents, _ := os.ReadDir(dir)
	var extra, missing []string
	have := map[string]bool{}
	for _, e := range ents {
		have[e.Name()] = true
		if !want[e.Name()] {
			extra = append(extra, e.Name())
		}
	}
	for n := range want {
		if !have[n] {
			missing = append(missing, n)
		}
	}
	sort.Strings(missing)
	if len(extra) > 0 || len(missing) > 0 {
		return fmt.Sprintf("files the model does not have %v, files of the model that are missing %v", extra, missing)
	}
	for r, q := range reqs {
		if im[r].Info == "absent" {
			continue
		}
		b, _ := read(filepath.Join(dir, q.id+".info"))
		if dn, ok := infoDone(b); !ok || dn != (im[r].Info == "d") {
			return fmt.Sprintf("%s.info: decodes=%v done=%v, model %s", q.id, ok, dn, im[r].Info)
		}
	}
	for n := range want {
		if strings.HasSuffix(n, ".qpr") {
			if b, _ := read(filepath.Join(dir, n)); !qprWhole(b) {
				return n + " does not decode"
			}
		}
	}
	return ""
}

func (w *world) loaderJob(report func(int, *mismatch)) {
	for k := 0; k < w.j.Loader; k++ {
		names, byMask := w.ranges()
		keys := []int{len(names)}
		if k%2 == 0 {
			keys = []int{-len(names), len(names)}
		}
		// the next behaviour all of whose lists some time range selects on this store
		var b *LBeh
		cursorMu.Lock()
		for _, key := range keys {
			all := lbehs[key]
			for try := 0; try < len(all) && b == nil; try++ {
				c := &all[lcursor[key]%len(all)]
				lcursor[key]++
				ok := true
				for _, l := range c.Lists {
					if _, have := byMask[mask(l)]; !have {
						ok = false
					}
				}
				if ok {
					b = c
				}
			}
		}
		cursorMu.Unlock()
		if b == nil {
			lSkip.Add(1)
			return
		}
		if m := w.loaderStage(b, k, names, byMask); m != nil {
			if m.kind != "infra" {
				m.kind = "loader-" + m.kind
			}
			raw, _ := json.Marshal(b)
			m.what = m.what + "; loader behaviour " + string(raw)
			report(-5, m)
			return
		}
		lcovered.Store(b.ID, true)
	}
}

// altAgg: the second parameter set - another aggregation over the same documents.
func (w *world) altAgg() env.Agg {
	if w.agg.Func == "count" {
		return env.Agg{Func: "unique", GroupBy: "g"}
	}
	return env.Agg{Func: "count", GroupBy: "g"}
}

func (w *world) loaderStage(b *LBeh, k int, names []string, byMask map[int][2]seq.MID) (res *mismatch) {
	lRun.Add(1)
	dir := filepath.Join(w.e.O.Dir, fmt.Sprintf("asl-%d", k))
	reqs := make([]*lreq, b.NR)
	for r := range reqs {
		rg := byMask[mask(b.Lists[r])]
		q := &lreq{id: fmt.Sprintf("lr%d", r+1), params: w.params, args: w.args, fn: w.agg.Func}
		q.params.From, q.params.To = rg[0], rg[1]
		if b.Prms[r] != 1 {
			a := w.altAgg()
			q.params.AggQ, q.args, q.fn = env.AggQueries([]env.Agg{a}), []seq.AggregateArgs{env.AggArgs(a)}, a.Func
		}
		for _, f := range b.Lists[r] {
			q.names = append(q.names, names[f-1])
		}
		reqs[r] = q
	}
	start := func(as *fracmanager.AsyncSearcher, q *lreq) *mismatch {
		if err := as.StartSearch(fracmanager.AsyncSearchRequest{ID: q.id, Query: w.query, Params: q.params, Retention: 24 * time.Hour}); err != nil {
			return &mismatch{"start-error", "StartSearch of " + q.id + ": " + err.Error()}
		}
		return nil
	}
	ctxt := func(im []LImg) string {
		var s []string
		for r, q := range reqs {
			st := map[string]string{"absent": "not started", "d": "finished"}[im[r].Info]
			if im[r].Info == "nd" {
				n := 0
				for _, h := range im[r].Qpr {
					if h {
						n++
					}
				}
				st = fmt.Sprintf("accepted, %d of %d partial results persisted", n, len(q.names))
			}
			s = append(s, fmt.Sprintf("%s over fractions %v (%s)", q.id, b.Lists[r], st))
		}
		return fmt.Sprintf("%d requests in one directory at the crash: %s; Parallelism %d", b.NR, strings.Join(s, ", "), b.Par)
	}

	// ---- no crash: every request runs to the end on one searcher
	as := fracmanager.MustStartAsync(fracmanager.AsyncSearcherConfig{DataDir: dir, Parallelism: b.NR}, w.e.MP, w.e.FM())
	drain := func(s *fracmanager.AsyncSearcher) { // nothing may run on when the store (and its directory) goes away
		if res != nil {
			for _, q := range reqs {
				waitDoneID(s, q.id, 3*time.Second)
			}
		}
	}
	defer func() { drain(as) }()
	for _, q := range reqs {
		if m := start(as, q); m != nil {
			return m
		}
		if bts, ok := read(filepath.Join(dir, q.id+".info")); ok {
			if dn, ok := infoDone(bts); ok && !dn {
				q.infoND = bts // the file StartSearch wrote, read before the request finished
			}
		}
	}
	for _, q := range reqs {
		resp, kk, what := waitDoneID(as, q.id, doneTimeout)
		if kk != "" {
			return &mismatch{kk, fmt.Sprintf("%d requests on one searcher, no crash: request %s: %s", b.NR, q.id, what)}
		}
		if m := w.checkOwn(q, resp); m != nil {
			m.what = fmt.Sprintf("%d requests on one searcher, no crash: %s", b.NR, m.what)
			return m
		}
		q.infoD, _ = read(filepath.Join(dir, q.id+".info"))
		if dn, ok := infoDone(q.infoD); !ok || !dn {
			return &mismatch{"done-not-durable", "request " + q.id + " reports done but its .info file does not say so"}
		}
		if q.infoND == nil && len(q.names) > 0 {
			// the request finished before its first .info could be read: the same encoding with the flag cleared
			q.infoND = bytes.Replace(q.infoD, []byte(`"Done":true`), []byte(`"Done":false`), 1)
			if dn, ok := infoDone(q.infoND); !ok || dn {
				return &mismatch{"infra", "cannot derive the not-done .info of " + q.id}
			}
		}
	}
	if what := sameDir(dir, b.Final, reqs, names); what != "" {
		return &mismatch{"final-dir", fmt.Sprintf("%d requests on one searcher, no crash: directory at the end: %s", b.NR, what)}
	}

	// ---- every crash of the history: the image, the restart, the end
	for ci, im := range b.Crashes {
		dir2 := fmt.Sprintf("%s-crash%d", dir, ci)
		if err := os.MkdirAll(dir2, 0o777); err != nil {
			return &mismatch{"infra", err.Error()}
		}
		persisted, unfinished := 0, map[string]bool{}
		for r, q := range reqs {
			switch im[r].Info {
			case "nd":
				persisted++
				unfinished[fmt.Sprint(b.Lists[r])] = true
				if err := os.WriteFile(filepath.Join(dir2, q.id+".info"), q.infoND, 0o644); err != nil {
					return &mismatch{"infra", err.Error()}
				}
			case "d":
				persisted++
				if err := os.WriteFile(filepath.Join(dir2, q.id+".info"), q.infoD, 0o644); err != nil {
					return &mismatch{"infra", err.Error()}
				}
			}
		}
		kept := map[string]os.FileInfo{}
		for n := range lfiles(im, reqs, names) {
			if !strings.HasSuffix(n, ".qpr") {
				continue
			}
			bts, ok := read(filepath.Join(dir, n))
			if !ok {
				return &mismatch{"infra", "no real partial result " + n + " to build the image from"}
			}
			if err := os.WriteFile(filepath.Join(dir2, n), bts, 0o644); err != nil {
				return &mismatch{"infra", err.Error()}
			}
			kept[n], _ = os.Stat(filepath.Join(dir2, n))
		}
		if what := sameDir(dir2, im, reqs, names); what != "" {
			return &mismatch{"infra", "image not built: " + what}
		}
		as2 := fracmanager.MustStartAsync(fracmanager.AsyncSearcherConfig{DataDir: dir2, Parallelism: b.Par}, w.e.MP, w.e.FM())
		defer func() { drain(as2) }()
		if persisted >= 2 {
			lRestarts.Add(1)
			nontriv.Add(1)
			if len(unfinished) >= 2 {
				lDiffer.Add(1)
			}
		}
		for r, q := range reqs {
			_, ok, pan := fetchID(as2, q.id)
			if pan != "" || ok != (im[r].Info != "absent") {
				kind := "request-lost"
				if ok {
					kind = "ghost-request"
				}
				return &mismatch{kind, fmt.Sprintf("%s: after the restart FetchSearchResult(%s): found=%v panic=%s", ctxt(im), q.id, ok, pan)}
			}
			if !ok {
				if m := start(as2, q); m != nil {
					return m
				}
			}
		}
		var first *mismatch
		for _, q := range reqs {
			resp, kk, what := waitDoneID(as2, q.id, doneTimeout)
			if kk != "" {
				return &mismatch{kk, fmt.Sprintf("%s: after the restart request %s: %s", ctxt(im), q.id, what)}
			}
			if m := w.checkOwn(q, resp); m != nil && first == nil {
				m.what = fmt.Sprintf("%s: after the restart: %s", ctxt(im), m.what)
				first = m // (every request is awaited all the same: nothing may run on when the store goes away)
			}
		}
		if first != nil {
			return first
		}
		for n, fi := range kept {
			if now, err := os.Stat(filepath.Join(dir2, n)); err != nil || !os.SameFile(fi, now) || !now.ModTime().Equal(fi.ModTime()) {
				return &mismatch{"partial-redone", fmt.Sprintf("%s: after the restart the persisted partial result %s was written again", ctxt(im), n)}
			}
		}
		if what := sameDir(dir2, b.Final, reqs, names); what != "" {
			return &mismatch{"final-dir", fmt.Sprintf("%s: directory at the end: %s", ctxt(im), what)}
		}
	}
	return nil
}
