// The proxy over several shards (AsyncSearch.tla, section "the proxy over several shards").
//
// A job with "shards": N (2 or 3) additionally deals the fractions of its corpus to N real in-process
// stores and drives the REAL search.Ingestor.StartAsyncSearch / FetchAsyncSearchResult over them.
//
//   - Every store that has captured fractions is really interrupted (verif hook pf.read, goroutine
//     ended with Goexit) right before it searches its last captured fraction: the store is up, knows
//     the request, is not done and has n-1 persisted partial results.  From there every state "k of n
//     processed, not done" of that shard is produced on the real store by moving persisted .qpr files
//     out of the request's directory (FetchSearchResult reads the directory at every call), and the
//     answer of the real gRPC handler is RECORDED.  The store is then really restarted (halt, reopen:
//     MustStartAsync resumes the request from a prefix of its partial results), finishes, and its
//     done answer is recorded ("all processed, not yet marked" is that answer with Done = false).
//   - LIVE: after the start and after every restart (the shards finish in an order drawn from the
//     job) the real proxy fetch is compared with the model's answer for the current vector.
//   - REPLAY: for EVERY vector of per-shard states AsyncSearch.tla emits for N shards (EmitPVec:
//     per shard none / some / all processed / done, with the proxy's done flag decided by the spec),
//     every shard's client is made to give its recorded answer for that state and the real
//     Ingestor.FetchAsyncSearchResult runs over them.  Where the model's answer is done the proxy
//     must report done; EVERY answer that reports done must equal the proxy's synchronous Search
//     over the same stores and the AggCases reference (PDoneImpliesSyncResult) - so a done flag that
//     is not the model's is a violation exactly when the answer it vouches for is incomplete.  What
//     a not-done answer holds is not judged (the property does not speak of it).
//
// A shard position may get a first replica that never saw the request (it refuses StartAsyncSearch
// and answers NotFound to FetchAsyncSearchResult): `ghost` of the model.
package main

import (
	"context"
	"fmt"
	"math"
	"os"
	"path/filepath"
	"sort"
	"strings"
	"sync"
	"sync/atomic"
	"time"

	"google.golang.org/grpc"
	"google.golang.org/grpc/codes"
	"google.golang.org/grpc/status"
	"google.golang.org/protobuf/proto"

	pb "github.com/ozontech/seq-db/pkg/storeapi"
	"github.com/ozontech/seq-db/proxy/search"
	"github.com/ozontech/seq-db/proxy/stores"
	"github.com/ozontech/seq-db/seq"

	"verifharness/cases"
	"verifharness/env"
)

// PVec is one proxy-level observation of AsyncSearch.tla, reduced by checks/c19.py to the class of
// every shard: "k0" nothing processed, "some" (0 < k < n), "all" (k = n, not marked), "done".
type PVec struct {
	NS     int      `json:"ns"`
	Cls    []string `json:"cls"`
	Done   bool     `json:"done"`
	Sync   bool     `json:"sync"` // the model's answer equals its synchronous search (always so when done)
}

var (
	pvecs      = map[int][]PVec{}          // shards -> vectors
	pvecByKey  = map[string]*PVec{}        // "3:k0,some,done" -> vector
	shardJobs  atomic.Int64
	vecsRun    atomic.Int64
	vecsSkip   atomic.Int64
	liveObs    atomic.Int64
	shardKills atomic.Int64
	pcovered   sync.Map // vector key -> true
)

// SVec is one outcome of Ingestor.StartAsyncSearch decided by AsyncSearch.tla (EmitStart): which replicas
// of which shard accept the StartAsyncSearch call -> the client gets the id (ok) or the error.
type SVec struct {
	NS       int      `json:"ns"`
	NRep     int      `json:"nrep"`
	Acc      [][]bool `json:"acc"`
	Ok       bool     `json:"ok"`
	ErrShard int      `json:"errShard"` // position (from 1) of the shard whose replicas all refused; 0 = none
	Calls    [][]int  `json:"calls"`
	Key      string   `json:"key"`
}

var svecs = map[int][]SVec{}

func pkey(cls []string) string { return fmt.Sprintf("%d:%s", len(cls), strings.Join(cls, ",")) }

// ---------------------------------------------------------------- clients

// shardClient is the connection of the proxy to one real store. It forwards to the store's current
// in-process client (which changes when the store is reopened) unless a recorded answer is set.
type shardClient struct {
	pb.StoreApiClient // nil: only the calls below are used by the paths driven here
	e      *env.Env
	replay atomic.Pointer[pb.FetchAsyncSearchResultResponse]
	starts atomic.Int64
}

func (c *shardClient) Search(ctx context.Context, in *pb.SearchRequest, o ...grpc.CallOption) (*pb.SearchResponse, error) {
	return c.e.Client.Search(ctx, in, o...)
}

func (c *shardClient) StartAsyncSearch(ctx context.Context, in *pb.StartAsyncSearchRequest, o ...grpc.CallOption) (*pb.StartAsyncSearchResponse, error) {
	c.starts.Add(1)
	return c.e.Client.StartAsyncSearch(ctx, in, o...)
}

func (c *shardClient) FetchAsyncSearchResult(ctx context.Context, in *pb.FetchAsyncSearchResultRequest, o ...grpc.CallOption) (*pb.FetchAsyncSearchResultResponse, error) {
	if r := c.replay.Load(); r != nil {
		return proto.Clone(r).(*pb.FetchAsyncSearchResultResponse), nil
	}
	return c.e.Client.FetchAsyncSearchResult(ctx, in, o...)
}

// ghostClient is a replica that was unreachable when the search was started and has never heard of
// it; synchronous searches it serves from the same data.
type ghostClient struct {
	pb.StoreApiClient
	real *shardClient
}

func (c *ghostClient) Search(ctx context.Context, in *pb.SearchRequest, o ...grpc.CallOption) (*pb.SearchResponse, error) {
	return c.real.Search(ctx, in, o...)
}

func (c *ghostClient) StartAsyncSearch(context.Context, *pb.StartAsyncSearchRequest, ...grpc.CallOption) (*pb.StartAsyncSearchResponse, error) {
	return nil, status.Error(codes.Unavailable, "replica is down")
}

func (c *ghostClient) FetchAsyncSearchResult(context.Context, *pb.FetchAsyncSearchResultRequest, ...grpc.CallOption) (*pb.FetchAsyncSearchResultResponse, error) {
	return nil, status.Error(codes.NotFound, "search not found")
}

// ---------------------------------------------------------------- one shard

type shard struct {
	e        *env.Env
	cli      *shardClient
	captured []string // fractions in range, in the store's order
	gateKey  string   // set when the last captured fraction is the active one
	gt       *gate
	adir     string
	stash    string
	finished bool
	resuming bool // the store's own goroutine may be writing
	k        int                                               // persisted partial results right now (while not finished)
	rec      map[string][]*pb.FetchAsyncSearchResultResponse // class -> recorded answers
}

func (s *shard) n() int { return len(s.captured) }

// class of the shard's present state
func (s *shard) class() string {
	switch {
	case s.finished:
		return "done"
	case s.k == 0:
		return "k0"
	case s.k < s.n():
		return "some"
	}
	return "all"
}

func (s *shard) qpr(id string, i int) string {
	return filepath.Join(s.adir, id+"."+s.captured[i]+".qpr")
}

// setPrefix leaves exactly the partial results of the first k captured fractions in the request's
// directory (the others are moved to / from the stash).
func (s *shard) setPrefix(id string, k, have int) error {
	for i := 0; i < have; i++ {
		p, q := s.qpr(id, i), filepath.Join(s.stash, filepath.Base(s.qpr(id, i)))
		_, inDir := os.Stat(p)
		if i < k && inDir != nil {
			if err := os.Rename(q, p); err != nil {
				return err
			}
		}
		if i >= k && inDir == nil {
			if err := os.Rename(p, q); err != nil {
				return err
			}
		}
	}
	return nil
}

// ---------------------------------------------------------------- the stage

func (w *world) caseDocs() []env.Doc {
	docs := cases.EnvDocs(w.j.Case.Corpus)
	if w.j.Pipe {
		for i := range docs {
			for k, v := range docs[i].Tok["g"] {
				docs[i].Tok["g"][k] = v + pipeSuffix
			}
		}
	}
	return docs
}

// units: the parts of the case, split until there are two per shard (as far as the documents go)
func units(parts [][]int, want int) [][]int {
	var us [][]int
	for _, p := range parts {
		if len(p) > 0 {
			us = append(us, append([]int(nil), p...))
		}
	}
	for len(us) < want {
		big := -1
		for i, u := range us {
			if len(u) >= 2 && (big < 0 || len(u) > len(us[big])) {
				big = i
			}
		}
		if big < 0 {
			break
		}
		u := us[big]
		h := len(u) / 2
		us[big] = u[:h]
		us = append(us, u[h:])
	}
	return us
}

func (w *world) shardStage() (res *mismatch) {
	j, c := w.j, &w.j.Case
	N := j.Shards
	vecs := pvecs[N]
	if len(vecs) == 0 {
		return &mismatch{"infra", fmt.Sprintf("no proxy vectors for %d shards", N)}
	}
	shardJobs.Add(1)
	docs := w.caseDocs()
	us := units(c.Parts, 2*N)
	per := make([][][]env.Doc, N)
	for ui, u := range us {
		var bulk []env.Doc
		for _, i := range u {
			bulk = append(bulk, docs[i-1])
		}
		s := (ui + j.N) % N
		per[s] = append(per[s], bulk)
	}
	if j.Dup {
		// re-delivered bulks inside a shard: a shard with one fraction gets its first document a second time, in a fraction of its own
		for si := range per {
			if len(per[si]) == 1 {
				per[si] = [][]env.Doc{{per[si][0][0]}, per[si][0]}
			}
		}
	}
	dupx := j.Dup && len(per[0]) > 0
	if dupx {
		// a bulk delivered again, to another shard: the first document of the first shard also sits on the last one
		d := per[0][0][0]
		if len(per[N-1]) == 0 {
			per[N-1] = append(per[N-1], []env.Doc{d})
		} else {
			l := len(per[N-1]) - 1
			per[N-1][l] = append(append([]env.Doc(nil), per[N-1][l]...), d)
		}
	}
	inRange := func(b []env.Doc) bool {
		for _, d := range b {
			if d.MID >= c.Q.From && d.MID <= c.Q.To {
				return true
			}
		}
		return false
	}
	shs := make([]*shard, N)
	startedID := ""
	defer func() {
		for _, s := range shs {
			if s != nil {
				if s.gt != nil {
					s.gt.verdict <- false // a request that is still on its way to the gate ends there: nothing writes during the teardown
				}
				if s.resuming && startedID != "" {
					settle(filepath.Join(s.adir, startedID+".info"))
				}
				s.e.Close()
			}
		}
	}()
	for si := 0; si < N; si++ {
		e, err := env.New(env.Opts{SkipFsync: true, FPI: 1 + (j.N+si)%2})
		if err != nil {
			return &mismatch{"infra", err.Error()}
		}
		s := &shard{e: e, rec: map[string][]*pb.FetchAsyncSearchResultResponse{}}
		s.cli = &shardClient{e: e}
		s.adir = filepath.Join(e.O.Dir, "async_searches")
		s.stash = filepath.Join(e.O.Dir, "stash-qpr")
		_ = os.MkdirAll(s.stash, 0o755)
		shs[si] = s
		// a unit with a document in range goes last: it stays the active fraction, the one that can be gated
		bulks := per[si]
		sort.SliceStable(bulks, func(a, b int) bool { return !inRange(bulks[a]) && inRange(bulks[b]) })
		for bi, b := range bulks {
			if err := e.Bulk(b); err != nil {
				return &mismatch{"infra", "bulk: " + err.Error()}
			}
			e.WaitIdle()
			if bi < len(bulks)-1 {
				e.Seal()
			}
		}
		for _, f := range e.FM().GetAllFracs().FilterInRange(w.params.From, w.params.To) {
			s.captured = append(s.captured, f.Info().Name())
		}
		if n := s.n(); n > 0 {
			if act := e.FM().Active().Info().Name(); s.captured[n-1] == act {
				s.gateKey = filepath.Join(e.O.Dir, act)
			}
		}
	}
	// the real proxy over the shards
	mk := func() *search.Ingestor {
		clients := map[string]pb.StoreApiClient{}
		st := &stores.Stores{}
		for si, s := range shs {
			var hosts []string
			if j.GhostMask>>si&1 == 1 {
				h := fmt.Sprintf("s%dghost", si)
				clients[h] = &ghostClient{real: s.cli}
				hosts = append(hosts, h)
			}
			h := fmt.Sprintf("s%dr0", si)
			clients[h] = s.cli
			hosts = append(hosts, h)
			st.Shards = append(st.Shards, hosts)
			st.Vers = append(st.Vers, "")
		}
		empty := &stores.Stores{Shards: [][]string{}, Vers: []string{}}
		return search.NewIngestor(search.Config{HotStores: st, HotReadStores: empty, ReadStores: empty, WriteStores: empty}, clients)
	}
	ing := mk()
	for _, s := range shs {
		if s.gateKey != "" {
			s.gt = &gate{arrived: make(chan struct{}), verdict: make(chan bool, 1)}
			gates.Store(s.gateKey, s.gt)
		}
	}
	pagg := search.AggQuery{Field: w.agg.Field, GroupBy: w.agg.GroupBy, Func: w.args[0].Func, Quantiles: w.agg.Quantiles, Interval: seq.MID(w.agg.Interval)}
	ar := search.AsyncRequest{Query: w.query, From: time.UnixMilli(int64(c.Q.From)), To: time.UnixMilli(int64(c.Q.To)),
		Order: w.params.Order, Aggregations: []search.AggQuery{pagg}, HistogramInterval: seq.MID(c.Q.Hist)}
	start, err := ing.StartAsyncSearch(context.Background(), ar)
	if err != nil {
		return &mismatch{"shards-start-error", err.Error()}
	}
	id := start.ID
	startedID = id
	for si, s := range shs {
		if got := s.cli.starts.Load(); got != 1 {
			return &mismatch{"shards-start-count", fmt.Sprintf("shard %d of %d got %d StartAsyncSearch calls", si, N, got)}
		}
		if s.gt == nil {
			// nothing captured (done at the start), or no active fraction among the captured ones: the store finishes by itself
			s.resuming = true
			if m := s.waitStoreDone(id); m != nil {
				return m
			}
			s.resuming = false
			s.finished = true
			continue
		}
		select {
		case <-s.gt.arrived:
		case <-time.After(doneTimeout):
			return &mismatch{"never-done", fmt.Sprintf("shard %d never reached its last fraction", si)}
		}
		s.gt.verdict <- false // the request's goroutine ends here: the store stays up, the request is not done
		s.gt = nil
		shardKills.Add(1)
		s.k = s.n() - 1
	}
	time.Sleep(time.Millisecond)

	// ---- what a fetch must give, per AsyncSearch.tla
	fetch := func() (*search.FetchAsyncSearchResultResponse, *mismatch) {
		var resp search.FetchAsyncSearchResultResponse
		var err error
		pan := ""
		func() {
			defer func() {
				if r := recover(); r != nil {
					pan = fmt.Sprint(r)
				}
			}()
			resp, err = ing.FetchAsyncSearchResult(context.Background(), search.FetchAsyncSearchResultRequest{ID: id, Size: math.MaxInt32})
		}()
		if pan != "" {
			return nil, &mismatch{"shards-fetch-panics", "proxy FetchAsyncSearchResult panics: " + pan}
		}
		if err != nil {
			return nil, &mismatch{"shards-request-lost", "proxy FetchAsyncSearchResult: " + err.Error()}
		}
		return &resp, nil
	}
	var syn *seq.QPR
	sync := func() *mismatch {
		p := env.ProxyParams{Params: env.Params{From: c.Q.From, To: c.Q.To, Limit: math.MaxInt32, Order: map[bool]string{true: "asc", false: "desc"}[j.Asc],
			WithTotal: false, Interval: c.Q.Hist, Aggs: []env.Agg{w.agg}}, Size: math.MaxInt32}
		q, _, err := env.ProxySearch(ing, w.query, p)
		if err != nil || q == nil {
			return &mismatch{"infra", fmt.Sprintf("proxy synchronous search over %d shards: %v", N, err)}
		}
		syn = q
		return nil
	}
	if m := sync(); m != nil {
		return m
	}
	syn0 := fmt.Sprint(idsOf(syn))
	// PDoneImpliesSyncResult: an answer that reports done is the synchronous search over all shards
	doneIsSync := func(tag string, cls any, note string, resp *search.FetchAsyncSearchResultResponse) *mismatch {
		got := idsOf(&resp.QPR)
		if fmt.Sprint(got) != fmt.Sprint(idsOf(syn)) {
			return &mismatch{"shards-done-differs-ids", fmt.Sprintf("%s: shards %v: proxy reports done%s: IDs got %v sync %v", tag, cls, note, got, idsOf(syn))}
		}
		if histStr(resp.QPR.Histogram) != histStr(syn.Histogram) {
			return &mismatch{"shards-done-differs-hist", fmt.Sprintf("%s: shards %v: proxy reports done%s: histogram got %s sync %s", tag, cls, note, histStr(resp.QPR.Histogram), histStr(syn.Histogram))}
		}
		sres := syn.Aggregate(w.args)
		if len(resp.AggResult) != len(sres) {
			return &mismatch{"shards-done-differs-agg", fmt.Sprintf("%s: shards %v: proxy reports done%s: aggregations got %d sync %d", tag, cls, note, len(resp.AggResult), len(sres))}
		}
		for i := range sres {
			if what := sameAggResult(tag, resp.AggResult[i], sres[i], w.agg.Func, false); what != "" {
				return &mismatch{"shards-done-differs-agg", fmt.Sprintf("shards %v: proxy reports done%s: %s", cls, note, what)}
			}
		}
		if !dupx && !j.Dup {
			if what := againstRef(c, &resp.QPR, w.agg); what != "" {
				return &mismatch{"shards-ref", fmt.Sprintf("%s: shards %v: proxy reports done%s: against AggCases reference: %s", tag, cls, note, what)}
			}
		}
		return nil
	}
	judge := func(tag string, cls []string, resp *search.FetchAsyncSearchResultResponse) *mismatch {
		v := pvecByKey[pkey(cls)]
		if v == nil {
			return &mismatch{"infra", fmt.Sprintf("%s: vector %v is not among the states of AsyncSearch.tla", tag, cls)}
		}
		evals.Add(1)
		if v.Done && !resp.Done {
			return &mismatch{"shards-not-done", fmt.Sprintf("%s: shards %v: every shard is done but the proxy reports done=false (AsyncSearch.tla: PFetch.done)", tag, cls)}
		}
		if !resp.Done {
			return nil // the property speaks of answers that report done
		}
		note := ""
		if !v.Done {
			note = " (AsyncSearch.tla: not done for this vector)"
		}
		return doneIsSync(tag, cls, note, resp)
	}
	live := func(tag string) *mismatch {
		cls := make([]string, N)
		for si, s := range shs {
			cls[si] = s.class()
		}
		resp, m := fetch()
		if m != nil {
			m.what = fmt.Sprintf("%s, shards %v: %s", tag, cls, m.what)
			return m
		}
		liveObs.Add(1)
		return judge(tag, cls, resp)
	}
	if m := live("live, after the start"); m != nil {
		return m
	}

	// ---- record the real store's answer for every "k of n, not done"
	record := func(s *shard) (*pb.FetchAsyncSearchResultResponse, error) {
		return s.e.Client.FetchAsyncSearchResult(context.Background(), &pb.FetchAsyncSearchResultRequest{SearchId: id, Size: math.MaxInt32})
	}
	for si, s := range shs {
		if s.finished {
			continue
		}
		have := s.n() - 1
		for k := 0; k <= have; k++ {
			if err := s.setPrefix(id, k, have); err != nil {
				return &mismatch{"infra", "stash: " + err.Error()}
			}
			r, err := record(s)
			if err != nil {
				return &mismatch{"shards-request-lost", fmt.Sprintf("shard %d with %d of %d partial results: %v", si, k, s.n(), err)}
			}
			if r.Done {
				return &mismatch{"done-too-early", fmt.Sprintf("shard %d reports done with %d of %d partial results", si, k, s.n())}
			}
			s.k = k
			s.rec[s.class()] = append(s.rec[s.class()], r)
		}
	}
	// ---- the shards finish one after the other (real restart, resumed from a prefix), in the job's order
	order := make([]int, 0, N)
	for si := range shs {
		order = append(order, si)
	}
	for i := range order { // the Perm-th permutation
		k := i + (j.Perm/(i+1))%(N-i)
		order[i], order[k] = order[k], order[i]
	}
	for oi, si := range order {
		s := shs[si]
		if !s.finished {
			have := s.n() - 1
			keep := have
			if have > 0 {
				keep = (j.Perm + si + oi) % (have + 1)
			}
			s.e.Halt()
			if err := s.setPrefix(id, keep, have); err != nil {
				return &mismatch{"infra", "stash: " + err.Error()}
			}
			if err := s.e.Reopen(); err != nil {
				return &mismatch{"store-does-not-start", err.Error()}
			}
			s.resuming = true
			if m := s.waitStoreDone(id); m != nil {
				m.what = fmt.Sprintf("shard %d resumed from %d of %d partial results: %s", si, keep, s.n(), m.what)
				return m
			}
			s.resuming = false
			s.finished = true
			if keep > 0 || have == 0 {
				nontriv.Add(1)
			}
			if m := sync(); m != nil { // the synchronous answer does not change by a restart
				return m
			}
			if fmt.Sprint(idsOf(syn)) != syn0 {
				return &mismatch{"infra", "the synchronous answer changed after a store restart"}
			}
		}
		r, err := record(s)
		if err != nil || !r.Done {
			return &mismatch{"shards-request-lost", fmt.Sprintf("finished shard %d: done=%v err=%v", si, r != nil && r.Done, err)}
		}
		s.rec["done"] = []*pb.FetchAsyncSearchResultResponse{r}
		if s.n() > 0 {
			nd := proto.Clone(r).(*pb.FetchAsyncSearchResultResponse)
			nd.Done = false // all partial results persisted, the request not yet marked (doSearch between the loop and updateSearchInfo)
			s.rec["all"] = []*pb.FetchAsyncSearchResultResponse{nd}
		}
		if m := live(fmt.Sprintf("live, shards finished so far %v", order[:oi+1])); m != nil {
			return m
		}
	}
	// ---- every vector of the model over the recorded answers
	for vi := range vecs {
		v := &vecs[vi]
		ok := true
		for si, s := range shs {
			rs := s.rec[v.Cls[si]]
			if len(rs) == 0 {
				ok = false
				break
			}
			r := rs[(vi+j.N)%len(rs)]
			s.cli.replay.Store(r)
		}
		if !ok {
			vecsSkip.Add(1)
			continue
		}
		vecsRun.Add(1)
		pcovered.Store(pkey(v.Cls), true)
		resp, m := fetch()
		if m == nil {
			m = judge("replay", v.Cls, resp)
		} else {
			m.what = fmt.Sprintf("replay, shards %v: %s", v.Cls, m.what)
		}
		if m != nil {
			return m
		}
	}
	for _, s := range shs {
		s.cli.replay.Store(nil)
	}
	return w.startVectors(shs, ar, syn0, doneIsSync)
}

// waitStoreDone polls the store's own handler until the request is done there.
func (s *shard) waitStoreDone(id string) *mismatch {
	t0 := time.Now()
	for {
		var r *pb.FetchAsyncSearchResultResponse
		var err error
		pan := ""
		func() {
			defer func() {
				if x := recover(); x != nil {
					pan = fmt.Sprint(x)
				}
			}()
			r, err = s.e.Client.FetchAsyncSearchResult(context.Background(), &pb.FetchAsyncSearchResultRequest{SearchId: id, Size: math.MaxInt32})
		}()
		if pan != "" {
			return &mismatch{"fetch-panics", "store FetchAsyncSearchResult panics: " + pan}
		}
		if err != nil {
			return &mismatch{"request-lost", "store FetchAsyncSearchResult: " + err.Error()}
		}
		if r.Done {
			return nil
		}
		if time.Since(t0) > doneTimeout {
			return &mismatch{"never-done", "store: request not done"}
		}
		time.Sleep(500 * time.Microsecond)
	}
}

// ---------------------------------------------------------------- the start (AsyncSearch.tla: "the start at the proxy")

// startRep is one replica of a shard as Ingestor.StartAsyncSearch sees it: it accepts the call (the
// real store behind it starts the search) or refuses it (the store is down / restarting).  A replica
// has the request only if it got and accepted the call; otherwise it answers NotFound to a fetch.
type startRep struct {
	pb.StoreApiClient
	real   *shardClient
	accept bool
	code   codes.Code
	calls  atomic.Int64
	saw    sync.Map // search id -> true
}

func (c *startRep) Search(ctx context.Context, in *pb.SearchRequest, o ...grpc.CallOption) (*pb.SearchResponse, error) {
	return c.real.Search(ctx, in, o...)
}

func (c *startRep) StartAsyncSearch(ctx context.Context, in *pb.StartAsyncSearchRequest, o ...grpc.CallOption) (*pb.StartAsyncSearchResponse, error) {
	c.calls.Add(1)
	if !c.accept {
		return nil, status.Error(c.code, "replica refuses the start")
	}
	r, err := c.real.e.Client.StartAsyncSearch(ctx, in, o...)
	if err == nil {
		c.saw.Store(in.SearchId, true)
	}
	return r, err
}

func (c *startRep) FetchAsyncSearchResult(ctx context.Context, in *pb.FetchAsyncSearchResultRequest, o ...grpc.CallOption) (*pb.FetchAsyncSearchResultResponse, error) {
	if _, ok := c.saw.Load(in.SearchId); !ok {
		return nil, status.Error(codes.NotFound, "search not found")
	}
	return c.real.e.Client.FetchAsyncSearchResult(ctx, in, o...)
}

var refuseCodes = []codes.Code{codes.Unavailable, codes.Internal, codes.DeadlineExceeded, codes.ResourceExhausted, codes.Unknown, codes.Aborted}

// startVectors drives the REAL search.Ingestor.StartAsyncSearch over the (finished, running) stores of
// the shard stage for the start vectors AsyncSearch.tla emits for this number of shards: every vector
// of accepting / refusing replicas in which some shard has no accepting replica, and a share of the
// others.  The model decides: the client gets the id iff every shard has a replica that accepted.
//   - model: error, real: an id  -> the id is followed (fetch until it reports done or is unknown): a
//     search that was never started on a shard is reported done without that shard's documents
//   - model: id, real: error     -> a start that every shard accepted is refused
//   - model: id, real: id        -> the search is fetched through the proxy until done and must equal the
//     proxy's synchronous Search (the replicas that refused answer NotFound, the holder answers)
func (w *world) startVectors(shs []*shard, ar search.AsyncRequest, syn0 string,
	doneIsSync func(string, any, string, *search.FetchAsyncSearchResultResponse) *mismatch) (res *mismatch) {
	N := len(shs)
	vecs := svecs[N]
	if len(vecs) == 0 {
		return nil
	}
	var made []*startRep
	defer func() {
		// searches started on a store (also those of a start that ended with the error) finish before the stores go away
		for _, r := range made {
			r.saw.Range(func(id, _ any) bool {
				for _, s := range shs {
					if s.cli == r.real {
						if m := s.waitStoreDone(id.(string)); m != nil && res == nil {
							m.what = "a search started through the proxy: " + m.what
							res = m
						}
					}
				}
				return true
			})
		}
	}()
	okBudget := 20
	for vi0 := range vecs {
		v := &vecs[(vi0+w.j.N)%len(vecs)]
		if v.Ok {
			if okBudget == 0 {
				continue
			}
			okBudget--
		}
		clients := map[string]pb.StoreApiClient{}
		st := &stores.Stores{}
		reps := make([][]*startRep, N)
		for p, s := range shs {
			var hosts []string
			for r := 0; r < v.NRep; r++ {
				h := fmt.Sprintf("s%dr%d", p, r)
				c := &startRep{real: s.cli, accept: v.Acc[p][r], code: refuseCodes[(vi0+p*3+r+w.j.N)%len(refuseCodes)]}
				clients[h] = c
				hosts = append(hosts, h)
				reps[p] = append(reps[p], c)
				made = append(made, c)
			}
			st.Shards = append(st.Shards, hosts)
			st.Vers = append(st.Vers, "")
		}
		empty := &stores.Stores{Shards: [][]string{}, Vers: []string{}}
		ing := search.NewIngestor(search.Config{HotStores: st, HotReadStores: empty, ReadStores: empty, WriteStores: empty}, clients)
		sRun.Add(1)
		scovered.Store(v.Key, true)
		start, err := ing.StartAsyncSearch(context.Background(), ar)
		desc := fmt.Sprintf("%d shards x %d replicas, replicas accepting the StartAsyncSearch call %v", N, v.NRep, v.Acc)
		fetch := func() (resp search.FetchAsyncSearchResultResponse, err error, pan string) {
			defer func() {
				if r := recover(); r != nil {
					pan = fmt.Sprint(r)
				}
			}()
			resp, err = ing.FetchAsyncSearchResult(context.Background(), search.FetchAsyncSearchResultRequest{ID: start.ID, Size: math.MaxInt32})
			return
		}
		switch {
		case !v.Ok && err != nil:
			sErr.Add(1) // refused, as the model says
		case v.Ok && err != nil:
			return &mismatch{"shards-start-error", fmt.Sprintf("%s: every shard has a replica that accepts, AsyncSearch.tla: the client gets the id; Ingestor.StartAsyncSearch: %v", desc, err)}
		case !v.Ok:
			// the real proxy handed out an id although shard v.ErrShard was never started: what does the client get for it?
			sFollowed.Add(1)
			seen := "is not reported done within 3s"
			for t0 := time.Now(); time.Since(t0) < 3*time.Second; time.Sleep(time.Millisecond) {
				resp, err, pan := fetch()
				if pan != "" {
					seen = "makes FetchAsyncSearchResult panic: " + pan
					break
				}
				if err != nil {
					seen = "is answered with " + err.Error()
					break
				}
				if resp.Done {
					if got := fmt.Sprint(idsOf(&resp.QPR)); got != syn0 {
						seen = fmt.Sprintf("is reported DONE with IDs %s, the synchronous search gives %s", got, syn0)
					} else {
						seen = "is reported done (the shard that was not started holds no matching document, the answer happens to be complete)"
					}
					break
				}
			}
			return &mismatch{"shards-start-swallowed", fmt.Sprintf("%s: no replica of shard %d (of %d, counted from 1) accepted; AsyncSearch.tla: the client gets the error and no id (PErr); Ingestor.StartAsyncSearch returned id %s without error, and a fetch of that id %s",
				desc, v.ErrShard, N, start.ID, seen)}
		default:
			var last *search.FetchAsyncSearchResultResponse
			for t0 := time.Now(); ; time.Sleep(500 * time.Microsecond) {
				resp, err, pan := fetch()
				if pan != "" {
					return &mismatch{"shards-fetch-panics", desc + ": proxy FetchAsyncSearchResult panics: " + pan}
				}
				if err != nil {
					return &mismatch{"shards-request-lost", desc + ": the start returned an id, proxy FetchAsyncSearchResult: " + err.Error()}
				}
				if resp.Done {
					last = &resp
					break
				}
				if time.Since(t0) > doneTimeout {
					return &mismatch{"never-done", desc + ": the start returned an id, the search is not done"}
				}
			}
			evals.Add(1)
			if m := doneIsSync("start", desc, "", last); m != nil {
				return m
			}
		}
	}
	return nil
}
