// asyncsearch binds AsyncSearch.tla to the real asynchronous searcher (fracmanager.AsyncSearcher,
// storeapi gRPC handlers, proxy search.Ingestor).
//
// One input line is a JOB: a corpus case emitted by AggCases.tla (documents, partition into
// fractions, query with histogram and one aggregation, reference answer) plus the crash behaviours
// emitted by AsyncSearch.tla for 1, 2 and 3 captured fractions.  The driver builds a real store with
// those fractions and, for every behaviour, runs the real searcher in LEGS:
//
//	leg 0: StartSearch on an empty directory, wait for Done
//	crash: the directory is turned into exactly the image the behaviour's crash step describes
//	       (which final files exist, what is left of the temp file of the write in flight) using the
//	       REAL bytes the legs have produced (a persisted partial is kept or removed, a temp file is
//	       a complete / cut / empty copy of the file it was going to become, the not-done .info is the
//	       file StartSearch wrote)
//	leg i: restart (a new AsyncSearcher over the image; for some jobs the whole store is halted and
//	       reopened first), wait for Done
//
// After every leg FetchSearchResult must say Done and equal Searcher.SearchDocs over the fraction
// list captured at the start (IDs, total, histogram, aggregations through seq.QPR.Aggregate) and -
// when no document sits in two fractions - the reference answer of AggCases.tla; after the last leg
// the directory must be the one the model predicts.  Where the last captured fraction is the active
// one, the real goroutine is additionally stopped by the verif hook `pf.read` right before it
// searches that fraction (a real interruption after n-1 persisted partial results), the directory is
// compared with the model's state there, and the search is resumed by a restart.
//
// -order-probe runs one request and exits; the check runs it under strace to observe the real
// operation order of mustWriteFileAtomic.
package main

import (
	"bufio"
	"bytes"
	"context"
	"encoding/json"
	"flag"
	"fmt"
	"math"
	"os"
	"path/filepath"
	"runtime"
	"sort"
	"strings"
	"sync"
	"sync/atomic"
	"time"

	"github.com/ozontech/seq-db/frac"
	"github.com/ozontech/seq-db/frac/processor"
	"github.com/ozontech/seq-db/fracmanager"
	"github.com/ozontech/seq-db/parser"
	"github.com/ozontech/seq-db/proxy/search"
	"github.com/ozontech/seq-db/seq"
	"github.com/ozontech/seq-db/verifhook"
	"github.com/ozontech/seq-db/zstd"

	"verifharness/cases"
	"verifharness/env"
)

// ---------------------------------------------------------------- input

type AggQ struct {
	Func     string   `json:"func"`
	Group    bool     `json:"group"`
	Qs       [][2]int `json:"qs"`
	Interval int64    `json:"interval"`
}

type Query struct {
	AST  *cases.AST `json:"ast"`
	From uint64     `json:"from"`
	To   uint64     `json:"to"`
	Hist uint64     `json:"hist"`
	Agg  AggQ       `json:"agg"`
}

type Bucket struct {
	Name  cases.Str `json:"name"`
	Mid   uint64    `json:"mid"`
	Total int64     `json:"total"`
	Ne    int64     `json:"ne"`
	Sum   int64     `json:"sum"`
	Min   int64     `json:"min"`
	Max   int64     `json:"max"`
	Qs    []int64   `json:"qs"`
}

type Exp struct {
	Agg struct {
		Buckets []Bucket `json:"buckets"`
		Ne      int64    `json:"ne"`
	} `json:"agg"`
	Total uint64 `json:"total"`
	Hist  []struct {
		B uint64 `json:"b"`
		N uint64 `json:"n"`
	} `json:"hist"`
}

type Case struct {
	Corpus []cases.Doc `json:"corpus"`
	Parts  [][]int     `json:"parts"`
	Q      Query       `json:"q"`
	Exp    Exp         `json:"exp"`
}

type Img struct {
	Info string   `json:"info"`
	Itmp string   `json:"itmp"`
	Qpr  []string `json:"qpr"`
	Qtmp []string `json:"qtmp"`
}

type Step struct {
	Ev string `json:"ev"`
	At struct {
		Ph string `json:"ph"`
		F  int    `json:"f"`
		N  int    `json:"n"`
	} `json:"at"`
	Img Img `json:"img"`
}

type Beh struct {
	NF    int      `json:"nf"`
	Acked bool     `json:"acked"`
	Extra bool     `json:"extra"`
	Steps []Step   `json:"steps"`
	Final Img      `json:"final"`
	Order []string `json:"order"`
	ID    int      `json:"id"`
}

type Job struct {
	N            int
	Case         Case             `json:"case"`
	Take         int              `json:"take"`         // behaviours to replay on this corpus
	Pick         int              `json:"pick"`         // where the round-robin over the behaviours starts (first job of a process)
	Dup          bool             `json:"dup"`          // one document is delivered to two fractions
	SealLast     bool             `json:"sealLast"`     // the last part is sealed too (no active fraction captured)
	StoreRestart bool             `json:"storeRestart"` // restarts halt and reopen the whole store
	Proxy        bool             `json:"proxy"`        // also through proxy Ingestor + store gRPC handlers
	Asc          bool             `json:"asc"`
	Pipe         bool             `json:"pipe"`         // group values contain the AggBin key separator '|'
	Shards       int              `json:"shards"`       // > 0: also the proxy over this many shards (shards.go)
	GhostMask    int              `json:"ghostMask"`    // bit i: shard i has a first replica that never got the request
	Perm         int              `json:"perm"`         // the order in which the shards finish, and where they resume from
	Queue        int              `json:"queue"`        // > 0: also this many queue behaviours (queue.go: Parallelism < outstanding requests)
	Loader       int              `json:"loader"`       // > 0: also this many loader behaviours (loader.go: several persisted requests with their own fraction lists across a restart)
}

var (
	workers    = flag.Int("workers", 8, "")
	progress   = flag.Bool("progress", false, "")
	orderProbe = flag.String("order-probe", "", "directory: run one request there and exit (used under strace)")
	behFile    = flag.String("behs", "", "file with the behaviours emitted by AsyncSearch.tla (one JSON object per line)")
	covFile    = flag.String("cov", "", "append the ids of the behaviours replayed by this process to this file")
	pvecFile   = flag.String("pvecs", "", "file with the proxy-level vectors of AsyncSearch.tla (EmitPVec, reduced to classes)")
	pcovFile   = flag.String("pcov", "", "append the keys of the proxy-level vectors replayed by this process to this file")
	qbehFile   = flag.String("qbehs", "", "file with the queue behaviours of AsyncSearch.tla (a crash while requests wait for a worker slot)")
	svecFile   = flag.String("svecs", "", "file with the start vectors of AsyncSearch.tla (EmitStart: accepting replicas -> id or error)")
	behs       = map[int][]Beh{} // captured fractions -> behaviours
	cursor     = map[int]int{}
	cursorMu   sync.Mutex
	covered    sync.Map // behaviour id -> true
	outMu      sync.Mutex
	evals      atomic.Int64
	nontriv    atomic.Int64
	behsRun    atomic.Int64
	killsRun   atomic.Int64
	skipped    atomic.Int64
	failed     atomic.Int64 // jobs are abandoned once many have failed (every job would repeat the defect)
	abandoned  atomic.Int64
)

var behByID = map[int]json.RawMessage{}

func emit(v any) {
	b, _ := json.Marshal(v)
	outMu.Lock()
	os.Stdout.Write(append(b, '\n'))
	outMu.Unlock()
}

// ---------------------------------------------------------------- the gate on pf.read

// gate stops the goroutine that is about to read the given fraction (proxyFrac.DataProvider calls
// verifhook.At("pf.read", baseFileName, ...)); one shot.
type gate struct {
	arrived chan struct{}
	verdict chan bool // true = continue, false = the goroutine ends here (the "process" died)
}

var gates sync.Map // base file name -> *gate

func hook(point string, obj any, a, b int64) {
	if point != "pf.read" {
		return
	}
	name, ok := obj.(string)
	if !ok {
		return
	}
	g, ok := gates.LoadAndDelete(name)
	if !ok {
		qhook(name)
		return
	}
	gt := g.(*gate)
	close(gt.arrived)
	if !<-gt.verdict {
		runtime.Goexit() // deferred unlocks of the real code run; nothing else of the request does
	}
}

// qgate stops the first `need` goroutines that are about to read the given fraction (queue.go): the
// searches that occupy the worker slots.  Later readers pass.
type qgate struct {
	need    atomic.Int32
	arrived chan struct{}
	verdict chan bool
}

var qgates sync.Map // base file name -> *qgate

func qhook(name string) {
	g, ok := qgates.Load(name)
	if !ok {
		return
	}
	qg := g.(*qgate)
	if qg.need.Add(-1) < 0 {
		return
	}
	qg.arrived <- struct{}{}
	if !<-qg.verdict {
		runtime.Goexit()
	}
}

// ---------------------------------------------------------------- comparison

func feq(a, b float64) bool {
	if math.IsNaN(a) || math.IsNaN(b) {
		return math.IsNaN(a) && math.IsNaN(b)
	}
	if a == b {
		return true
	}
	return math.Abs(a-b) <= 1e-9*math.Max(1, math.Max(math.Abs(a), math.Abs(b)))
}

func idsOf(q *seq.QPR) [][2]uint64 {
	out := make([][2]uint64, 0, len(q.IDs))
	for _, s := range q.IDs {
		out = append(out, [2]uint64{uint64(s.ID.MID), uint64(s.ID.RID)})
	}
	return out
}

func dropLegacy(bs []seq.AggregationBucket, fn string) []seq.AggregationBucket {
	var out []seq.AggregationBucket
	for _, b := range bs {
		if fn == "count" && b.Name == "_not_exists" && b.MID == 0 {
			continue // legacy mirror of NotExists (see C06)
		}
		out = append(out, b)
	}
	return out
}

func sameAggResult(tag string, g, s seq.AggregationResult, fn string, legacy bool) string {
	if g.NotExists != s.NotExists {
		return fmt.Sprintf("%s: aggregation not-exists got %d sync %d", tag, g.NotExists, s.NotExists)
	}
	gb, sb := g.Buckets, s.Buckets
	if !legacy {
		gb, sb = dropLegacy(gb, fn), dropLegacy(sb, fn)
	}
	if len(gb) != len(sb) {
		return fmt.Sprintf("%s: aggregation buckets got %+v sync %+v", tag, gb, sb)
	}
	for i := range gb {
		x, y := gb[i], sb[i]
		if x.Name != y.Name || x.MID != y.MID || !feq(x.Value, y.Value) || x.NotExists != y.NotExists || len(x.Quantiles) != len(y.Quantiles) {
			return fmt.Sprintf("%s: aggregation bucket %d got %+v sync %+v", tag, i, x, y)
		}
		for k := range x.Quantiles {
			if !feq(x.Quantiles[k], y.Quantiles[k]) {
				return fmt.Sprintf("%s: aggregation bucket %d quantiles got %v sync %v", tag, i, x.Quantiles, y.Quantiles)
			}
		}
	}
	return ""
}

// sameQPR: the asynchronous answer against the synchronous one ("" = equal).
func sameQPR(got, syn *seq.QPR, args []seq.AggregateArgs, fn string) (kind, what string) {
	gi, si := idsOf(got), idsOf(syn)
	if fmt.Sprint(gi) != fmt.Sprint(si) {
		return "ids", fmt.Sprintf("IDs got %v sync %v", gi, si)
	}
	if got.Total != syn.Total {
		return "total", fmt.Sprintf("total got %d sync %d", got.Total, syn.Total)
	}
	if len(got.Histogram) != len(syn.Histogram) {
		return "hist", fmt.Sprintf("histogram got %v sync %v", histStr(got.Histogram), histStr(syn.Histogram))
	}
	for k, v := range syn.Histogram {
		if got.Histogram[k] != v {
			return "hist", fmt.Sprintf("histogram got %v sync %v", histStr(got.Histogram), histStr(syn.Histogram))
		}
	}
	if len(got.Aggs) == 0 {
		// no partial result at all (no fraction in range): nothing was merged; same as empty aggregations
		got = &seq.QPR{Aggs: make([]seq.AggregatableSamples, len(syn.Aggs))}
	}
	if len(got.Aggs) != len(syn.Aggs) {
		return "agg", fmt.Sprintf("number of aggregations got %d sync %d", len(got.Aggs), len(syn.Aggs))
	}
	for i := range syn.Aggs {
		if w := sameAggResult(fmt.Sprintf("agg %d", i), got.Aggs[i].Aggregate(args[i]), syn.Aggs[i].Aggregate(args[i]), fn, true); w != "" {
			return "agg", w
		}
	}
	return "", ""
}

func histStr(h map[seq.MID]uint64) string {
	var ks []uint64
	for k := range h {
		ks = append(ks, uint64(k))
	}
	sort.Slice(ks, func(i, j int) bool { return ks[i] < ks[j] })
	var sb strings.Builder
	sb.WriteString("{")
	for _, k := range ks {
		fmt.Fprintf(&sb, "%d:%d ", k, h[seq.MID(k)])
	}
	sb.WriteString("}")
	return sb.String()
}

func near(got float64, exp100 int64) bool { return math.Abs(got*100-float64(exp100)) < 1e-6 }

// againstRef: the asynchronous answer against the AggCases.tla reference (as harness/cmd/agg does,
// without the total: the store starts asynchronous searches with WithTotal = false).
func againstRef(c *Case, q *seq.QPR, agg env.Agg) string {
	if c.Q.Hist > 0 {
		if len(q.Histogram) != len(c.Exp.Hist) {
			return fmt.Sprintf("histogram buckets got %v exp %v", histStr(q.Histogram), c.Exp.Hist)
		}
		for _, h := range c.Exp.Hist {
			if q.Histogram[seq.MID(h.B)] != h.N {
				return fmt.Sprintf("histogram[%d] got %d exp %d", h.B, q.Histogram[seq.MID(h.B)], h.N)
			}
		}
	}
	if len(q.Aggs) > 1 {
		return fmt.Sprintf("aggs len %d", len(q.Aggs))
	}
	var res seq.AggregationResult // no partial result at all (no fraction in range): empty aggregation
	if len(q.Aggs) == 1 {
		res = q.Aggs[0].Aggregate(env.AggArgs(agg))
	}
	if res.NotExists != c.Exp.Agg.Ne {
		return fmt.Sprintf("not-exists got %d exp %d", res.NotExists, c.Exp.Agg.Ne)
	}
	bs := dropLegacy(res.Buckets, agg.Func)
	sort.SliceStable(bs, func(i, j int) bool {
		if bs[i].MID != bs[j].MID {
			return bs[i].MID < bs[j].MID
		}
		return bs[i].Name < bs[j].Name
	})
	if len(bs) != len(c.Exp.Agg.Buckets) {
		return fmt.Sprintf("bucket count got %d exp %d: %+v", len(bs), len(c.Exp.Agg.Buckets), bs)
	}
	for i, e := range c.Exp.Agg.Buckets {
		g := bs[i]
		if g.Name != e.Name.String() || uint64(g.MID) != e.Mid {
			return fmt.Sprintf("bucket %d key got (%d,%q) exp (%d,%q)", i, g.MID, g.Name, e.Mid, e.Name.String())
		}
		stat := agg.Func != "count" && agg.Func != "unique"
		if stat && agg.Interval == 0 && g.NotExists != e.Ne {
			return fmt.Sprintf("bucket %d not-exists got %d exp %d", i, g.NotExists, e.Ne)
		}
		if stat && e.Total == 0 {
			if !math.IsNaN(g.Value) {
				return fmt.Sprintf("bucket %d: no samples, value must be NaN, got %v", i, g.Value)
			}
			continue
		}
		ok := true
		switch agg.Func {
		case "count":
			ok = int64(g.Value) == e.Total
		case "sum":
			ok = near(g.Value, e.Sum)
		case "min":
			ok = near(g.Value, e.Min)
		case "max":
			ok = near(g.Value, e.Max)
		case "avg":
			ok = math.Abs(g.Value*100*float64(e.Total)-float64(e.Sum)) < 1e-6
		case "quantile":
			if len(g.Quantiles) != len(e.Qs) {
				ok = false
				break
			}
			for k := range e.Qs {
				if !near(g.Quantiles[k], e.Qs[k]) {
					ok = false
				}
			}
		}
		if !ok {
			return fmt.Sprintf("bucket %d (%d,%q) %s got value=%v quantiles=%v exp %+v", i, g.MID, g.Name, agg.Func, g.Value, g.Quantiles, e)
		}
	}
	return ""
}

// ---------------------------------------------------------------- directory <-> model image

const reqID = "req"
const pipeSuffix = "|7|"

type dirFiles struct {
	dir   string
	names []string // captured fraction names, then (if any) the new fraction's name
	id    string   // "" = reqID
}

func (d *dirFiles) rid() string {
	if d.id == "" {
		return reqID
	}
	return d.id
}
func (d *dirFiles) info() string        { return filepath.Join(d.dir, d.rid()+".info") }
func (d *dirFiles) itmp() string        { return d.info() + ".tmp" }
func (d *dirFiles) qpr(i int) string    { return filepath.Join(d.dir, d.rid()+"."+d.names[i]+".qpr") }
func (d *dirFiles) qtmp(i int) string   { return d.qpr(i) + ".tmp" }
func read(p string) ([]byte, bool)      { b, err := os.ReadFile(p); return b, err == nil }
func infoDone(b []byte) (bool, bool)    { var x struct{ Done *bool }; if json.Unmarshal(b, &x) != nil || x.Done == nil { return false, false }; return *x.Done, true }
func qprWhole(b []byte) (ok bool) {
	defer func() {
		if recover() != nil {
			ok = false // the real decoder panics on this file
		}
	}()
	raw, err := zstd.Decompress(b, nil)
	if err != nil {
		return false
	}
	var q seq.QPR
	return json.Unmarshal(raw, &q) == nil
}

// classify: the abstraction function from a real directory to the model's image.
func (d *dirFiles) classify(nslots int) (Img, []string) {
	im := Img{Info: "absent", Itmp: "absent"}
	var unknown []string
	if b, ok := read(d.info()); ok {
		if dn, ok := infoDone(b); !ok {
			im.Info = "torn"
		} else if dn {
			im.Info = "d"
		} else {
			im.Info = "nd"
		}
	}
	if b, ok := read(d.itmp()); ok {
		if len(b) == 0 {
			im.Itmp = "empty"
		} else if dn, ok := infoDone(b); !ok {
			im.Itmp = "torn"
		} else if dn {
			im.Itmp = "d"
		} else {
			im.Itmp = "nd"
		}
	}
	known := map[string]bool{filepath.Base(d.info()): true, filepath.Base(d.itmp()): true}
	for i := 0; i < nslots; i++ {
		q, t := "absent", "absent"
		if i < len(d.names) {
			known[filepath.Base(d.qpr(i))], known[filepath.Base(d.qtmp(i))] = true, true
			if b, ok := read(d.qpr(i)); ok {
				if qprWhole(b) {
					q = "full"
				} else if len(b) == 0 {
					q = "empty"
				} else {
					q = "torn"
				}
			}
			if b, ok := read(d.qtmp(i)); ok {
				if len(b) == 0 {
					t = "empty"
				} else if qprWhole(b) {
					t = "full"
				} else {
					t = "torn"
				}
			}
		}
		im.Qpr = append(im.Qpr, q)
		im.Qtmp = append(im.Qtmp, t)
	}
	ents, _ := os.ReadDir(d.dir)
	for _, e := range ents {
		if !known[e.Name()] {
			unknown = append(unknown, e.Name())
		}
	}
	return im, unknown
}

func sameImg(a, b Img) bool { x, _ := json.Marshal(a); y, _ := json.Marshal(b); return bytes.Equal(x, y) }

func writeOrRemove(p string, class string, whole []byte) error {
	switch class {
	case "absent":
		err := os.Remove(p)
		if os.IsNotExist(err) {
			return nil
		}
		return err
	case "empty":
		return os.WriteFile(p, nil, 0o644)
	case "torn":
		if len(whole) < 2 {
			return fmt.Errorf("cannot tear %d bytes", len(whole))
		}
		return os.WriteFile(p, whole[:len(whole)/2], 0o644)
	default:
		if whole == nil {
			return fmt.Errorf("no real bytes for class %s of %s", class, filepath.Base(p))
		}
		return os.WriteFile(p, whole, 0o644)
	}
}

// apply turns the directory (result of the legs so far) into the image; bytes come from the real files.
func (d *dirFiles) apply(im Img, st Step, infoND, infoD []byte) error {
	infoBytes := map[string][]byte{"nd": infoND, "d": infoD}
	newInfo := infoND // the .info write in flight: Start writes the not-done file, MarkDone the done one
	if st.At.Ph == "mark" || st.At.Ph == "fin" {
		newInfo = infoD
	}
	for i := range im.Qpr {
		if i >= len(d.names) {
			if im.Qpr[i] != "absent" || im.Qtmp[i] != "absent" {
				return fmt.Errorf("image has files of a fraction that does not exist here")
			}
			continue
		}
		whole, have := read(d.qpr(i))
		if !have && (im.Qpr[i] != "absent" || (im.Qtmp[i] != "absent" && im.Qtmp[i] != "empty")) {
			return fmt.Errorf("no real partial result of fraction %d to build the image from", i+1)
		}
		if err := writeOrRemove(d.qtmp(i), im.Qtmp[i], whole); err != nil {
			return err
		}
		if err := writeOrRemove(d.qpr(i), im.Qpr[i], whole); err != nil {
			return err
		}
	}
	it := im.Itmp
	var itBytes []byte
	switch it {
	case "nd", "d":
		itBytes = infoBytes[it]
	case "torn":
		itBytes = newInfo
	}
	if err := writeOrRemove(d.itmp(), it, itBytes); err != nil {
		return err
	}
	return writeOrRemove(d.info(), im.Info, infoBytes[im.Info])
}

// ---------------------------------------------------------------- one job

type world struct {
	j        *Job
	e        *env.Env
	agg      env.Agg
	args     []seq.AggregateArgs
	query    string
	params   processor.SearchParams
	captured []string // fraction names in range at the start, in the order of GetAllFracs
	lastProx string   // base file name of the last captured fraction if it is the active one
	newDocs  int
	doc0     env.Doc
	newFrac  string // name of the fraction that received the document added after a start
}

// newCaptured: the extra document is inside the captured fractions (the AggCases reference answer
// does not know it).
func (w *world) newCaptured() bool {
	for _, n := range w.captured {
		if n == w.newFrac {
			return true
		}
	}
	return false
}

func (w *world) fracsByName(names []string) ([]frac.Fraction, error) {
	by := map[string]frac.Fraction{}
	for _, f := range w.e.FM().GetAllFracs() {
		by[f.Info().Name()] = f
	}
	var out []frac.Fraction
	for _, n := range names {
		f := by[n]
		if f == nil {
			return nil, fmt.Errorf("captured fraction %s is gone", n)
		}
		out = append(out, f)
	}
	return out, nil
}

// syncResult: Searcher.SearchDocs over the captured fractions with the same parameters.
func (w *world) syncResult() (*seq.QPR, error) {
	fr, err := w.fracsByName(w.captured)
	if err != nil {
		return nil, err
	}
	ast, err := parser.ParseSeqQL(w.query, w.e.MP.GetMapping())
	if err != nil {
		return nil, err
	}
	sp := w.params
	sp.AST = ast.Root
	r, err := env.SearchFracs(fr, w.e.O.FPI, sp)
	if err != nil {
		return nil, err
	}
	return r.QPR, nil
}

func safeFetch(as *fracmanager.AsyncSearcher) (resp fracmanager.FetchSearchResultResponse, ok bool, pan string) {
	defer func() {
		if r := recover(); r != nil {
			pan = fmt.Sprint(r)
		}
	}()
	resp, ok = as.FetchSearchResult(fracmanager.FetchSearchResultRequest{ID: reqID})
	return
}

const doneTimeout = 15 * time.Second // a leg takes milliseconds

// waitDone polls FetchSearchResult until Done. Returns the response, or what went wrong.
func waitDone(as *fracmanager.AsyncSearcher) (*fracmanager.FetchSearchResultResponse, string, string) {
	t0 := time.Now()
	for {
		resp, ok, pan := safeFetch(as)
		if pan != "" {
			return nil, "fetch-panics", "FetchSearchResult panics: " + pan
		}
		if !ok {
			return nil, "request-lost", "FetchSearchResult: request not found"
		}
		if resp.Done {
			return &resp, "", ""
		}
		if time.Since(t0) > doneTimeout {
			return nil, "never-done", fmt.Sprintf("request not done after %s", doneTimeout)
		}
		time.Sleep(500 * time.Microsecond)
	}
}

func (w *world) request() fracmanager.AsyncSearchRequest {
	// what storeapi.GrpcV1.StartAsyncSearch builds (grpc_async_search.go:23): AST parsed later,
	// Limit MaxInt32, WithTotal false, Retention 24h
	return fracmanager.AsyncSearchRequest{ID: reqID, Query: w.query, Params: w.params, Retention: 24 * time.Hour}
}

func (w *world) newSearcher(dir string) *fracmanager.AsyncSearcher {
	return fracmanager.MustStartAsync(fracmanager.AsyncSearcherConfig{DataDir: dir, Parallelism: 1}, w.e.MP, w.e.FM())
}

type mismatch struct{ kind, what string }

// checkDone compares the finished request with the synchronous search and the reference.
func (w *world) checkDone(resp *fracmanager.FetchSearchResultResponse) *mismatch {
	evals.Add(1)
	syn, err := w.syncResult()
	if err != nil {
		return &mismatch{"infra", "synchronous search failed: " + err.Error()}
	}
	if k, what := sameQPR(&resp.QPR, syn, w.args, w.agg.Func); k != "" {
		return &mismatch{"differs-" + k, what}
	}
	if !w.j.Dup && !w.newCaptured() {
		if what := againstRef(&w.j.Case, &resp.QPR, w.agg); what != "" {
			return &mismatch{"ref", "against AggCases reference: " + what}
		}
	}
	if resp.HistInterval != w.params.HistInterval || resp.Order != w.params.Order || len(resp.AggQueries) != len(w.params.AggQ) {
		return &mismatch{"meta", fmt.Sprintf("response meta: interval %d order %d aggs %d", resp.HistInterval, resp.Order, len(resp.AggQueries))}
	}
	return nil
}

func (w *world) restartStore() error {
	w.e.Halt()
	return w.e.Reopen()
}

// settle waits until the request's goroutine has written its last file (.info with Done): a leg that
// is left early must not have the store torn down under a running searcher.
func settle(infoPath string) {
	for t0 := time.Now(); time.Since(t0) < 3*time.Second; time.Sleep(time.Millisecond) {
		if b, ok := read(infoPath); ok {
			if dn, ok := infoDone(b); ok && dn {
				return
			}
		}
	}
}

// runBeh replays one behaviour. Returns nil or the first disagreement.
func (w *world) runBeh(b *Beh, bi int) (res *mismatch) {
	behsRun.Add(1)
	dir := filepath.Join(w.e.O.Dir, fmt.Sprintf("as-%d", bi))
	d := &dirFiles{dir: dir, names: append([]string(nil), w.captured...)}
	defer func() {
		if res != nil && res.kind != "final-dir" && res.kind != "never-done" {
			settle(d.info())
		}
	}()
	nslots := b.NF + 1
	as := w.newSearcher(dir)

	// ---- leg 0, optionally really interrupted right before the last fraction
	var gt *gate
	if w.lastProx != "" {
		gt = &gate{arrived: make(chan struct{}), verdict: make(chan bool, 1)}
		gates.Store(w.lastProx, gt)
	}
	if err := as.StartSearch(w.request()); err != nil {
		return &mismatch{"start-error", "StartSearch: " + err.Error()}
	}
	var infoND []byte
	if gt != nil {
		select {
		case <-gt.arrived:
		case <-time.After(doneTimeout):
			gates.Delete(w.lastProx)
			return &mismatch{"never-done", "the request never reached its last fraction"}
		}
		// the goroutine stands before the search of the last fraction: n-1 partial results persisted
		im, unk := d.classify(nslots)
		want := Img{Info: "nd", Itmp: "absent"}
		for i := 0; i < nslots; i++ {
			q := "absent"
			if i < b.NF-1 {
				q = "full"
			}
			want.Qpr, want.Qtmp = append(want.Qpr, q), append(want.Qtmp, "absent")
		}
		if !sameImg(im, want) || len(unk) > 0 {
			gt.verdict <- true
			return &mismatch{"dir-at-interruption", fmt.Sprintf("directory before the last fraction: got %+v %v, model %+v", im, unk, want)}
		}
		infoND, _ = read(d.info())
		kill := bi%2 == 0
		gt.verdict <- !kill
		if kill {
			// a real interruption: the goroutine is gone; nothing may change any more; resume by restart
			killsRun.Add(1)
			time.Sleep(2 * time.Millisecond)
			if im2, _ := d.classify(nslots); !sameImg(im2, want) {
				return &mismatch{"infra", "interrupted request kept writing"}
			}
			if resp, ok, pan := safeFetch(as); pan != "" || !ok || resp.Done {
				return &mismatch{"done-too-early", fmt.Sprintf("interrupted request: found=%v done=%v panic=%s", ok, resp.Done, pan)}
			}
			as = w.newSearcher(dir)
			nontriv.Add(1)
		}
	} else {
		// no gate available (all captured fractions are sealed): the file StartSearch wrote is read
		// right after it returned; if the request finished in between the bytes are of no use
		if bts, ok := read(d.info()); ok {
			if dn, ok := infoDone(bts); ok && !dn {
				infoND = bts
			}
		}
	}
	resp, k, what := waitDone(as)
	if k != "" {
		return &mismatch{k, "leg 0: " + what}
	}
	if m := w.checkDone(resp); m != nil {
		m.what = "leg 0: " + m.what
		return m
	}
	infoD, _ := read(d.info())
	if dn, ok := infoDone(infoD); !ok || !dn {
		return &mismatch{"done-not-durable", "Done reported but the .info file does not say so"}
	}

	// ---- crash / restart legs
	leg := 0
	for si := range b.Steps {
		st := &b.Steps[si]
		if st.Ev == "newfrac" {
			act := w.e.FM().Active().Info().Name()
			if w.newDocs == 0 && (len(w.captured) == 0 || w.captured[len(w.captured)-1] != act) {
				// a fraction that did not exist at the start: a copy of document 1 under a new ID
				// lands in the (so far empty, hence not captured) active fraction
				nd := w.doc0
				nd.RID += 1000
				if err := w.e.Bulk([]env.Doc{nd}); err != nil {
					return &mismatch{"infra", "bulk: " + err.Error()}
				}
				w.e.WaitIdle()
				w.newDocs++
				w.newFrac = act
			}
			continue
		}
		leg++
		needND := st.Img.Info == "nd" || st.Img.Itmp == "nd" || (st.Img.Itmp == "torn" && st.At.Ph == "start")
		if needND && infoND == nil {
			skipped.Add(1) // the not-done .info could not be captured for this all-sealed job
			return nil
		}
		if w.j.StoreRestart {
			w.e.Halt()
		}
		if err := d.apply(st.Img, *st, infoND, infoD); err != nil {
			return &mismatch{"infra", "image: " + err.Error()}
		}
		if im, unk := d.classify(nslots); !sameImg(im, st.Img) || len(unk) > 0 {
			return &mismatch{"infra", fmt.Sprintf("image not built: got %+v %v want %+v", im, unk, st.Img)}
		}
		if w.j.StoreRestart {
			if err := w.e.Reopen(); err != nil {
				return &mismatch{"store-does-not-start", err.Error()}
			}
		}
		resumed := false
		kept := map[int]os.FileInfo{}
		for i, q := range st.Img.Qpr {
			if i < b.NF && q == "full" && st.Img.Info == "nd" {
				resumed = true
			}
			if i < len(d.names) && q == "full" {
				if fi, err := os.Stat(d.qpr(i)); err == nil {
					kept[i] = fi
				}
			}
		}
		as = w.newSearcher(dir)
		if st.Img.Info == "absent" {
			// the request was never persisted: it must be unknown, and can be started again
			if _, ok, pan := safeFetch(as); ok || pan != "" {
				return &mismatch{"ghost-request", fmt.Sprintf("leg %d: no .info on disk but FetchSearchResult found=%v panic=%s", leg, ok, pan)}
			}
			if err := as.StartSearch(w.request()); err != nil {
				return &mismatch{"start-error", "StartSearch: " + err.Error()}
			}
		}
		resp, k, what := waitDone(as)
		if k != "" {
			return &mismatch{k, fmt.Sprintf("leg %d (after crash at %+v): %s", leg, st.At, what)}
		}
		if m := w.checkDone(resp); m != nil {
			m.what = fmt.Sprintf("leg %d (after crash at %+v, image %+v): %s", leg, st.At, st.Img, m.what)
			return m
		}
		// PersistedNeverRedone: a partial result that was on disk is neither recomputed nor rewritten
		for i, fi := range kept {
			if now, err := os.Stat(d.qpr(i)); err != nil || !os.SameFile(fi, now) || !now.ModTime().Equal(fi.ModTime()) {
				return &mismatch{"partial-redone", fmt.Sprintf("leg %d (after crash at %+v): the persisted partial result of fraction %d was written again", leg, st.At, i+1)}
			}
		}
		if resumed {
			nontriv.Add(1)
		}
		infoD, _ = read(d.info())
	}
	// ---- the directory at the end is the model's
	if act := w.e.FM().Active().Info().Name(); w.newDocs > 0 && w.captured[len(w.captured)-1] != act {
		d.names = append(d.names, act) // the fraction created after the start: must have no files
	}
	im, unk := d.classify(nslots)
	if !sameImg(im, b.Final) || len(unk) > 0 {
		return &mismatch{"final-dir", fmt.Sprintf("directory at the end: got %+v unknown files %v, model %+v", im, unk, b.Final)}
	}
	return nil
}

func (w *world) build() error {
	c := &w.j.Case
	docs := cases.EnvDocs(c.Corpus)
	if w.j.Pipe {
		// "a" becomes "a|7|": the persisted aggregation bins are keyed "<mid>|<token>" (seq/qpr.go)
		for i := range docs {
			for k, v := range docs[i].Tok["g"] {
				docs[i].Tok["g"][k] = v + pipeSuffix
			}
		}
		for i := range c.Exp.Agg.Buckets {
			if len(c.Exp.Agg.Buckets[i].Name) > 0 {
				c.Exp.Agg.Buckets[i].Name = append(c.Exp.Agg.Buckets[i].Name, pipeSuffix)
			}
		}
	}
	parts := c.Parts
	w.doc0 = docs[0]
	var bulks [][]env.Doc
	for _, part := range parts {
		var bulk []env.Doc
		for _, i := range part {
			bulk = append(bulk, docs[i-1])
		}
		bulks = append(bulks, bulk)
	}
	if w.j.Dup && len(bulks) > 0 {
		// the first document of the first fraction is delivered again into the last one
		dup := bulks[0][0]
		if len(bulks) == 1 {
			bulks = append(bulks, []env.Doc{dup})
		} else {
			bulks[len(bulks)-1] = append(bulks[len(bulks)-1], dup)
		}
	}
	for pi, bulk := range bulks {
		if err := w.e.Bulk(bulk); err != nil {
			return fmt.Errorf("bulk: %w", err)
		}
		w.e.WaitIdle()
		if pi < len(bulks)-1 || w.j.SealLast {
			w.e.Seal()
		}
	}
	a := c.Q.Agg
	w.agg = env.Agg{Func: a.Func, Interval: a.Interval}
	if a.Func == "count" || a.Func == "unique" {
		w.agg.GroupBy = "g"
	} else {
		w.agg.Field = "v"
		if a.Group {
			w.agg.GroupBy = "g"
		}
	}
	for _, q := range a.Qs {
		w.agg.Quantiles = append(w.agg.Quantiles, float64(q[0])/float64(q[1]))
	}
	w.args = []seq.AggregateArgs{env.AggArgs(w.agg)}
	w.query = c.Q.AST.SeqQL()
	order := seq.DocsOrderDesc
	if w.j.Asc {
		order = seq.DocsOrderAsc
	}
	w.params = processor.SearchParams{AggQ: env.AggQueries([]env.Agg{w.agg}), HistInterval: c.Q.Hist,
		From: seq.MID(c.Q.From), To: seq.MID(c.Q.To), Limit: math.MaxInt32, WithTotal: false, Order: order}
	w.capture()
	return nil
}

// capture: the fractions a StartSearch issued now would capture (async_searcher.go:119, same call).
func (w *world) capture() {
	w.captured, w.lastProx = nil, ""
	fr := w.e.FM().GetAllFracs().FilterInRange(w.params.From, w.params.To)
	for _, f := range fr {
		w.captured = append(w.captured, f.Info().Name())
	}
	if n := len(fr); n > 0 {
		act := w.e.FM().Active().Info().Name()
		if w.captured[n-1] == act {
			w.lastProx = filepath.Join(w.e.O.Dir, act)
		}
	}
}

// proxyPath: the same request through search.Ingestor.StartAsyncSearch / FetchAsyncSearchResult and
// the store's gRPC handlers, with one store restart in the middle, against the proxy's synchronous
// Search.
func (w *world) proxyPath() (res *mismatch) {
	c := &w.j.Case
	ing := env.NewProxy([][]*env.Env{{w.e}})
	pagg := search.AggQuery{Field: w.agg.Field, GroupBy: w.agg.GroupBy, Func: w.args[0].Func, Quantiles: w.agg.Quantiles, Interval: seq.MID(w.agg.Interval)}
	ar := search.AsyncRequest{Query: w.query, From: time.UnixMilli(int64(c.Q.From)), To: time.UnixMilli(int64(c.Q.To)),
		Order: w.params.Order, Aggregations: []search.AggQuery{pagg}, HistogramInterval: seq.MID(c.Q.Hist)}
	start, err := ing.StartAsyncSearch(context.Background(), ar)
	if err != nil {
		return &mismatch{"proxy-start-error", err.Error()}
	}
	adir := filepath.Join(w.e.O.Dir, "async_searches")
	infoP := filepath.Join(adir, start.ID+".info")
	defer func() {
		if res != nil && res.kind != "never-done" {
			settle(infoP)
		}
	}()
	var nd []byte // the file StartSearch wrote, read before the request finishes (if we are fast enough)
	if bts, ok := read(infoP); ok {
		if dn, ok := infoDone(bts); ok && !dn {
			nd = bts
		}
	}
	wait := func(ing *search.Ingestor) (*search.FetchAsyncSearchResultResponse, *mismatch) {
		t0 := time.Now()
		for {
			var resp search.FetchAsyncSearchResultResponse
			var err error
			pan := ""
			func() {
				defer func() {
					if r := recover(); r != nil {
						pan = fmt.Sprint(r)
					}
				}()
				resp, err = ing.FetchAsyncSearchResult(context.Background(), search.FetchAsyncSearchResultRequest{ID: start.ID, Size: math.MaxInt32})
			}()
			if pan != "" {
				return nil, &mismatch{"fetch-panics", "proxy FetchAsyncSearchResult panics: " + pan}
			}
			if err != nil {
				return nil, &mismatch{"request-lost", "proxy FetchAsyncSearchResult: " + err.Error()}
			}
			if resp.Done {
				return &resp, nil
			}
			if time.Since(t0) > doneTimeout {
				return nil, &mismatch{"never-done", "proxy: request not done"}
			}
			time.Sleep(500 * time.Microsecond)
		}
	}
	cmp := func(tag string, resp *search.FetchAsyncSearchResultResponse, ing *search.Ingestor) *mismatch {
		evals.Add(1)
		p := env.ProxyParams{Params: env.Params{From: c.Q.From, To: c.Q.To, Limit: math.MaxInt32, Order: map[bool]string{true: "asc", false: "desc"}[w.j.Asc],
			WithTotal: false, Interval: c.Q.Hist, Aggs: []env.Agg{w.agg}}, Size: math.MaxInt32}
		syn, _, err := env.ProxySearch(ing, w.query, p)
		if err != nil || syn == nil {
			return &mismatch{"infra", fmt.Sprintf("proxy synchronous search: %v", err)}
		}
		if fmt.Sprint(idsOf(&resp.QPR)) != fmt.Sprint(idsOf(syn)) {
			return &mismatch{"differs-ids", fmt.Sprintf("%s: IDs got %v sync %v", tag, idsOf(&resp.QPR), idsOf(syn))}
		}
		if histStr(resp.QPR.Histogram) != histStr(syn.Histogram) {
			return &mismatch{"differs-hist", fmt.Sprintf("%s: histogram got %s sync %s", tag, histStr(resp.QPR.Histogram), histStr(syn.Histogram))}
		}
		sres := syn.Aggregate(w.args)
		if len(resp.AggResult) != len(sres) {
			return &mismatch{"differs-agg", fmt.Sprintf("%s: aggregations got %d sync %d", tag, len(resp.AggResult), len(sres))}
		}
		for i := range sres {
			if what := sameAggResult(tag, resp.AggResult[i], sres[i], w.agg.Func, false); what != "" {
				return &mismatch{"differs-agg", what}
			}
		}
		return nil
	}
	resp, m := wait(ing)
	if m != nil {
		return m
	}
	if m := cmp("proxy", resp, ing); m != nil {
		return m
	}
	// restart of the store: the finished request is still there with the same answer; then a crash
	// image "all but the first partial result lost, not done" is resumed by the store's own searcher
	w.e.Halt()
	ents, _ := os.ReadDir(adir)
	var qprs []string
	for _, e := range ents {
		if strings.HasSuffix(e.Name(), ".qpr") {
			qprs = append(qprs, e.Name())
		}
	}
	sort.Strings(qprs)
	if bts, ok := read(infoP); !ok {
		return &mismatch{"done-not-durable", "proxy: no .info file after Done"}
	} else if dn, ok := infoDone(bts); !ok || !dn {
		return &mismatch{"done-not-durable", "proxy: Done reported but the .info file does not say so"}
	}
	if len(qprs) > 0 && nd != nil {
		_ = os.WriteFile(infoP, nd, 0o644)
		for _, q := range qprs[1:] {
			_ = os.Remove(filepath.Join(adir, q))
		}
		if len(qprs) > 1 {
			nontriv.Add(1)
		}
	}
	if err := w.e.Reopen(); err != nil {
		return &mismatch{"store-does-not-start", err.Error()}
	}
	ing = env.NewProxy([][]*env.Env{{w.e}})
	resp, m = wait(ing)
	if m != nil {
		m.what = "after store restart: " + m.what
		return m
	}
	return cmp("proxy after store restart", resp, ing)
}

func runJob(j *Job) {
	report := func(beh int, m *mismatch) {
		if m.kind != "infra" && m.kind != "final-dir" {
			failed.Add(1)
		}
		if m.kind == "infra" {
			emit(map[string]any{"infra": fmt.Sprintf("job %d: %s", j.N, m.what)})
			return
		}
		emit(map[string]any{"n": j.N, "kind": m.kind, "what": m.what, "beh": beh, "dup": j.Dup, "behaviour": behByID[beh]})
	}
	e, err := env.New(env.Opts{SkipFsync: true, FPI: 1 + j.N%2})
	if err != nil {
		emit(map[string]any{"infra": err.Error()})
		return
	}
	defer e.Close()
	w := &world{j: j, e: e}
	if err := w.build(); err != nil {
		emit(map[string]any{"infra": err.Error()})
		return
	}
	nf := len(w.captured)
	if nf == 0 {
		// StartSearch: no fraction in range -> the request is done at once, with the empty answer
		as := w.newSearcher(filepath.Join(e.O.Dir, "as-empty"))
		if err := as.StartSearch(w.request()); err != nil {
			report(-1, &mismatch{"start-error", err.Error()})
			return
		}
		resp, ok, pan := safeFetch(as)
		if pan != "" || !ok || !resp.Done {
			report(-1, &mismatch{"never-done", fmt.Sprintf("no fraction in range: found=%v done=%v panic=%s", ok, resp.Done, pan)})
			return
		}
		if m := w.checkDone(&resp); m != nil {
			report(-1, m)
		}
		return
	}
	for k := 0; k < j.Take; k++ {
		w.capture() // a fraction created by an earlier behaviour of this job is captured from now on
		all := behs[len(w.captured)]
		if len(all) == 0 {
			break // more captured fractions than the model was run for
		}
		// the next behaviour of this fraction count (every behaviour gets its turn)
		cursorMu.Lock()
		b := &all[cursor[len(w.captured)]%len(all)]
		cursor[len(w.captured)]++
		cursorMu.Unlock()
		covered.Store(b.ID, true)
		if m := w.runBeh(b, k); m != nil {
			report(b.ID, m)
			if m.kind != "final-dir" {
				break // the same defect would repeat for every behaviour of this corpus
			}
		}
	}
	if j.Proxy {
		if m := w.proxyPath(); m != nil {
			if m.kind != "infra" {
				m.kind = "proxy-" + m.kind
			}
			report(-2, m)
		}
	}
	if j.Shards > 0 {
		if m := w.shardStage(); m != nil {
			report(-3, m)
		}
	}
	if j.Queue > 0 {
		w.queueJob(report)
	}
	if j.Loader > 0 {
		w.loaderJob(report)
	}
}

// ---------------------------------------------------------------- order probe (run under strace)

func probe(dir string) {
	e, err := env.New(env.Opts{SkipFsync: true, FPI: 1})
	if err != nil {
		emit(map[string]any{"infra": err.Error()})
		os.Exit(3)
	}
	defer e.Close()
	mk := func(mid, rid uint64, g string) env.Doc {
		return env.Doc{MID: mid, RID: rid, Tok: map[string][]string{"g": {g}, "v": {"2"}}}
	}
	for i, b := range [][]env.Doc{{mk(10, 1, "a"), mk(11, 2, "b")}, {mk(12, 3, "a")}, {mk(13, 4, "b")}} {
		_ = e.Bulk(b)
		e.WaitIdle()
		if i < 2 {
			e.Seal()
		}
	}
	w := &world{j: &Job{}, e: e}
	w.query = "g:a or g:b"
	w.agg = env.Agg{Func: "count", GroupBy: "g"}
	w.params = processor.SearchParams{AggQ: env.AggQueries([]env.Agg{w.agg}), HistInterval: 2, From: 0, To: 99, Limit: math.MaxInt32, Order: seq.DocsOrderDesc}
	var names []string
	for _, f := range e.FM().GetAllFracs().FilterInRange(0, 99) {
		names = append(names, f.Info().Name())
	}
	as := fracmanager.MustStartAsync(fracmanager.AsyncSearcherConfig{DataDir: dir, Parallelism: 1}, e.MP, e.FM())
	emit(map[string]any{"probe": "begin", "dir": dir, "id": reqID, "fractions": names})
	if err := as.StartSearch(w.request()); err != nil {
		emit(map[string]any{"infra": err.Error()})
		os.Exit(3)
	}
	if _, k, what := waitDone(as); k != "" {
		emit(map[string]any{"infra": what})
		os.Exit(3)
	}
	emit(map[string]any{"probe": "end"})
}

func main() {
	flag.Parse()
	if *orderProbe != "" {
		probe(*orderProbe)
		return
	}
	verifhook.Set(hook)
	if *behFile != "" {
		fh, err := os.Open(*behFile)
		if err != nil {
			emit(map[string]any{"infra": err.Error()})
			os.Exit(3)
		}
		bs := bufio.NewScanner(fh)
		bs.Buffer(make([]byte, 1<<20), 1<<26)
		for bs.Scan() {
			var b Beh
			if err := json.Unmarshal(bs.Bytes(), &b); err != nil {
				emit(map[string]any{"infra": "bad behaviour: " + err.Error()})
				os.Exit(3)
			}
			behs[b.NF] = append(behs[b.NF], b)
			behByID[b.ID] = json.RawMessage(append([]byte(nil), bs.Bytes()...))
		}
		fh.Close()
	}
	if err := loadQueueAndStart(); err != nil {
		emit(map[string]any{"infra": err.Error()})
		os.Exit(3)
	}
	if err := loadLoader(); err != nil {
		emit(map[string]any{"infra": err.Error()})
		os.Exit(3)
	}
	if *pvecFile != "" {
		fh, err := os.Open(*pvecFile)
		if err != nil {
			emit(map[string]any{"infra": err.Error()})
			os.Exit(3)
		}
		bs := bufio.NewScanner(fh)
		for bs.Scan() {
			var v PVec
			if err := json.Unmarshal(bs.Bytes(), &v); err != nil || v.NS != len(v.Cls) {
				emit(map[string]any{"infra": fmt.Sprintf("bad proxy vector %s: %v", bs.Text(), err)})
				os.Exit(3)
			}
			pvecs[v.NS] = append(pvecs[v.NS], v)
		}
		fh.Close()
		for ns := range pvecs {
			for i := range pvecs[ns] {
				pvecByKey[pkey(pvecs[ns][i].Cls)] = &pvecs[ns][i]
			}
		}
	}
	sc := bufio.NewScanner(os.Stdin)
	sc.Buffer(make([]byte, 1<<20), 1<<28)
	var jobs []*Job
	for sc.Scan() {
		line := sc.Text()
		if !strings.HasPrefix(line, "{") {
			continue
		}
		j := &Job{N: len(jobs)}
		if err := json.Unmarshal([]byte(line), j); err != nil {
			emit(map[string]any{"infra": "bad job: " + err.Error()})
			os.Exit(3)
		}
		jobs = append(jobs, j)
	}
	nw := *workers
	if *progress {
		nw = 1
	}
	if len(jobs) > 0 {
		for nf := range behs {
			cursor[nf] = jobs[0].Pick
		}
		for nf := range qbehs {
			qcursor[nf] = jobs[0].Pick
		}
		for nf := range lbehs {
			lcursor[nf] = jobs[0].Pick
		}
	}
	ch := make(chan *Job)
	var wg sync.WaitGroup
	for i := 0; i < nw; i++ {
		wg.Add(1)
		go func() {
			defer wg.Done()
			for j := range ch {
				if *progress {
					emit(map[string]any{"begin": j.N})
				}
				runJob(j)
				if *progress {
					emit(map[string]any{"end": j.N})
				}
			}
		}()
	}
	for _, j := range jobs {
		if failed.Load() >= 12 {
			abandoned.Add(1)
			continue
		}
		ch <- j
	}
	close(ch)
	wg.Wait()
	ncov := 0
	var ids []string
	covered.Range(func(k, _ any) bool { ncov++; ids = append(ids, fmt.Sprint(k)); return true })
	if *covFile != "" {
		if fh, err := os.OpenFile(*covFile, os.O_APPEND|os.O_CREATE|os.O_WRONLY, 0o644); err == nil {
			fmt.Fprintln(fh, strings.Join(ids, " "))
			fh.Close()
		}
	}
	writeLoaderCov()
	nfd := 0
	if ents, err := os.ReadDir("/proc/self/fd"); err == nil {
		nfd = len(ents)
	}
	if *pcovFile != "" {
		var ks []string
		pcovered.Range(func(k, _ any) bool { ks = append(ks, fmt.Sprint(k)); return true })
		if fh, err := os.OpenFile(*pcovFile, os.O_APPEND|os.O_CREATE|os.O_WRONLY, 0o644); err == nil {
			fmt.Fprintln(fh, strings.Join(ks, " "))
			var qs, ss []string
			qcovered.Range(func(k, _ any) bool { qs = append(qs, fmt.Sprint(k)); return true })
			scovered.Range(func(k, _ any) bool { ss = append(ss, fmt.Sprint(k)); return true })
			fmt.Fprintln(fh, "#qcov "+strings.Join(qs, " "))
			fmt.Fprintln(fh, "#scov "+strings.Join(ss, " "))
			fmt.Fprintf(fh, "#stats shardJobs=%d vectors=%d vectorsSkipped=%d liveFetches=%d shardInterruptions=%d fds=%d queueBehaviours=%d queuedRequestsRestarted=%d queueSkipped=%d startVectors=%d startRefused=%d startFollowed=%d\n",
				shardJobs.Load(), vecsRun.Load(), vecsSkip.Load(), liveObs.Load(), shardKills.Load(), nfd,
				qRun.Load(), qQueued.Load(), qSkip.Load(), sRun.Load(), sErr.Load(), sFollowed.Load())
			fh.Close()
		}
	}
	emit(map[string]any{"summary": true, "covered": ncov, "shardJobs": shardJobs.Load(), "vectors": vecsRun.Load(), "vectorsSkipped": vecsSkip.Load(),
		"liveFetches": liveObs.Load(), "shardInterruptions": shardKills.Load(), "fds": nfd, "cases": behsRun.Load(), "evals": evals.Load(), "nontrivial": nontriv.Load(), "corpora": ncov,
		"behaviours": behsRun.Load(), "interruptions": killsRun.Load(), "skipped": skipped.Load(), "abandoned": abandoned.Load(), "jobs": len(jobs)})
}
