// redeliver replays Redeliver.tla behaviours on a real store: bulks with repeated IDs, seal, restart;
// after every step the observation the specification requires is compared with the real store
// (ID list, total, histogram, count aggregation, per-token search, fetch bytes, per-fraction DocsTotal).
package main

import (
	"bufio"
	"bytes"
	"encoding/json"
	"flag"
	"fmt"
	"os"
	"sort"
	"strings"
	"sync"
	"sync/atomic"

	"github.com/ozontech/seq-db/seq"

	"verifharness/cases"
	"verifharness/env"
)

type Obs struct {
	Stored   []int    `json:"stored"`
	Clean    bool     `json:"clean"`
	FracDocs [][2]int `json:"fracDocs"`
	Total    uint64   `json:"total"`
	CntA     int64    `json:"cntA"`
	CntB     int64    `json:"cntB"`
}

type Step struct {
	Op  string `json:"op"`
	Arg []int  `json:"arg"`
	Obs Obs    `json:"obs"`
}

type Case struct {
	N    int
	Hist []Step `json:"hist"`
	raw  string
}

var (
	workers  = flag.Int("workers", 8, "")
	progress = flag.Bool("progress", false, "")
	big      = flag.Int("big", 0, "run the big-concurrent-repeats scenario this many times instead of reading cases")
	racy     = flag.Bool("concurrent", false, "deliver every bulk twice concurrently (concurrent repeats)")
	outMu    sync.Mutex
	evals    atomic.Int64
	nontriv  atomic.Int64
)

func emit(v any) {
	b, _ := json.Marshal(v)
	outMu.Lock()
	os.Stdout.Write(append(b, '\n'))
	outMu.Unlock()
}

// wide (set per process by -wide): documents 1..3 share one timestamp and carry random parts that span the whole
// uint64 range, as the proxy's rand.Uint64()<<16 + index does: every comparison of IDs has to be a real
// three-way comparison (differences wrap around), and the merge of partial results has to bring equal IDs of
// different fractions next to each other to drop the repeats.
var wide = flag.Bool("wide", false, "")

func midOf(d int) uint64 {
	if *wide {
		if d <= 3 {
			return 2
		}
		return 3
	}
	switch d {
	case 1:
		return 1
	case 2, 3:
		return 2
	}
	return 3
}

func ridOf(d int) uint64 {
	if *wide {
		return [...]uint64{0, 0x1000000000000000 + 1, 0x7000000000000000 + 2, 0xD000000000000000 + 3, 0x4000000000000000 + 4}[d]
	}
	return uint64(100 + d)
}

func grpOf(d int) string {
	if d%2 == 1 {
		return "a"
	}
	return "b"
}

func doc(d int) env.Doc {
	// documents carry different numbers of tokens (a repeat dropped in front of a new document must
	// not shift the new document's tokens)
	var xs []string
	for i := 0; i < (d*2)%5; i++ {
		xs = append(xs, fmt.Sprintf("x%d_%d", d, i))
	}
	tok := map[string][]string{"k": {fmt.Sprintf("d%d", d)}, "g": {grpOf(d)}}
	if len(xs) > 0 {
		tok["x"] = xs
	}
	return env.Doc{MID: midOf(d), RID: ridOf(d), Tok: tok,
		Body: fmt.Sprintf(`{"doc":%d,"payload":"%s"}`, d, strings.Repeat("x", d*3))}
}

func check(e *env.Env, o Obs) string {
	all := &cases.AST{Op: "all"}
	ast, _ := all.Build()
	p := env.Params{From: 0, To: 10, Limit: 100, Order: "desc", WithTotal: true, Interval: 1,
		Aggs: []env.Agg{{Func: "count", GroupBy: "g"}}}
	r, err := e.SearchAST(ast, p)
	if err != nil {
		return "search error: " + err.Error()
	}
	// expected ID list: stored docs ordered by (mid, rid) desc
	want := make([][2]uint64, 0, len(o.Stored))
	for _, d := range o.Stored {
		want = append(want, [2]uint64{midOf(d), ridOf(d)})
	}
	sort.Slice(want, func(i, j int) bool {
		if want[i][0] != want[j][0] {
			return want[i][0] > want[j][0]
		}
		return want[i][1] > want[j][1]
	})
	if fmt.Sprint(r.IDs) != fmt.Sprint(want) && !(len(r.IDs) == 0 && len(want) == 0) {
		return fmt.Sprintf("id list got %v want %v", r.IDs, want)
	}
	if o.Clean {
		if r.Total != o.Total {
			return fmt.Sprintf("total got %d want %d", r.Total, o.Total)
		}
		hist := map[uint64]uint64{}
		for _, d := range o.Stored {
			hist[midOf(d)]++
		}
		if fmt.Sprint(r.Hist) != fmt.Sprint(hist) {
			return fmt.Sprintf("histogram got %v want %v", r.Hist, hist)
		}
		res := r.QPR.Aggs[0].Aggregate(seq.AggregateArgs{Func: seq.AggFuncCount})
		got := map[string]int64{}
		for _, b := range res.Buckets {
			got[b.Name] = int64(b.Value)
		}
		if got["a"] != o.CntA || got["b"] != o.CntB {
			return fmt.Sprintf("count by group got %v want a=%d b=%d", got, o.CntA, o.CntB)
		}
		var fd []int
		for _, f := range e.FM().GetAllFracs() {
			if n := int(f.Info().DocsTotal); n > 0 {
				fd = append(fd, n)
			}
		}
		var wantFd []int
		for _, x := range o.FracDocs {
			if x[1] > 0 {
				wantFd = append(wantFd, x[1])
			}
		}
		if fmt.Sprint(fd) != fmt.Sprint(wantFd) {
			return fmt.Sprintf("per-fraction DocsTotal got %v want %v", fd, wantFd)
		}
	}
	// every document is found by its own token and only by it; fetch returns the original bytes
	stored := map[int]bool{}
	for _, d := range o.Stored {
		stored[d] = true
	}
	var ids []seq.ID
	for d := 1; d <= 4; d++ {
		lit := &cases.AST{Op: "lit", F: "k", Terms: []cases.Str{{"d", fmt.Sprint(d)}}}
		a, _ := lit.Build()
		rr, err := e.SearchAST(a, env.Params{From: 0, To: 10, Limit: 100, Order: "desc", WithTotal: true})
		if err != nil {
			return "search error: " + err.Error()
		}
		if stored[d] {
			if len(rr.IDs) != 1 || rr.IDs[0] != [2]uint64{midOf(d), ridOf(d)} {
				return fmt.Sprintf("search k:d%d got %v want exactly its own id", d, rr.IDs)
			}
		} else if len(rr.IDs) != 0 {
			return fmt.Sprintf("search k:d%d got %v for a document never delivered", d, rr.IDs)
		}
		ids = append(ids, doc(d).ID())
	}
	docs, _, err := e.Fetch(ids, nil)
	if err != nil {
		return "fetch error: " + err.Error()
	}
	for d := 1; d <= 4; d++ {
		if stored[d] {
			if !bytes.Equal(docs[d-1], doc(d).BodyBytes()) {
				return fmt.Sprintf("fetch d%d got %q", d, docs[d-1])
			}
		} else if len(docs[d-1]) != 0 {
			return fmt.Sprintf("fetch d%d got %q for a document never delivered", d, docs[d-1])
		}
	}
	return ""
}

func run(c *Case) {
	e, err := env.New(env.Opts{SkipFsync: true, FPI: 1 + c.N%2})
	if err != nil {
		emit(map[string]any{"infra": err.Error()})
		return
	}
	defer e.Close()
	multi := false
	for i, s := range c.Hist {
		switch s.Op {
		case "bulk":
			var ds []env.Doc
			for _, d := range s.Arg {
				ds = append(ds, doc(d))
			}
			if (c.N+i)%2 == 1 { // repeats arrive in any order inside a bulk
				for l, r := 0, len(ds)-1; l < r; l, r = l+1, r-1 {
					ds[l], ds[r] = ds[r], ds[l]
				}
			}
			if *racy {
				var wg sync.WaitGroup
				errs := make([]error, 2)
				for k := 0; k < 2; k++ {
					wg.Add(1)
					go func(k int) { defer wg.Done(); errs[k] = e.Bulk(ds) }(k)
				}
				wg.Wait()
				err = errs[0]
				if err == nil {
					err = errs[1]
				}
			} else {
				err = e.Bulk(ds)
			}
			if err != nil {
				emit(map[string]any{"n": c.N, "step": i, "what": "bulk error: " + err.Error(), "case": json.RawMessage(c.raw)})
				return
			}
			e.WaitIdle()
		case "seal":
			e.Seal()
			multi = true
		case "restart":
			if err := e.Restart(); err != nil {
				emit(map[string]any{"n": c.N, "step": i, "what": "restart error: " + err.Error(), "case": json.RawMessage(c.raw)})
				return
			}
		}
		evals.Add(1)
		if w := check(e, s.Obs); w != "" {
			emit(map[string]any{"n": c.N, "step": i, "op": s.Op, "what": w, "case": json.RawMessage(c.raw)})
			return
		}
	}
	if multi || len(c.Hist) > 1 {
		nontriv.Add(1)
	}
}

// bigRepeats: a bulk of many documents delivered several times AT ONCE into one active fraction (a proxy retry racing
// the original, index workers running in parallel). Redeliver.tla's delivery is set union: every document counted once
// in total, histogram, the fraction's document count - before and after sealing.
func bigRepeats(rounds int) int {
	bad := 0
	for r := 0; r < rounds; r++ {
		e, err := env.New(env.Opts{SkipFsync: true, Workers: 4})
		if err != nil {
			emit(map[string]any{"infra": err.Error()})
			os.Exit(3)
		}
		const n = 20000
		var ds []env.Doc
		for i := 0; i < n; i++ {
			ds = append(ds, env.Doc{MID: uint64(1000 + i%50), RID: cases.Widen(uint64(1+i%100)) ^ uint64(i), Tok: map[string][]string{"k": {"t"}, "g": {grpOf(i)}}, Body: fmt.Sprintf(`{"i":%d}`, i)})
		}
		// 40 bulks of 500 documents; four deliverers walk through all of them side by side, so that the same bulk is
		// in the indexer several times at once again and again
		var wg sync.WaitGroup
		for k := 0; k < 4; k++ {
			wg.Add(1)
			go func() {
				defer wg.Done()
				for b := 0; b < n; b += 500 {
					e.Bulk(ds[b : b+500])
				}
			}()
		}
		wg.Wait()
		e.WaitIdle()
		check := func(stage string) {
			all := &cases.AST{Op: "all"}
			ast, _ := all.Build()
			res, err := e.SearchAST(ast, env.Params{From: 0, To: 1 << 40, Limit: 10, Order: "desc", WithTotal: true, Interval: 1})
			evals.Add(1)
			var docsTotal uint32
			for _, f := range e.FM().GetAllFracs() {
				docsTotal += f.Info().DocsTotal
			}
			var hist uint64
			if res != nil {
				for _, c := range res.Hist {
					hist += c
				}
			}
			switch {
			case err != nil:
				bad++
				emit(map[string]any{"n": -1 - r, "op": "bulk", "what": stage + ": search error: " + err.Error(), "scenario": "big concurrent repeats"})
			case res.Total != n || hist != n || docsTotal != n:
				bad++
				emit(map[string]any{"n": -1 - r, "op": "bulk", "scenario": "big concurrent repeats",
					"what": fmt.Sprintf("%s: %d distinct documents delivered 4 times at once: total %d, histogram sum %d, fractions' DocsTotal %d", stage, n, res.Total, hist, docsTotal)})
			}
		}
		check("active")
		e.Seal()
		check("sealed")
		e.Close()
	}
	return bad
}

func main() {
	flag.Parse()
	if *big > 0 {
		bigRepeats(*big)
		emit(map[string]any{"summary": true, "cases": *big, "evals": evals.Load(), "nontrivial": *big, "corpora": *big})
		return
	}
	sc := bufio.NewScanner(os.Stdin)
	sc.Buffer(make([]byte, 1<<20), 1<<26)
	w := *workers
	if *progress {
		w = 1
	}
	ch := make(chan *Case)
	var wg sync.WaitGroup
	for i := 0; i < w; i++ {
		wg.Add(1)
		go func() {
			defer wg.Done()
			for c := range ch {
				if *progress {
					emit(map[string]any{"begin": c.N})
				}
				run(c)
				if *progress {
					emit(map[string]any{"end": c.N})
				}
			}
		}()
	}
	n := 0
	for sc.Scan() {
		line := sc.Text()
		if !strings.HasPrefix(line, "{") {
			continue
		}
		c := &Case{raw: line, N: n}
		if err := json.Unmarshal([]byte(line), c); err != nil {
			emit(map[string]any{"infra": "bad case: " + err.Error()})
			os.Exit(3)
		}
		n++
		ch <- c
	}
	close(ch)
	wg.Wait()
	emit(map[string]any{"summary": true, "cases": n, "evals": evals.Load(), "nontrivial": nontriv.Load(), "corpora": n})
}
