// wptrace records executions of the real write path (concurrent bulks into one active fraction,
// real fsync) through the verif hooks and writes them as an ndjson trace for WritePathTrace.tla.
package main

import (
	"encoding/json"
	"flag"
	"fmt"
	"math/rand"
	"os"
	"sort"
	"strings"
	"sync"

	"github.com/ozontech/seq-db/verifhook"

	"verifharness/env"
)

type rawEv struct {
	ev   string // LOCK DW DS MW MS UN ACK
	file string // "docs" | "meta" | ""
	off  int64
}

var (
	mu  sync.Mutex
	evs []rawEv
)

func kind(obj any) string {
	if f, ok := obj.(*os.File); ok {
		if strings.HasSuffix(f.Name(), ".docs") {
			return "docs"
		}
		if strings.HasSuffix(f.Name(), ".meta") {
			return "meta"
		}
	}
	return "?"
}

func observer(point string, obj any, a, b int64) {
	k := kind(obj)
	mu.Lock()
	defer mu.Unlock()
	switch point {
	case "aw.lock":
		evs = append(evs, rawEv{"LOCK", "", 0})
	case "fw.write":
		if k == "docs" {
			evs = append(evs, rawEv{"DW", k, a})
		} else if k == "meta" {
			evs = append(evs, rawEv{"MW", k, a})
		}
	case "fw.sync":
		if k == "docs" {
			evs = append(evs, rawEv{"DS", k, 0})
		} else if k == "meta" {
			evs = append(evs, rawEv{"MS", k, 0})
		}
	case "aw.done":
		evs = append(evs, rawEv{"UN", "docs", a})
	}
}

func main() {
	runs := flag.Int("runs", 10, "")
	bulks := flag.Int("bulks", 24, "bulks per run (<= |Bulks| of WritePathTrace.cfg)")
	writers := flag.Int("writers", 4, "")
	seed := flag.Int64("seed", 1, "")
	out := flag.String("out", "trace.ndjson", "")
	flag.Parse()
	if !verifhook.Enabled {
		fmt.Println(`{"infra":"built without -tags verif"}`)
		os.Exit(3)
	}
	rng := rand.New(rand.NewSource(*seed))
	fh, err := os.Create(*out)
	if err != nil {
		fmt.Printf(`{"infra":%q}`+"\n", err.Error())
		os.Exit(3)
	}
	defer fh.Close()
	enc := json.NewEncoder(fh)
	total := 0
	for r := 0; r < *runs; r++ {
		e, err := env.New(env.Opts{SkipFsync: false})
		if err != nil {
			fmt.Printf(`{"infra":%q}`+"\n", err.Error())
			os.Exit(3)
		}
		mu.Lock()
		evs = nil
		mu.Unlock()
		verifhook.Set(observer)
		nw := 1 + rng.Intn(*writers)
		per := make([]int, nw)
		for i := 0; i < *bulks; i++ {
			per[rng.Intn(nw)]++
		}
		var wg sync.WaitGroup
		for w := 0; w < nw; w++ {
			wg.Add(1)
			go func(w, n int) {
				defer wg.Done()
				for i := 0; i < n; i++ {
					d := env.Doc{MID: uint64(1000 + w), RID: uint64(w*1000 + i), Tok: map[string][]string{"k": {fmt.Sprintf("w%di%d", w, i)}},
						Body: fmt.Sprintf(`{"w":%d,"i":%d,"pad":"%s"}`, w, i, strings.Repeat("z", (w*37+i*11)%300))}
					if err := e.Bulk([]env.Doc{d}); err != nil {
						fmt.Printf(`{"infra":%q}`+"\n", "bulk: "+err.Error())
						os.Exit(3)
					}
					mu.Lock()
					evs = append(evs, rawEv{"ACK", "", 0})
					mu.Unlock()
				}
			}(w, per[w])
		}
		wg.Wait()
		verifhook.Set(nil)
		e.WaitIdle()
		mu.Lock()
		run := append([]rawEv(nil), evs...)
		mu.Unlock()
		e.Close()
		// byte offsets -> unit offsets (rank of the offset among the writes of the file, times 2)
		rank := map[string]map[int64]int{"docs": {}, "meta": {}}
		for _, f := range []string{"docs", "meta"} {
			var offs []int64
			for _, x := range run {
				if (x.ev == "DW" && f == "docs") || (x.ev == "MW" && f == "meta") {
					offs = append(offs, x.off)
				}
			}
			sort.Slice(offs, func(i, j int) bool { return offs[i] < offs[j] })
			for i, o := range offs {
				if _, dup := rank[f][o]; !dup {
					rank[f][o] = i
				}
			}
		}
		enc.Encode(map[string]any{"ev": "RESET", "off": 0})
		for _, x := range run {
			off := 0
			switch x.ev {
			case "DW", "UN":
				off = 2 * rank["docs"][x.off]
			case "MW":
				off = 2 * rank["meta"][x.off]
			}
			enc.Encode(map[string]any{"ev": x.ev, "off": off})
			total++
		}
	}
	fmt.Printf(`{"summary":true,"runs":%d,"events":%d}`+"\n", *runs, total)
}
