// retired: a request that took its list of fractions (FracManager.GetAllFracs) before a retention pass removed the
// oldest fraction goes on using the list afterwards, exactly as the store's handlers do (Searcher.SearchDocs:
// FilterInRange -> IsIntersecting; Fetcher.FetchDocs: groupIDsByFraction -> Contains; List.GetTotalSize -> Info).
// ProxyFrac.tla: ReadAsk on a proxy in every state incl. Suicided answers and never panics (NoPanic), and what is
// served afterwards is each fraction completely or not at all.
package main

import (
	"bytes"
	"context"
	"encoding/json"
	"flag"
	"fmt"
	"os"

	"github.com/ozontech/seq-db/frac"
	"github.com/ozontech/seq-db/fracmanager"
	"github.com/ozontech/seq-db/seq"

	"verifharness/cases"
	"verifharness/env"
)

var problems int

func emit(v any) {
	b, _ := json.Marshal(v)
	os.Stdout.Write(append(b, '\n'))
}

func doc(n int) env.Doc {
	return env.Doc{MID: uint64(1000 + n), RID: uint64(n), Tok: map[string][]string{"k": {"t"}}, Body: fmt.Sprintf(`{"n":%d}`, n)}
}

func try(where, what string, f func() string) {
	defer func() {
		if r := recover(); r != nil {
			problems++
			emit(map[string]any{"where": where, "what": fmt.Sprintf("%s: panic: %v", what, r)})
		}
	}()
	if w := f(); w != "" {
		problems++
		emit(map[string]any{"where": where, "what": what + ": " + w})
	}
}

func bulk3(e *env.Env, from int) ([]env.Doc, error) {
	var b []env.Doc
	for i := 0; i < 3; i++ {
		b = append(b, doc(from+i))
	}
	if err := e.Bulk(b); err != nil {
		return nil, err
	}
	e.WaitIdle()
	return b, nil
}

// size of a sealed fraction holding three such documents
func measure(skip bool) (uint64, error) {
	e, err := env.New(env.Opts{SkipFsync: true, SkipSortDocs: skip, FracSize: 1})
	if err != nil {
		return 0, err
	}
	defer e.Close()
	if _, err := bulk3(e, 1); err != nil {
		return 0, err
	}
	e.FM().VerifMaintenance()
	fr := e.FM().GetAllFracs()
	if len(fr) != 2 {
		return 0, fmt.Errorf("expected a sealed fraction and a fresh active one, got %d fractions", len(fr))
	}
	return fr[0].Info().FullSize(), nil
}

func scenario(skip bool) int {
	where := fmt.Sprintf("skip=%v: request holding the fraction list across a retention pass", skip)
	s, err := measure(skip)
	if err != nil {
		emit(map[string]any{"infra": err.Error()})
		return 0
	}
	e, err := env.New(env.Opts{SkipFsync: true, SkipSortDocs: skip, FracSize: 1, TotalSize: s + s/2})
	if err != nil {
		emit(map[string]any{"infra": err.Error()})
		return 0
	}
	defer e.Close()
	f1, err := bulk3(e, 1)
	if err != nil {
		emit(map[string]any{"infra": "bulk: " + err.Error()})
		return 0
	}
	e.FM().VerifMaintenance() // rotates and seals fraction 1 (born in this process: it stays behind its proxy)
	f2, err := bulk3(e, 4)
	if err != nil {
		emit(map[string]any{"infra": "bulk: " + err.Error()})
		return 0
	}
	list := e.FM().GetAllFracs() // the request's snapshot: [fraction 1 (sealed), fraction 2 (active)]
	if len(list) != 2 {
		emit(map[string]any{"infra": fmt.Sprintf("expected 2 fractions before retention, got %d", len(list))})
		return 0
	}
	name1 := list[0].Info().Name()
	gone := false
	for pass := 0; pass < 4 && !gone; pass++ {
		e.FM().VerifMaintenance() // rotates and seals fraction 2; two sealed fractions are over the limit: fraction 1 goes
		gone = true
		for _, f := range e.FM().GetAllFracs() {
			if f.Info().Name() == name1 {
				gone = false
			}
		}
	}
	if !gone {
		emit(map[string]any{"infra": "retention did not remove the oldest fraction"})
		return 0
	}
	// the request goes on with its list
	try(where, "List.GetTotalSize over the request's list", func() string { _ = fracmanager.List(list).GetTotalSize(); return "" })
	for i, f := range list {
		f := f
		try(where, fmt.Sprintf("IsIntersecting of fraction %d of the list", i+1), func() string { _ = f.IsIntersecting(0, 1<<40); return "" })
		try(where, fmt.Sprintf("Contains of fraction %d of the list", i+1), func() string { _ = f.Contains(seq.MID(1001 + 3*i)); return "" })
		try(where, fmt.Sprintf("Info of fraction %d of the list", i+1), func() string {
			if f.Info() == nil {
				return "nil"
			}
			return ""
		})
	}
	served := func(ds []env.Doc, got map[[2]uint64]bool) int {
		n := 0
		for _, d := range ds {
			if got[[2]uint64{d.MID, d.RID}] {
				n++
			}
		}
		return n
	}
	try(where, "search over the request's list", func() string {
		lit := &cases.AST{Op: "lit", F: "k", Terms: []cases.Str{{"t"}}}
		ast, _ := lit.Build()
		sp := e.SearchParams(env.Params{From: 0, To: 1 << 40, Limit: 100, Order: "desc", WithTotal: true})
		sp.AST = ast
		r, err := env.SearchFracs([]frac.Fraction(list), 1, sp)
		if err != nil {
			return "error: " + err.Error()
		}
		got := map[[2]uint64]bool{}
		for _, id := range r.IDs {
			got[id] = true
		}
		if n := served(f2, got); n != 3 {
			return fmt.Sprintf("%d of 3 documents of the fraction that stays are found", n)
		}
		if n := served(f1, got); n != 0 && n != 3 {
			return fmt.Sprintf("%d of 3 documents of the removed fraction are found (all or none)", n)
		}
		return ""
	})
	try(where, "fetch over the request's list", func() string {
		var ids []seq.IDSource
		all := append(append([]env.Doc{}, f1...), f2...)
		for _, d := range all {
			ids = append(ids, seq.IDSource{ID: d.ID()})
		}
		docs, err := fracmanager.NewFetcher(2).FetchDocs(context.Background(), fracmanager.List(list), ids)
		if err != nil {
			return "error: " + err.Error()
		}
		n1 := 0
		for i, d := range all {
			switch {
			case len(docs[i]) == 0 && i >= 3:
				return fmt.Sprintf("document %d of the fraction that stays is not fetched", i+1)
			case len(docs[i]) != 0 && !bytes.Equal(docs[i], d.BodyBytes()):
				return fmt.Sprintf("document %d fetched with other bytes %q", i+1, docs[i])
			case len(docs[i]) != 0 && i < 3:
				n1++
			}
		}
		if n1 != 0 && n1 != 3 {
			return fmt.Sprintf("%d of 3 documents of the removed fraction are fetched (all or none)", n1)
		}
		return ""
	})
	return 9
}

func main() {
	flag.Int("workers", 1, "")
	flag.Parse()
	n := 0
	for _, skip := range []bool{false, true} {
		n += scenario(skip)
	}
	emit(map[string]any{"summary": true, "cases": 2, "evals": n, "problems": problems})
}
