// handtrace: a concurrent workload whose only purpose is to be RECORDED (VERIF_TRACE_DIR: verifhook's
// recorder writes every hook point the process passes) and validated by TLC against ProxyFracTrace.tla:
// writers, readers that hold fraction lists across rotations / seals / deletions and ask the fractions
// directly (frac.Fraction.DataProvider: the proxy's own path, no cur()-question), the maintenance pass run
// the way the loop runs it (seals and deletions are not waited for), size-based retention with a TotalSize
// of a few fractions (deletion of a fraction whose seal is in flight, deletion through the proxy and of the
// sealed fraction itself).  The driver itself only checks that nothing fails and that every ID returned
// was submitted.
package main

import (
	"encoding/json"
	"flag"
	"fmt"
	"math/rand"
	"os"
	"strings"
	"sync"
	"sync/atomic"
	"time"

	"verifharness/cases"
	"verifharness/env"
)

var (
	mu       sync.Mutex
	problems []string
	evals    atomic.Int64
)

func problem(f string, a ...any) {
	mu.Lock()
	if len(problems) < 20 {
		problems = append(problems, fmt.Sprintf(f, a...))
	}
	mu.Unlock()
}

func lit(f, v string) *cases.AST {
	var t cases.Str
	for _, ch := range v {
		t = append(t, string(ch))
	}
	return &cases.AST{Op: "lit", F: f, Terms: []cases.Str{t}}
}

func main() {
	writers := flag.Int("writers", 3, "")
	readers := flag.Int("readers", 6, "")
	bulks := flag.Int("bulks", 150, "bulks per writer")
	seed := flag.Int64("seed", 1, "")
	skip := flag.Bool("skip", false, "")
	total := flag.Uint64("total", 0, "TotalSize in bytes (0: no retention)")
	flag.Int("workers", 1, "")
	flag.Bool("progress", false, "")
	flag.Parse()
	e, err := env.New(env.Opts{SkipFsync: true, SkipSortDocs: *skip, FracSize: 600, TotalSize: *total, CacheSize: 64 << 10, Workers: 4})
	if err != nil {
		fmt.Printf(`{"infra":%q}`+"\n", err.Error())
		os.Exit(3)
	}
	submitted := sync.Map{}
	stop := make(chan struct{})
	var wg, bg, sealWG, delWG sync.WaitGroup
	// with retention the pass runs while no bulk is in flight or queued: retention that deletes a fraction rotated in the
	// same pass while its admitted bulks are still in the indexer's queue kills the store (DESIGN.md section 9,
	// observations; outside the listed properties) - seals and deletions started by the pass still overlap with later bulks
	var gate sync.RWMutex
	bg.Add(1)
	go func() {
		defer bg.Done()
		rng := rand.New(rand.NewSource(*seed))
		for {
			select {
			case <-stop:
				return
			default:
				if *total > 0 {
					gate.Lock()
					e.WaitIdle()
				}
				e.FM().VerifMaintenancePass(&sealWG, &delWG)
				if *total > 0 {
					gate.Unlock()
				}
				time.Sleep(time.Duration(1+rng.Intn(4)) * time.Millisecond)
			}
		}
	}()
	for w := 1; w <= *writers; w++ {
		wg.Add(1)
		go func(w int) {
			defer wg.Done()
			rng := rand.New(rand.NewSource(*seed*100 + int64(w)))
			i := 0
			for b := 0; b < *bulks; b++ {
				var ds []env.Doc
				for k := 0; k < 1+rng.Intn(6); k++ {
					i++
					n := w*1_000_000 + i
					d := env.Doc{MID: uint64(10_000 + i), RID: uint64(n), Tok: map[string][]string{"k": {"t"}, "w": {fmt.Sprintf("w%d", w)}},
						Body: fmt.Sprintf(`{"w":%d,"i":%d,"pad":"%s"}`, w, i, strings.Repeat("s", 10+(n*7)%90))}
					submitted.Store(d.RID, d)
					ds = append(ds, d)
				}
				done := make(chan error, 1)
				go func() {
					gate.RLock()
					defer gate.RUnlock()
					done <- e.Bulk(ds)
				}()
				select {
				case err := <-done:
					if err != nil {
						problem("bulk of writer %d failed: %v", w, err)
						return
					}
				case <-time.After(120 * time.Second):
					b, _ := json.Marshal(map[string]any{"n": 0, "what": fmt.Sprintf("bulk %d of writer %d did not return within 120 s", b, w)})
					fmt.Println(string(b))
					os.Exit(0)
				}
				if rng.Intn(4) == 0 {
					time.Sleep(time.Duration(rng.Intn(800)) * time.Microsecond)
				}
			}
		}(w)
	}
	var rwg sync.WaitGroup
	for r := 0; r < *readers; r++ {
		rwg.Add(1)
		go func(r int) {
			defer rwg.Done()
			rng := rand.New(rand.NewSource(*seed*1000 + int64(r)))
			for {
				select {
				case <-stop:
					return
				default:
				}
				// the list is taken once and used for a while: proxies in it go through their states meanwhile
				list := e.FM().GetAllFracs()
				q := lit("w", fmt.Sprintf("w%d", 1+rng.Intn(*writers)))
				ast, _ := q.Build()
				sp := e.SearchParamsAST(ast, env.Params{From: 0, To: 1 << 40, Limit: 1000, Order: "desc"})
				for round := 0; round < 1+rng.Intn(3); round++ {
					for _, f := range list {
						if rng.Intn(3) == 0 {
							continue
						}
						qpr, err := env.FracSearch(f, sp)
						evals.Add(1)
						if err != nil {
							problem("search of one fraction failed: %v", err)
							return
						}
						for _, id := range qpr.IDs {
							if _, ok := submitted.Load(uint64(id.ID.RID)); !ok {
								problem("a fraction returned id %v that was never submitted", id.ID)
								return
							}
						}
					}
					time.Sleep(time.Duration(rng.Intn(1500)) * time.Microsecond)
				}
			}
		}(r)
	}
	wg.Wait()
	close(stop)
	rwg.Wait()
	bg.Wait()
	sealWG.Wait()
	delWG.Wait()
	e.WaitIdle()
	e.FM().VerifMaintenance()
	for i, p := range problems {
		b, _ := json.Marshal(map[string]any{"n": i, "what": p})
		fmt.Println(string(b))
	}
	n := 0
	submitted.Range(func(_, _ any) bool { n++; return true })
	fmt.Printf(`{"summary":true,"cases":1,"evals":%d,"nontrivial":1,"corpora":0,"docs":%d}`+"\n", evals.Load(), n)
	os.Exit(0)
}
