// cachedrv replays Cache.tla behaviours as schedules on the real cache package: callers are
// goroutines whose loader functions park at a gate until the schedule releases them with an
// outcome (value / error / panic); cleaner operations are called directly. After every step in
// which no caller is inside a cache the C18 invariants are evaluated on the REAL state
// (accounted size = sum of live entry sizes, live caches still managed, cleanup brings the size
// under the limit, returned values coherent).
package main

import (
	"bufio"
	"encoding/json"
	"errors"
	"flag"
	"fmt"
	"os"
	"strings"
	"sync"
	"sync/atomic"
	"time"

	"github.com/prometheus/client_golang/prometheus"
	dto "github.com/prometheus/client_model/go"

	"github.com/ozontech/seq-db/cache"
)

type Step struct {
	Op string `json:"op"`
	A  int    `json:"a"`
	B  int    `json:"b"`
	C  int    `json:"c"`
}

type Case struct {
	N    int
	Hist []Step `json:"hist"`
	raw  string
}

const unit = 1 << 20

var (
	workers  = flag.Int("workers", 8, "")
	progress = flag.Bool("progress", false, "")
	register = flag.Int("register", 0, "run the registration-against-rotation scenario this many times instead of reading schedules")
	fillers  = flag.Int("fillers", 0, "before a schedule every cache gets this many one-byte entries in a generation of their own (the payload map then crosses its re-creation threshold when a cleanup removes them)")
	limitU   = flag.Float64("limit", 0.5, "cleaner size limit in units (model Limit 0 <-> 0.5, Limit 1 <-> 1.5)")
	outMu    sync.Mutex
	evals    atomic.Int64
	nontriv  atomic.Int64
)

func emit(v any) {
	b, _ := json.Marshal(v)
	outMu.Lock()
	os.Stdout.Write(append(b, '\n'))
	outMu.Unlock()
}

type outcome struct{ kind string } // ok | err | panic

type caller struct {
	gate    chan outcome  // loader waits here
	entered chan struct{} // loader signals it was entered
	done    chan struct{}
	val     string
	err     error
	panicked any
	c, k    int
	inLoad  bool
	running bool
	waits   prometheus.Counter
}

func newCounter() prometheus.Counter {
	return prometheus.NewCounter(prometheus.CounterOpts{Name: "x"})
}

func metrics() (*cache.Metrics, prometheus.Counter) {
	w := newCounter()
	return &cache.Metrics{HitsTotal: newCounter(), MissTotal: newCounter(), PanicsTotal: newCounter(), LockWaitsTotal: newCounter(),
		WaitsTotal: w, ReattemptsTotal: newCounter(), SizeRead: newCounter(), SizeOccupied: newCounter(), SizeReleased: newCounter(),
		MapsRecreated: newCounter(), MissLatency: newCounter()}, w
}

func readCounterOf(c prometheus.Counter) float64 {
	m := &dto.Metric{}
	if err := c.Write(m); err != nil {
		return 0
	}
	return m.GetCounter().GetValue()
}

var errLoad = errors.New("verif: loader error")

// cleanGate stands between the cleaner and a real cache (Cache.tla with SplitCleanup = TRUE): while `on`, the cleaner's
// call of this bucket's Cleanup parks before it reaches the cache, so that the schedule can put lookups, loader ends
// and releases between markStale and the visit of each bucket. Everything is passed on to the real cache.
type cleanGate struct {
	c       *cache.Cache[string]
	on      atomic.Bool
	entered chan struct{}
	gate    chan struct{}
}

func (g *cleanGate) SetGeneration(gen *cache.Generation) { g.c.SetGeneration(gen) }
func (g *cleanGate) Cleanup() uint64 {
	if g.on.Load() {
		g.entered <- struct{}{}
		<-g.gate
	}
	return g.c.Cleanup()
}
func (g *cleanGate) Released() bool              { return g.c.Released() }
func (g *cleanGate) Reset(gen *cache.Generation) { g.c.Reset(gen) }

func run(c *Case) {
	limit := uint64(*limitU * unit)
	cl := cache.NewCleaner(limit, nil)
	const nc = 3
	caches := make([]*cache.Cache[string], nc+1)
	waitsOf := make([]prometheus.Counter, nc+1)
	released := make([]bool, nc+1)
	maxC := 2
	for _, s := range c.Hist {
		if (s.Op == "get" && s.B > maxC) || (s.Op == "release" && s.A > maxC) {
			maxC = 3
		}
	}
	split := false
	for _, s := range c.Hist {
		if s.Op == "markstale" {
			split = true
		}
	}
	gates := make([]*cleanGate, nc+1)
	managed := func(i int) any {
		if split {
			return gates[i]
		}
		return caches[i]
	}
	for i := 1; i <= maxC; i++ {
		m, w := metrics()
		if split {
			caches[i] = cache.NewCache[string](nil, m)
			gates[i] = &cleanGate{c: caches[i], entered: make(chan struct{}, 1), gate: make(chan struct{})}
			cl.AddBucket(gates[i])
		} else {
			caches[i] = cache.NewCache[string](cl, m)
		}
		waitsOf[i] = w
	}
	// a cleaning pass in steps: the cleaner's goroutine is parked in front of bucket `parkedAt` (0: not parked)
	cleaning := false
	parkedAt := 0
	var cleanDone chan struct{}
	nextPark := func() string {
		cases := []chan struct{}{}
		for i := 1; i <= maxC; i++ {
			cases = append(cases, gates[i].entered)
		}
		deadline := time.After(90 * time.Second)
		for {
			for i, ch := range cases {
				select {
				case <-ch:
					parkedAt = i + 1
					return "parked"
				default:
				}
			}
			select {
			case <-cleanDone:
				cleaning, parkedAt = false, 0
				for i := 1; i <= maxC; i++ {
					gates[i].on.Store(false)
				}
				return "done"
			case <-deadline:
				return "stuck"
			case <-time.After(50 * time.Microsecond):
			}
		}
	}
	if *fillers > 0 {
		// not part of the model: tiny entries (1 byte against units of 1 MiB) in the oldest generation. They change
		// nothing the invariants speak about, but the first cleanup that retires their generation removes >= 90 %
		// of the map's entries, so that Cache.recreatePayload really copies the map while loaders may be in flight.
		for i := 1; i <= maxC; i++ {
			for k := 0; k < *fillers; k++ {
				caches[i].Get(uint32(100000+k), func() (string, int) { return "f", 1 })
			}
		}
		cl.Rotate()
	}
	produced := map[[2]int]map[string]bool{}
	var pmu sync.Mutex
	seq := 0
	callers := map[int]*caller{}
	fail := func(i int, what string) {
		emit(map[string]any{"n": c.N, "step": i, "what": what, "case": json.RawMessage(c.raw)})
	}
	// settle waits until caller t is finished, parked in its loader, or waiting on another loader
	settle := func(cl2 *caller, waitsBefore float64) string {
		deadline := time.After(90 * time.Second)
		for {
			select {
			case <-cl2.done:
				cl2.running = false
				return "done"
			case <-cl2.entered:
				cl2.inLoad = true
				return "load"
			case <-deadline:
				return "stuck"
			default:
			}
			if readCounterOf(waitsOf[cl2.c]) > waitsBefore {
				// it is (or was) waiting for another loader; it cannot proceed before that one ends
				select {
				case <-cl2.done:
					cl2.running = false
					return "done"
				case <-cl2.entered:
					cl2.inLoad = true
					return "load"
				case <-time.After(2 * time.Millisecond):
					return "wait"
				}
			}
			time.Sleep(20 * time.Microsecond)
		}
	}
	busy := func() bool {
		for _, x := range callers {
			if x.running {
				select {
				case <-x.done:
					x.running = false
				case <-x.entered:
					x.inLoad = true
					return true
				default:
					return true
				}
			}
		}
		return false
	}
	checkInv := func(i int, afterCleanup bool) bool {
		if busy() || cleaning {
			return true
		}
		evals.Add(1)
		var live uint64
		for ci := 1; ci <= maxC; ci++ {
			if released[ci] {
				continue
			}
			_, sz := caches[ci].VerifLive()
			live += sz
			if !cl.VerifManages(managed(ci)) {
				fail(i, fmt.Sprintf("live cache %d is no longer managed by the cleaner (bucket list has %d entries)", ci, cl.VerifBuckets()))
				return false
			}
		}
		acc := cl.VerifSize()
		if acc != live {
			fail(i, fmt.Sprintf("cleaner accounts %d bytes, live entries hold %d bytes", acc, live))
			return false
		}
		if afterCleanup && acc > limit {
			fail(i, fmt.Sprintf("after a cleanup without concurrent lookups the accounted size %d is over the limit %d", acc, limit))
			return false
		}
		return true
	}
	finish := func(x *caller, i int) bool {
		<-x.done
		x.running = false
		if x.err == nil && x.panicked == nil {
			pmu.Lock()
			ok := produced[[2]int{x.c, x.k}][x.val]
			pmu.Unlock()
			if !ok {
				fail(i, fmt.Sprintf("caller got %q for cache %d key %d, which no loader of that key produced", x.val, x.c, x.k))
				return false
			}
		}
		return true
	}
	for i, s := range c.Hist {
		switch s.Op {
		case "get":
			t, ci, k := s.A, s.B, s.C
			if released[ci] {
				continue
			}
			if x := callers[t]; x != nil && x.running {
				continue // real execution diverged from the model's; keep the schedule executable
			}
			x := &caller{gate: make(chan outcome, 1), entered: make(chan struct{}, 4), done: make(chan struct{}), c: ci, k: k, running: true}
			callers[t] = x
			before := readCounterOf(waitsOf[ci])
			go func() {
				defer close(x.done)
				defer func() {
					if r := recover(); r != nil {
						x.panicked = r
					}
				}()
				x.val, x.err = caches[ci].GetWithError(uint32(k), func() (string, int, error) {
					x.entered <- struct{}{}
					o := <-x.gate
					switch o.kind {
					case "err":
						return "", 0, errLoad
					case "panic":
						panic("verif: loader panic")
					}
					pmu.Lock()
					seq++
					v := fmt.Sprintf("c%dk%d#%d", ci, k, seq)
					if produced[[2]int{ci, k}] == nil {
						produced[[2]int{ci, k}] = map[string]bool{}
					}
					produced[[2]int{ci, k}][v] = true
					pmu.Unlock()
					return v, unit, nil
				})
			}()
			if st := settle(x, before); st == "stuck" {
				fail(i, "caller neither returned, nor entered its loader, nor waited within 90s (deadlock?)")
				return
			} else if st == "done" && !finish(x, i) {
				return
			}
		case "ok", "fail":
			x := callers[s.A]
			if x == nil || !x.running {
				continue
			}
			if !x.inLoad {
				select {
				case <-x.entered:
					x.inLoad = true
				case <-x.done:
					x.running = false
					continue
				case <-time.After(50 * time.Millisecond):
					continue // still waiting on somebody else's load
				}
			}
			kind := "ok"
			if s.Op == "fail" {
				kind = []string{"err", "panic"}[(c.N+i)%2]
			}
			x.inLoad = false
			x.gate <- outcome{kind}
			if !finish(x, i) {
				return
			}
			if kind == "err" && !errors.Is(x.err, errLoad) {
				fail(i, fmt.Sprintf("loader error was not reported to its caller (got %v)", x.err))
				return
			}
			if kind == "panic" && x.panicked == nil {
				fail(i, "loader panic was not propagated to its caller")
				return
			}
			// waiters of this entry now wake up (return the value, or retry and possibly enter their own loader)
			time.Sleep(200 * time.Microsecond)
		case "rotate":
			cl.Rotate()
		case "cleanup":
			cl.Cleanup(&cache.CleanStat{})
			if !checkInv(i, true) {
				return
			}
			continue
		case "markstale":
			for ci := 1; ci <= maxC; ci++ {
				gates[ci].on.Store(true)
			}
			cleaning = true
			cleanDone = make(chan struct{})
			go func(done chan struct{}) {
				cl.Cleanup(&cache.CleanStat{})
				close(done)
			}(cleanDone)
			if nextPark() == "stuck" {
				fail(i, "Cleaner.Cleanup neither reached a bucket nor returned within 90 s")
				return
			}
		case "cleanbucket":
			if !cleaning {
				// the real pass found nothing to do (size not over the limit): a waiter that the model sends back to idle
				// retries on the real cache and may sit in a loader of its own, so the real sizes can be smaller
				continue
			}
			if parkedAt != s.A {
				fail(i, fmt.Sprintf("the cleaning pass is in front of bucket %d, Cache.tla visits bucket %d next", parkedAt, s.A))
				return
			}
			gates[s.A].gate <- struct{}{}
			if nextPark() == "stuck" {
				fail(i, fmt.Sprintf("Cleaner.Cleanup did not come back from bucket %d within 90 s", s.A))
				return
			}
		case "cleanempty":
			cl.CleanEmptyGenerations()
		case "release":
			inside := false
			for _, x := range callers {
				if x.running && x.c == s.A {
					inside = true
				}
			}
			if inside || released[s.A] {
				continue // contract: nobody is inside a cache that is released
			}
			caches[s.A].Release()
			released[s.A] = true
		case "releasebuckets":
			cl.ReleaseBuckets()
		}
		if !checkInv(i, false) {
			return
		}
	}
	// drain: release every parked loader with success and join. Waiters wake up when "their" loader ends and may
	// then enter a loader of their own - whenever the scheduler lets them (the machine may be heavily loaded), so
	// the drain goes on until every caller has returned; only a caller that is still inside after 90 s is a deadlock
	drainDeadline := time.Now().Add(90 * time.Second)
	for {
		running := false
		for t, x := range callers {
			if !x.running {
				continue
			}
			running = true
			if x.inLoad {
				x.inLoad = false
				x.gate <- outcome{"ok"}
				continue
			}
			select {
			case <-x.done:
				x.running = false
			case <-x.entered:
				x.gate <- outcome{"ok"}
			case <-time.After(2 * time.Millisecond):
				if time.Now().After(drainDeadline) {
					fail(len(c.Hist), fmt.Sprintf("caller %d never returned after all loaders were released", t))
					return
				}
			}
		}
		if !running {
			break
		}
	}
	// a cleaning pass the schedule left in the middle runs to its end
	for cleaning {
		if parkedAt != 0 {
			gates[parkedAt].gate <- struct{}{}
		}
		if nextPark() == "stuck" {
			fail(len(c.Hist), "Cleaner.Cleanup did not finish within 90 s")
			return
		}
	}
	checkInv(len(c.Hist), false)
	if len(c.Hist) > 3 {
		nontriv.Add(1)
	}
}

// ---------------------------------------------------------------- registration against rotation (CacheRegister.tla)

// gatedBucket stands between the cleaner and a real cache: the cleaner's first SetGeneration call on it (the one
// AddBucket makes) is held until the driver lets it go, so that a rotation can be attempted in the middle of the
// registration. Everything is passed on to the real cache.
type gatedBucket struct {
	c       *cache.Cache[string]
	entered chan struct{}
	gate    chan struct{}
	first   atomic.Bool
	// gate of the first Released() call (ReleaseBuckets asks every bucket); nil = not gated
	relEntered chan struct{}
	relGate    chan struct{}
	relFirst   atomic.Bool
}

func (g *gatedBucket) SetGeneration(gen *cache.Generation) {
	if g.first.CompareAndSwap(false, true) {
		g.entered <- struct{}{}
		<-g.gate
	}
	g.c.SetGeneration(gen)
}
func (g *gatedBucket) Cleanup() uint64             { return g.c.Cleanup() }
func (g *gatedBucket) Released() bool {
	if g.relGate != nil && g.relFirst.CompareAndSwap(false, true) {
		g.relEntered <- struct{}{}
		<-g.relGate
	}
	return g.c.Released()
}
func (g *gatedBucket) Reset(gen *cache.Generation) { g.c.Reset(gen) }

// registerScenario: CacheRegister.tla says a registration is one step (Register): a rotation comes before it or
// after it. The driver starts a registration, attempts a rotation while the cleaner is inside AddBucket, lets both
// finish and then loads, rotates, cleans and loads again; at every quiescent point the cleaner must account what
// the live entries hold (AccountedEqualsLive), and after the cleaning pass the size must be under the limit.
func registerScenario(n int) int {
	bad := 0
	fail := func(i int, what string) {
		bad++
		emit(map[string]any{"n": -1 - i, "what": "registration of a cache during a rotation: " + what, "scenario": "register"})
	}
	for i := 0; i < n; i++ {
		limit := uint64(1.5 * unit)
		cl := cache.NewCleaner(limit, nil)
		m0, _ := metrics()
		base := cache.NewCache[string](cl, m0)
		base.Get(1, func() (string, int) { return "b", unit }) // the last generation is big enough to be rotated
		m1, _ := metrics()
		inner := cache.NewCache[string](nil, m1)
		gb := &gatedBucket{c: inner, entered: make(chan struct{}, 1), gate: make(chan struct{})}
		regDone := make(chan struct{})
		go func() { cl.AddBucket(gb); close(regDone) }()
		select {
		case <-gb.entered:
		case <-time.After(60 * time.Second):
			emit(map[string]any{"infra": "AddBucket never called SetGeneration"})
			os.Exit(3)
		}
		rotDone := make(chan struct{})
		go func() { cl.Rotate(); close(rotDone) }()
		// the rotation either waits for the cleaner's mutex (registration is atomic) or runs through
		select {
		case <-rotDone:
		case <-time.After(time.Duration(20+i%3*40) * time.Millisecond):
		}
		close(gb.gate)
		<-regDone
		<-rotDone
		check := func(step string, afterCleanup bool) bool {
			_, l0 := base.VerifLive()
			_, l1 := inner.VerifLive()
			if acc := cl.VerifSize(); acc != l0+l1 {
				fail(i, fmt.Sprintf("%s: cleaner accounts %d bytes, live entries hold %d bytes", step, acc, l0+l1))
				return false
			} else if afterCleanup && acc > limit {
				fail(i, fmt.Sprintf("%s: accounted size %d is over the limit %d after a cleaning pass", step, acc, limit))
				return false
			}
			return true
		}
		if !check("after registration", false) {
			continue
		}
		inner.Get(7, func() (string, int) { return "x", unit })
		if !check("after the first load into the new cache", false) {
			continue
		}
		cl.Rotate()
		cl.Cleanup(&cache.CleanStat{})
		if !check("after rotate + cleanup", true) {
			continue
		}
		inner.Get(8, func() (string, int) { return "y", unit })
		if !check("after a load following the cleanup", false) {
			continue
		}
		cl.Rotate()
		cl.Cleanup(&cache.CleanStat{})
		check("after the second rotate + cleanup", true)
	}
	return bad
}

// releaseScenario: CacheRegister.tla says ReleaseBuckets is one step under the cleaner's mutex. The driver registers a
// cache that has been released, starts ReleaseBuckets, attempts the registration of a NEW cache while ReleaseBuckets
// is asking the buckets, lets both finish: the new cache must be under the cleaner's management (LiveCachesManaged)
// and what it loads must be accounted.
func releaseScenario(n int) int {
	bad := 0
	for i := 0; i < n; i++ {
		fail := func(what string) {
			bad++
			emit(map[string]any{"n": -100 - i, "what": "registration of a cache during ReleaseBuckets: " + what, "scenario": "releasebuckets"})
		}
		limit := uint64(1.5 * unit)
		cl := cache.NewCleaner(limit, nil)
		m0, _ := metrics()
		old := cache.NewCache[string](nil, m0)
		gb := &gatedBucket{c: old, entered: make(chan struct{}, 1), gate: make(chan struct{}), relEntered: make(chan struct{}, 1), relGate: make(chan struct{})}
		close(gb.gate)
		cl.AddBucket(gb)
		<-gb.entered
		old.Get(1, func() (string, int) { return "o", unit })
		old.Release()
		relDone := make(chan struct{})
		go func() { cl.ReleaseBuckets(); close(relDone) }()
		select {
		case <-gb.relEntered:
		case <-time.After(60 * time.Second):
			emit(map[string]any{"infra": "ReleaseBuckets never asked the bucket"})
			os.Exit(3)
		}
		m1, _ := metrics()
		var fresh *cache.Cache[string]
		addDone := make(chan struct{})
		go func() { fresh = cache.NewCache[string](cl, m1); close(addDone) }()
		// the registration either waits for the cleaner's mutex (ReleaseBuckets is atomic) or runs through
		select {
		case <-addDone:
		case <-time.After(time.Duration(20+i%3*40) * time.Millisecond):
		}
		close(gb.relGate)
		<-relDone
		<-addDone
		if !cl.VerifManages(fresh) {
			fail(fmt.Sprintf("the new cache is not in the cleaner's bucket list (%d buckets)", cl.VerifBuckets()))
			continue
		}
		fresh.Get(7, func() (string, int) { return "x", unit })
		cl.Rotate()
		fresh.Get(8, func() (string, int) { return "y", unit })
		cl.Cleanup(&cache.CleanStat{})
		_, live := fresh.VerifLive()
		if acc := cl.VerifSize(); acc != live {
			fail(fmt.Sprintf("cleaner accounts %d bytes, live entries hold %d bytes", acc, live))
		} else if acc > limit {
			fail(fmt.Sprintf("accounted size %d is over the limit %d after a cleaning pass", acc, limit))
		}
	}
	return bad
}

func main() {
	flag.Parse()
	if *register > 0 {
		releaseScenario(*register)
		registerScenario(*register)
		emit(map[string]any{"summary": true, "cases": *register, "evals": *register * 5, "nontrivial": *register, "corpora": 0})
		return
	}
	sc := bufio.NewScanner(os.Stdin)
	sc.Buffer(make([]byte, 1<<20), 1<<26)
	w := *workers
	if *progress {
		w = 1
	}
	ch := make(chan *Case)
	var wg sync.WaitGroup
	for i := 0; i < w; i++ {
		wg.Add(1)
		go func() {
			defer wg.Done()
			for c := range ch {
				if *progress {
					emit(map[string]any{"begin": c.N})
				}
				run(c)
				if *progress {
					emit(map[string]any{"end": c.N})
				}
			}
		}()
	}
	n := 0
	for sc.Scan() {
		line := sc.Text()
		if !strings.HasPrefix(line, "{") {
			continue
		}
		c := &Case{raw: line, N: n}
		if err := json.Unmarshal([]byte(line), c); err != nil {
			emit(map[string]any{"infra": "bad case: " + err.Error()})
			os.Exit(3)
		}
		n++
		ch <- c
	}
	close(ch)
	wg.Wait()
	emit(map[string]any{"summary": true, "cases": n, "evals": evals.Load(), "nontrivial": nontriv.Load(), "corpora": n})
}
