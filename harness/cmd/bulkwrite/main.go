// bulkwrite binds BulkWrite.tla (C09) to the real proxy write path.
//
// Input (stdin, one JSON object per line) are *scripts* projected from TLC behaviours of
// BulkWrite.tla: a topology, for every host the outcome of its k-th Bulk call (ok / err / lost =
// the store accepted but the client sees an error), and a breaker schedule (which shard breakers are
// open in which epoch, epoch = number of shard calls started so far).  Each script is run several
// times (the shard order inside sendBulkToStores is random and not seedable) against the REAL
// bulk.SeqDBClient (bulk.NewSeqDBClient + StoreDocuments, real network/circuitbreaker) with scripted
// in-memory StoreApiClient fakes.  Every run is recorded as a trace (reset / shard / ret lines,
// see spec/BulkWriteTrace.tla) into the file given by -out; the check validates those traces with
// TLC.  In addition the driver checks directly, against the fakes' own bookkeeping, what the
// property says about the returned value (nil => a full replica set accepted exactly the payload
// in the hot tier, and in the long-term tier if configured), that every host is called at most
// consts.BulkMaxTries times and that no call arrives after StoreDocuments returned.
//
// Circuit breakers live in a process-global manager under fixed names (bulk_hot-shard-N,
// bulk_write-shard-N), so one process runs one StoreDocuments *under test* at a time; -workers N
// starts N child processes.  A breaker is made to reject in the two ways BulkWrite.tla names
// (RejectKinds): "open" = forced open, "limit" = MaxConcurrent (1..3, per child) OTHER bulks - real
// StoreDocuments calls of further SeqDBClients whose shard of the same index shares the breaker - are
// parked inside it, so that the bulk under test runs into cep21's concurrency limit.
//
// The request context (CtxDone of the spec): scripts carry `cancel` = e (the context ends after e-1
// shard calls; 1 = before StoreDocuments is called) and `ckind` (caller cancels / deadline passes).
// The first replica call of shard call e-1 waits until the other replica calls of that shard.Bulk
// have entered, then cancels (or waits for the deadline, which was chosen to lie beyond that point).
// A replica call that begins on a context that is done behaves like the gRPC stub: error, nothing
// stored.  The moment the harness makes or first sees the context done is logged (`cancel` line).  Breakers are configured never to trip by themselves and are opened/closed explicitly
// at epoch boundaries ("forced" scripts); scripts with "natural":true run in children whose breakers
// have a hair-trigger configuration and are left alone (they trip on the scripted errors and
// half-open after SleepWindow).
package main

import (
	"bufio"
	"bytes"
	"context"
	"encoding/json"
	"errors"
	"flag"
	"fmt"
	"hash/fnv"
	"io"
	"os"
	"os/exec"
	"sync"
	"time"

	"google.golang.org/grpc"
	"google.golang.org/grpc/codes"
	"google.golang.org/grpc/status"
	"google.golang.org/protobuf/types/known/emptypb"

	"github.com/ozontech/seq-db/consts"
	"github.com/ozontech/seq-db/network/circuitbreaker"
	"github.com/ozontech/seq-db/pkg/storeapi"
	"github.com/ozontech/seq-db/proxy/bulk"
	"github.com/ozontech/seq-db/proxy/stores"
)

const (
	maxS           = 3
	maxR           = 3
	breakerTimeout = 25 * time.Millisecond
	watchdog       = 20 * time.Second
)

type Topo struct {
	HS int `json:"hs"`
	HR int `json:"hr"`
	CS int `json:"cs"`
	CR int `json:"cr"`
}

type TS struct {
	T string `json:"t"`
	S int    `json:"s"` // 1-based
	K string `json:"k"` // why the breaker rejects: "open" | "limit"
}

type bkey struct {
	t string
	s int
}

type Script struct {
	N       int          `json:"n"`
	Topo    Topo         `json:"topo"`
	Hot     [][][]string `json:"hot"`  // [shard][replica] -> outcomes of the k-th call
	Cold    [][][]string `json:"cold"` //
	Rejs    [][]TS       `json:"rejs"` // epoch -> breakers open during that epoch
	Pad     string       `json:"pad"`  // outcome once a host's list is exhausted
	Real    uint32       `json:"real"` // selects the concrete realisation of err / lost (error value, time-out)
	Natural bool         `json:"natural"`
	Reps    int          `json:"reps"`
	Cancel  int          `json:"cancel"` // 0: the request context stays alive; e >= 1: it ends after e-1 shard calls
	CKind   string       `json:"ckind"`  // "cancel" | "deadline"
}

// one line of the trace file; all lines carry all fields (TLC records must be uniform)
type Line struct {
	Ev       string              `json:"ev"`
	T        string              `json:"t"`
	S        int                 `json:"s"`
	Called   []int               `json:"called"`
	Out      []string            `json:"out"`
	Open     []TS                `json:"open"`
	Res      string              `json:"res"`
	Acc      map[string][][]bool `json:"acc"`
	HS       int                 `json:"hs"`
	HR       int                 `json:"hr"`
	CS       int                 `json:"cs"`
	CR       int                 `json:"cr"`
	MaxTries int                 `json:"maxtries"`
	Guard    bool                `json:"guard"`
	N        int                 `json:"n"`   // script index (not read by the spec)
	Rep      int                 `json:"rep"` // repetition (not read by the spec)
}

func blankAcc() map[string][][]bool {
	m := map[string][][]bool{}
	for _, t := range []string{"hot", "cold"} {
		a := make([][]bool, maxS)
		for i := range a {
			a[i] = make([]bool, maxR)
		}
		m[t] = a
	}
	return m
}

func newLine(ev string, n, rep int) Line {
	return Line{Ev: ev, Called: []int{}, Out: []string{"-", "-", "-"}, Open: []TS{}, Acc: blankAcc(),
		MaxTries: consts.BulkMaxTries, Guard: true, N: n, Rep: rep}
}

var outMu sync.Mutex

func emit(v any) {
	b, _ := json.Marshal(v)
	outMu.Lock()
	os.Stdout.Write(append(b, '\n'))
	outMu.Unlock()
}

// ---------------------------------------------------------------------------------- breakers

type breakers struct {
	natural bool
	maxConc int
	cfg     circuitbreaker.Config
	cb      map[bkey]*circuitbreaker.CircuitBreaker
	busy    map[bkey]*occupancy
	probs   []map[string]any // what the parked bulks themselves showed (reported with the current run)
}

func breakerName(t string, s int) string {
	// names chosen by bulk.NewSeqDBClient / newBulkStores
	if t == "hot" {
		return fmt.Sprintf("bulk_hot-shard-%d", s-1)
	}
	return fmt.Sprintf("bulk_write-shard-%d", s-1)
}

func newBreakers(natural bool, maxConc int) *breakers {
	b := &breakers{natural: natural, maxConc: maxConc, cb: map[bkey]*circuitbreaker.CircuitBreaker{}, busy: map[bkey]*occupancy{}}
	if natural {
		b.cfg = circuitbreaker.Config{Timeout: breakerTimeout, MaxConcurrent: -1, NumBuckets: 2, BucketWidth: 100 * time.Millisecond,
			RequestVolumeThreshold: 1, ErrorThresholdPercentage: 1, SleepWindow: 60 * time.Millisecond}
	} else {
		b.cfg = circuitbreaker.Config{Timeout: breakerTimeout, MaxConcurrent: int64(maxConc), NumBuckets: 10, BucketWidth: time.Second,
			RequestVolumeThreshold: 1 << 40, ErrorThresholdPercentage: 100, SleepWindow: time.Hour}
	}
	// the manager returns the same circuit for the same name: these are the ones the client will use
	for _, t := range []string{"hot", "cold"} {
		for s := 1; s <= maxS; s++ {
			b.cb[bkey{t, s}] = circuitbreaker.New(breakerName(t, s), b.cfg)
		}
	}
	return b
}

// occupancy = MaxConcurrent other bulks parked inside one shard's breaker
type occupancy struct {
	release chan struct{}
	bulks   []*occBulk
}

type occBulk struct {
	done     chan error
	accepted bool // the store of the target shard accepted (set before the call returns)
}

// occFake is a store of a parked bulk: the store of the target shard holds the call until released and
// then accepts; the stores of the other shards (lower indexes, needed to get the target's breaker name) fail.
type occFake struct {
	storeapi.StoreApiClient
	target  bool
	ob      *occBulk
	parked  chan struct{}
	release chan struct{}
}

func (f *occFake) Bulk(ctx context.Context, in *storeapi.BulkRequest, _ ...grpc.CallOption) (*emptypb.Empty, error) {
	if !f.target {
		return nil, status.Error(codes.Unavailable, "occupant: not this shard")
	}
	select {
	case f.parked <- struct{}{}:
	default:
	}
	<-f.release
	f.ob.accepted = true
	return &emptypb.Empty{}, nil
}

// occupy parks maxConc real bulks inside breaker k; false if they could not be parked
func (b *breakers) occupy(k bkey) bool {
	oc := &occupancy{release: make(chan struct{})}
	for i := 0; i < b.maxConc; i++ {
		ob := &occBulk{done: make(chan error, 1)}
		parked := make(chan struct{}, 1)
		clients := map[string]storeapi.StoreApiClient{}
		st := &stores.Stores{Shards: [][]string{}, Vers: []string{}}
		for s := 1; s <= k.s; s++ {
			h := fmt.Sprintf("occ%d-%s-%d:9002", i, k.t, s)
			clients[h] = &occFake{target: s == k.s, ob: ob, parked: parked, release: oc.release}
			st.Shards = append(st.Shards, []string{h})
			st.Vers = append(st.Vers, "")
		}
		empty := &stores.Stores{Shards: [][]string{}, Vers: []string{}}
		var cl *bulk.SeqDBClient
		if k.t == "hot" {
			cl = bulk.NewSeqDBClient(st, empty, b.cfg, clients)
		} else {
			cl = bulk.NewSeqDBClient(empty, st, b.cfg, clients)
		}
		go func() { ob.done <- cl.StoreDocuments(context.Background(), 1, []byte("occupant-docs"), []byte("occupant-metas")) }()
		select {
		case <-parked:
			oc.bulks = append(oc.bulks, ob)
		case err := <-ob.done:
			// it came back without ever reaching its store
			if err == nil {
				b.probs = append(b.probs, map[string]any{"what": "acknowledged without a full replica set (AckSound): a concurrent bulk whose only store was never called",
					"got": "nil", "exp": "error", "breaker": breakerName(k.t, k.s), "parked_before_it": i, "max_concurrent": b.maxConc})
			}
			b.releaseOcc(oc)
			return false
		case <-time.After(watchdog):
			b.probs = append(b.probs, map[string]any{"what": "StoreDocuments did not return (EventuallyAnswers): concurrent bulk neither reached its store nor returned",
				"breaker": breakerName(k.t, k.s)})
			b.releaseOcc(oc)
			return false
		}
	}
	b.busy[k] = oc
	return true
}

func (b *breakers) releaseOcc(oc *occupancy) {
	close(oc.release)
	for _, ob := range oc.bulks {
		select {
		case err := <-ob.done:
			if err == nil && !ob.accepted {
				b.probs = append(b.probs, map[string]any{"what": "acknowledged without a full replica set (AckSound): a concurrent (parked) bulk", "got": "nil", "exp": "error"})
			}
		case <-time.After(watchdog):
			b.probs = append(b.probs, map[string]any{"what": "StoreDocuments did not return (EventuallyAnswers): released concurrent bulk"})
		}
	}
}

func (b *breakers) free(k bkey) {
	if oc := b.busy[k]; oc != nil {
		delete(b.busy, k)
		b.releaseOcc(oc)
	}
}

func (b *breakers) closeAll() {
	for k, c := range b.cb {
		b.free(k)
		c.CloseCircuit()
	}
}

// apply makes exactly the breakers of `want` reject (in the way named), leaving `except` (the one executing) alone
func (b *breakers) apply(want []TS, except bkey) {
	open, limit := map[bkey]bool{}, map[bkey]bool{}
	for _, x := range want {
		if x.K == "limit" {
			limit[bkey{x.T, x.S}] = true
		} else {
			open[bkey{x.T, x.S}] = true
		}
	}
	for _, t := range []string{"cold", "hot"} {
		for s := 1; s <= maxS; s++ {
			k := bkey{t, s}
			if k == except {
				continue
			}
			c := b.cb[k]
			if !limit[k] {
				b.free(k)
			}
			if limit[k] && b.busy[k] == nil {
				c.CloseCircuit() // the other bulks must get in
				b.occupy(k)
			}
			if open[k] {
				c.OpenCircuit()
			} else {
				c.CloseCircuit()
			}
		}
	}
}

func (b *breakers) snapshot(tp Topo) []TS {
	out := []TS{}
	for _, t := range []string{"cold", "hot"} {
		n := tp.HS
		if t == "cold" {
			n = tp.CS
		}
		for s := 1; s <= n; s++ {
			if b.cb[bkey{t, s}].IsOpen() {
				out = append(out, TS{t, s, "open"})
			}
			if b.busy[bkey{t, s}] != nil {
				out = append(out, TS{t, s, "limit"})
			}
		}
	}
	return out
}

// ---------------------------------------------------------------------------------- fakes

type run struct {
	mu       sync.Mutex
	sc       *Script
	rep      int
	br       *breakers
	count    int64
	docs     []byte
	metas    []byte
	lines    []Line
	groups   map[groupKey]int // (ctx of one breaker.Execute, shard) -> index into lines
	epoch    int
	finished bool
	problems []map[string]any
	faults   int

	reqCtx       context.Context // the context given to StoreDocuments
	cancelFn     context.CancelFunc
	cancelLogged bool        // a `cancel` line has been written
	cancelIssued bool        // a replica call has taken the job of ending the context
	entered      map[int]int // index of a shard line -> replica calls of that shard.Bulk that have entered
}

// logCancel (r.mu held) writes the `cancel` line once
func (r *run) logCancel() {
	if r.cancelLogged {
		return
	}
	r.cancelLogged = true
	ln := newLine("cancel", r.sc.N, r.rep)
	ln.Guard = !r.br.natural
	ln.Open = r.br.snapshot(r.sc.Topo)
	r.lines = append(r.lines, ln)
}

type groupKey struct {
	ctx context.Context
	t   string
	s   int
}

type fake struct {
	storeapi.StoreApiClient // nil: any other method panics, the write path must only use Bulk
	r                       *run
	t                       string
	s, rp                   int // 1-based
	script                  []string
	calls                   int
	accepted                bool
}

func (r *run) problem(what string, kv map[string]any) {
	p := map[string]any{"n": r.sc.N, "rep": r.rep, "what": what}
	for k, v := range kv {
		p[k] = v
	}
	r.problems = append(r.problems, p)
}

func h32(parts ...any) uint32 {
	h := fnv.New32a()
	fmt.Fprint(h, parts...)
	return h.Sum32()
}

func (f *fake) Bulk(ctx context.Context, in *storeapi.BulkRequest, _ ...grpc.CallOption) (*emptypb.Empty, error) {
	r := f.r
	r.mu.Lock()
	k := f.calls
	f.calls++
	if r.finished {
		r.problem("call after StoreDocuments returned", map[string]any{"host": fmt.Sprintf("%s-%d-%d", f.t, f.s, f.rp)})
	}
	if f.calls > consts.BulkMaxTries {
		r.problem("host called more than BulkMaxTries times", map[string]any{"host": fmt.Sprintf("%s-%d-%d", f.t, f.s, f.rp), "calls": f.calls})
	}
	gk := groupKey{ctx, f.t, f.s}
	gi, ok := r.groups[gk]
	if ok && r.lines[gi].Out[f.rp-1] != "-" {
		ok = false // the same replica again: cannot be the same shard.Bulk
	}
	// a call begun on a request context that is done: like the gRPC stub, an error and nothing sent
	ctxDone := r.reqCtx.Err() != nil
	canceller := false
	if !ok {
		// first replica call of a new breaker.Execute (all replica calls of one shard.Bulk share its ctx)
		r.epoch++
		if ctxDone {
			r.logCancel() // seen done before this shard call
		}
		if !ctxDone && !r.cancelIssued && r.sc.Cancel >= 2 && r.epoch == r.sc.Cancel-1 {
			r.cancelIssued, canceller = true, true
		}
		if !r.br.natural {
			var open []TS
			if r.epoch < len(r.sc.Rejs) {
				open = r.sc.Rejs[r.epoch]
			}
			r.br.apply(open, bkey{f.t, f.s})
		}
		ln := newLine("shard", r.sc.N, r.rep)
		ln.T, ln.S = f.t, f.s
		ln.Guard = !r.br.natural
		ln.Open = r.br.snapshot(r.sc.Topo)
		r.lines = append(r.lines, ln)
		gi = len(r.lines) - 1
		r.groups[gk] = gi
	}
	r.entered[gi]++
	if ctxDone {
		r.logCancel() // first seen by a later replica call of a shard.Bulk that began on a live context
	}
	ln := &r.lines[gi]
	out := r.sc.Pad
	if k < len(f.script) {
		out = f.script[k]
	}
	if ctxDone {
		out = "err"
	}
	if out != "ok" {
		r.faults++
	}
	if out == "ok" || out == "lost" {
		// the store accepts: exactly the payload?
		if in == nil || in.Count != r.count || !bytes.Equal(in.Docs, r.docs) || !bytes.Equal(in.Metas, r.metas) {
			r.problem("store received a different payload", map[string]any{"host": fmt.Sprintf("%s-%d-%d", f.t, f.s, f.rp)})
			out = "err"
		} else {
			f.accepted = true
		}
	}
	ln.Called = append(ln.Called, f.rp)
	ln.Out[f.rp-1] = out
	variant := h32(r.sc.Real, f.t, f.s, f.rp, k) % 8
	r.mu.Unlock()

	if canceller {
		r.endContext(gi)
	}
	if ctxDone {
		return nil, status.FromContextError(r.reqCtx.Err()).Err()
	}
	if out == "ok" {
		return &emptypb.Empty{}, nil
	}
	switch variant {
	case 0, 1: // the breaker's execution time-out expires while the call is in flight
		<-ctx.Done()
		return nil, status.FromContextError(ctx.Err()).Err()
	case 2:
		return nil, status.Error(codes.Unavailable, "scripted: unavailable")
	case 3:
		return nil, status.Error(codes.ResourceExhausted, "scripted: store is overloaded")
	case 4:
		return nil, context.DeadlineExceeded
	case 5:
		return nil, io.ErrUnexpectedEOF
	default:
		return nil, errors.New("scripted: connection reset")
	}
}

// endContext is run by the first replica call of the shard call after which the script ends the request
// context: it lets the other replica calls of this shard.Bulk enter (they are started by one loop; "entered"
// has not changed for 2 ms, at most 12 ms), then cancels / waits for the deadline, and logs.
func (r *run) endContext(gi int) {
	last, stable := -1, 0
	for i := 0; i < 12 && stable < 2; i++ {
		time.Sleep(time.Millisecond)
		r.mu.Lock()
		n := r.entered[gi]
		r.mu.Unlock()
		if n == last {
			stable++
		} else {
			last, stable = n, 0
		}
	}
	if r.sc.CKind == "deadline" {
		select {
		case <-r.reqCtx.Done():
		case <-time.After(watchdog):
		}
	} else {
		r.cancelFn()
	}
	r.mu.Lock()
	if r.reqCtx.Err() != nil {
		r.logCancel()
	}
	r.mu.Unlock()
}

// ---------------------------------------------------------------------------------- one run

func hostName(t string, s, r int) string { return fmt.Sprintf("%s-%d-%d:9002", t, s, r) }

func runOnce(br *breakers, sc *Script, rep int) (*run, bool) {
	r := &run{sc: sc, rep: rep, br: br, groups: map[groupKey]int{}, entered: map[int]int{}}
	seed := h32("payload", sc.N, rep, sc.Real)
	r.count = int64(1 + seed%7)
	r.docs = []byte(fmt.Sprintf("docs-%d-%d-%08x", sc.N, rep, seed))
	r.metas = []byte(fmt.Sprintf("metas-%d-%d-%08x", sc.N, rep, seed))

	clients := map[string]storeapi.StoreApiClient{}
	fakes := map[string][][]*fake{}
	mk := func(t string, ns, nr int, scr [][][]string) *stores.Stores {
		st := &stores.Stores{Shards: [][]string{}, Vers: []string{}}
		fs := make([][]*fake, ns)
		for s := 1; s <= ns; s++ {
			var hosts []string
			for rp := 1; rp <= nr; rp++ {
				f := &fake{r: r, t: t, s: s, rp: rp}
				if s-1 < len(scr) && rp-1 < len(scr[s-1]) {
					f.script = scr[s-1][rp-1]
				}
				h := hostName(t, s, rp)
				clients[h] = f
				hosts = append(hosts, h)
				fs[s-1] = append(fs[s-1], f)
			}
			st.Shards = append(st.Shards, hosts)
			st.Vers = append(st.Vers, "")
		}
		fakes[t] = fs
		return st
	}
	hot := mk("hot", sc.Topo.HS, sc.Topo.HR, sc.Hot)
	cold := mk("cold", sc.Topo.CS, sc.Topo.CR, sc.Cold)

	br.closeAll()
	if !br.natural && len(sc.Rejs) > 0 {
		br.apply(sc.Rejs[0], bkey{})
	}
	reset := newLine("reset", sc.N, rep)
	reset.HS, reset.HR, reset.CS, reset.CR = sc.Topo.HS, sc.Topo.HR, sc.Topo.CS, sc.Topo.CR
	reset.Guard = !br.natural
	reset.Open = br.snapshot(sc.Topo)
	r.lines = append(r.lines, reset)

	client := bulk.NewSeqDBClient(hot, cold, br.cfg, clients)

	// the request context: Ingestor.ProcessDocuments gives one with the consts.BulkTimeout deadline, derived from
	// the caller's.  Deadline scripts: it passes after the (e-1)-th shard call; each earlier shard call may take
	// the breaker's time-out, the third attempt begins after a 100 ms back-off.
	switch {
	case sc.Cancel >= 1 && sc.CKind == "deadline":
		d := -time.Millisecond
		if sc.Cancel >= 2 {
			d = time.Duration(sc.Cancel-1)*(breakerTimeout+10*time.Millisecond) + 120*time.Millisecond
		}
		r.reqCtx, r.cancelFn = context.WithDeadline(context.Background(), time.Now().Add(d))
	case sc.Cancel >= 1:
		r.reqCtx, r.cancelFn = context.WithCancel(context.Background())
		if sc.Cancel == 1 {
			r.cancelFn()
		}
	case seed%2 == 0:
		r.reqCtx, r.cancelFn = context.WithTimeout(context.Background(), time.Hour)
	default:
		r.reqCtx, r.cancelFn = context.WithCancel(context.Background())
	}
	defer r.cancelFn()
	if r.reqCtx.Err() != nil {
		r.logCancel()
	}

	done := make(chan error, 1)
	go func() { done <- client.StoreDocuments(r.reqCtx, int(r.count), r.docs, r.metas) }()
	var err error
	select {
	case err = <-done:
	case <-time.After(watchdog):
		r.mu.Lock()
		r.problem("StoreDocuments did not return (EventuallyAnswers)", map[string]any{"after_s": watchdog.Seconds()})
		r.mu.Unlock()
		return r, false
	}

	r.mu.Lock()
	defer r.mu.Unlock()
	r.finished = true
	for _, p := range br.probs {
		r.problem(fmt.Sprint(p["what"]), p)
	}
	br.probs = nil
	ret := newLine("ret", sc.N, rep)
	ret.Guard = !br.natural
	ret.Res = "ok"
	if err != nil {
		ret.Res = "err"
	}
	full := map[string]bool{}
	for t, fs := range fakes {
		for s := range fs {
			all := true
			for rp, f := range fs[s] {
				ret.Acc[t][s][rp] = f.accepted
				all = all && f.accepted
			}
			if all {
				full[t] = true
			}
		}
	}
	r.lines = append(r.lines, ret)
	// the property, read off the stores themselves
	if err == nil && (!full["hot"] || (sc.Topo.CS > 0 && !full["cold"])) {
		r.problem("acknowledged without a full replica set (AckSound)", map[string]any{
			"got": "nil", "exp": "error", "full_hot": full["hot"], "full_cold": full["cold"], "accepted": ret.Acc})
	}
	return r, true
}

// ---------------------------------------------------------------------------------- child / parent

func child(natural, progress bool, outPath string, maxConc int) int {
	br := newBreakers(natural, maxConc)
	out, err := os.Create(outPath)
	if err != nil {
		emit(map[string]any{"infra": "cannot create " + outPath + ": " + err.Error()})
		return 2
	}
	w := bufio.NewWriterSize(out, 1<<20)
	defer func() { w.Flush(); out.Close() }()
	in := bufio.NewReaderSize(os.Stdin, 1<<20)
	cases, evals, nontrivial := 0, 0, 0
	for {
		raw, rerr := in.ReadBytes('\n')
		if len(bytes.TrimSpace(raw)) > 0 {
			var sc Script
			if err := json.Unmarshal(raw, &sc); err != nil {
				emit(map[string]any{"infra": "bad script: " + err.Error()})
				return 2
			}
			if sc.Topo.HS < 1 || sc.Topo.HS > maxS || sc.Topo.HR < 1 || sc.Topo.HR > maxR || sc.Topo.CS > maxS || sc.Topo.CR > maxR ||
				(sc.Topo.CS == 0) != (sc.Topo.CR == 0) {
				emit(map[string]any{"infra": fmt.Sprintf("bad topology in script %d", sc.N)})
				return 2
			}
			if sc.Pad == "" {
				sc.Pad = "err"
			}
			reps := sc.Reps
			if reps <= 0 {
				reps = 3
			}
			if progress {
				emit(map[string]any{"begin": sc.N})
			}
			cases++
			for rep := 0; rep < reps; rep++ {
				r, finished := runOnce(br, &sc, rep)
				evals++
				for _, p := range r.problems {
					emit(p)
				}
				if !finished {
					// the client is still running and owns the breakers: this process cannot go on
					w.Flush()
					emit(map[string]any{"summary": true, "cases": cases, "evals": evals, "nontrivial": nontrivial, "corpora": 0, "aborted": true})
					return 0
				}
				if r.faults > 0 || len(r.lines[0].Open) > 0 || r.cancelLogged {
					nontrivial++
				}
				for _, ln := range r.lines {
					b, _ := json.Marshal(ln)
					w.Write(b)
					w.WriteByte('\n')
				}
			}
			if progress {
				emit(map[string]any{"end": sc.N})
			}
		}
		if rerr != nil {
			break
		}
	}
	emit(map[string]any{"summary": true, "cases": cases, "evals": evals, "nontrivial": nontrivial, "corpora": 0})
	return 0
}

func main() {
	workers := flag.Int("workers", 4, "number of child processes")
	progress := flag.Bool("progress", false, "print begin/end markers (serial)")
	outPath := flag.String("out", "", "trace file to write (ndjson)")
	isChild := flag.Bool("child", false, "internal: run scripts from stdin in this process")
	natural := flag.Bool("natural", false, "internal: breakers trip by themselves")
	maxConc := flag.Int("maxconc", 1, "internal: MaxConcurrent of the breakers (forced mode)")
	flag.Parse()
	if *outPath == "" {
		emit(map[string]any{"infra": "-out is required"})
		os.Exit(2)
	}
	if *isChild {
		os.Exit(child(*natural, *progress, *outPath, *maxConc))
	}

	// parent: split the scripts over children (forced and natural scripts go to different processes)
	var forced, nat [][]byte
	in := bufio.NewReaderSize(os.Stdin, 1<<20)
	idx := 0
	for {
		raw, rerr := in.ReadBytes('\n')
		if t := bytes.TrimSpace(raw); len(t) > 0 {
			var m map[string]any
			if err := json.Unmarshal(t, &m); err != nil {
				emit(map[string]any{"infra": "bad script line: " + err.Error()})
				os.Exit(2)
			}
			m["n"] = idx // the index run_cases uses
			idx++
			b, _ := json.Marshal(m)
			if v, _ := m["natural"].(bool); v {
				nat = append(nat, b)
			} else {
				forced = append(forced, b)
			}
		}
		if rerr != nil {
			break
		}
	}
	if *progress {
		*workers = 1
	}
	type job struct {
		natural bool
		lines   [][]byte
		out     string
		maxConc int
	}
	var jobs []job
	split := func(lines [][]byte, natural bool, n int) {
		if len(lines) == 0 {
			return
		}
		if n > len(lines) {
			n = len(lines)
		}
		if n < 1 {
			n = 1
		}
		parts := make([][][]byte, n)
		for i, l := range lines {
			parts[i%n] = append(parts[i%n], l)
		}
		for _, p := range parts {
			jobs = append(jobs, job{natural, p, fmt.Sprintf("%s.part%d", *outPath, len(jobs)), 1 + len(jobs)%3})
		}
	}
	nn := 0
	if len(nat) > 0 {
		nn = 1 + (*workers*len(nat))/(len(nat)+len(forced))
	}
	nf := *workers - nn
	if nf < 1 {
		nf = 1
	}
	split(forced, false, nf)
	split(nat, true, nn)

	self, _ := os.Executable()
	var wg sync.WaitGroup
	failed := false
	var fmu sync.Mutex
	tot := map[string]int{}
	for _, j := range jobs {
		wg.Add(1)
		go func(j job) {
			defer wg.Done()
			args := []string{"-child", "-out", j.out, "-maxconc", fmt.Sprint(j.maxConc)}
			if j.natural {
				args = append(args, "-natural")
			}
			if *progress {
				args = append(args, "-progress")
			}
			cmd := exec.Command(self, args...)
			cmd.Env = append(os.Environ(), "LOG_LEVEL=fatal")
			cmd.Stdin = bytes.NewReader(append(bytes.Join(j.lines, []byte("\n")), '\n'))
			cmd.Stderr = os.Stderr
			so, _ := cmd.StdoutPipe()
			if err := cmd.Start(); err != nil {
				fmu.Lock()
				failed = true
				fmu.Unlock()
				return
			}
			sc := bufio.NewScanner(so)
			sc.Buffer(make([]byte, 1<<20), 1<<26)
			for sc.Scan() {
				var m map[string]any
				if json.Unmarshal(sc.Bytes(), &m) == nil && m["summary"] == true {
					fmu.Lock()
					for _, k := range []string{"cases", "evals", "nontrivial"} {
						if v, ok := m[k].(float64); ok {
							tot[k] += int(v)
						}
					}
					fmu.Unlock()
					continue
				}
				outMu.Lock()
				os.Stdout.Write(append(append([]byte{}, sc.Bytes()...), '\n'))
				outMu.Unlock()
			}
			if err := cmd.Wait(); err != nil {
				fmu.Lock()
				failed = true
				fmu.Unlock()
			}
		}(j)
	}
	wg.Wait()
	// concatenate the parts (each part is a sequence of complete runs)
	out, err := os.Create(*outPath)
	if err != nil {
		emit(map[string]any{"infra": err.Error()})
		os.Exit(2)
	}
	for _, j := range jobs {
		if f, err := os.Open(j.out); err == nil {
			io.Copy(out, f)
			f.Close()
			os.Remove(j.out)
		}
	}
	out.Close()
	if failed {
		os.Exit(3) // a child died: run_cases re-runs serially with -progress to find the script
	}
	emit(map[string]any{"summary": true, "cases": tot["cases"], "evals": tot["evals"], "nontrivial": tot["nontrivial"], "corpora": 0})
}
