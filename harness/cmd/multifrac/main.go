// multifrac replays MultiFrac.tla cases: "store" cases build the fractions of the case in one real
// store and run the real Searcher with the case's fractions-per-iteration; "proxy" cases build one
// real store per shard (with its own fraction layout), put them behind the real proxy search
// ingestor and page through the merged result.
package main

import (
	"bufio"
	"encoding/json"
	"flag"
	"fmt"
	"os"
	"reflect"
	"sort"
	"strings"
	"sync"
	"sync/atomic"

	"verifharness/cases"
	"verifharness/env"
)

type ID struct{ Mid, Rid uint64 }

// -wide: random parts are spread over the whole uint64 range, order preserved (table for r <= 6), as the
// proxy's random IDs are: comparisons must be real three-way comparisons, differences wrap around
var wide = flag.Bool("wide", false, "")

func rid(r uint64) uint64 {
	if *wide && r >= 1 && r <= 6 {
		return [...]uint64{0, 0x1000000000000001, 0x5000000000000002, 0x9000000000000003, 0xE000000000000004, 0xF000000000000005, 0xFF00000000000006}[r]
	}
	return r
}

type Q struct {
	Limit     int    `json:"limit"`
	FPI       int    `json:"fpi"`
	Desc      bool   `json:"desc"`
	From      uint64 `json:"from"`
	To        uint64 `json:"to"`
	WithTotal bool   `json:"withTotal"`
	Offset    int    `json:"offset"`
	Size      int    `json:"size"`
}

type Case struct {
	N      int
	Family string   `json:"family"`
	Fracs  [][]ID   `json:"fracs"`
	Shards [][][]ID `json:"shards"`
	Q      Q        `json:"q"`
	Exp    struct {
		IDs        []ID   `json:"ids"`
		Total      uint64 `json:"total"`
		TotalExact bool   `json:"totalExact"`
	} `json:"exp"`
	raw string
}

var (
	workers  = flag.Int("workers", 8, "")
	progress = flag.Bool("progress", false, "")
	outMu    sync.Mutex
	evals    atomic.Int64
	nontriv  atomic.Int64
)

func emit(v any) {
	b, _ := json.Marshal(v)
	outMu.Lock()
	os.Stdout.Write(append(b, '\n'))
	outMu.Unlock()
}

func docs(ids []ID) []env.Doc {
	out := make([]env.Doc, len(ids))
	for i, x := range ids {
		out[i] = env.Doc{MID: x.Mid, RID: rid(x.Rid), Tok: map[string][]string{}}
	}
	return out
}

func pairs(ids []ID) [][2]uint64 {
	out := make([][2]uint64, 0, len(ids))
	for _, x := range ids {
		out = append(out, [2]uint64{x.Mid, rid(x.Rid)})
	}
	return out
}

func same(a, b [][2]uint64) bool {
	if len(a) == 0 && len(b) == 0 {
		return true
	}
	return reflect.DeepEqual(a, b)
}

func ord(desc bool) string {
	if desc {
		return "desc"
	}
	return "asc"
}

// fill writes every fraction of `fracs` into e; all but the last are sealed, the last one if sealLast.
// hist is the ingestion history of each fraction - MultiFrac.tla's fraction is a SET of documents, whatever the bulks
// that brought them and whatever was asked in between: 0 = one bulk; 1 / 2 / 3 = one document per bulk in rising /
// falling ID order / as listed, with a search of the growing fraction (both orders) after every bulk, which makes
// the active fraction merge its queued postings into the sorted lists before the next bulk arrives.
func fill(e *env.Env, fracs [][]ID, sealLast bool, hist int) error {
	all := &cases.AST{Op: "all"}
	for i, f := range fracs {
		if hist == 0 {
			if err := e.Bulk(docs(f)); err != nil {
				return err
			}
			e.WaitIdle()
		} else {
			g := append([]ID(nil), f...)
			if hist < 3 {
				sort.Slice(g, func(a, b int) bool {
					less := g[a].Mid < g[b].Mid || (g[a].Mid == g[b].Mid && rid(g[a].Rid) < rid(g[b].Rid))
					return less == (hist == 1)
				})
			}
			for k := range g {
				if err := e.Bulk(docs(g[k : k+1])); err != nil {
					return err
				}
				e.WaitIdle()
				for _, o := range []string{"desc", "asc"} {
					ast, _ := all.Build()
					sp := e.SearchParams(env.Params{From: 0, To: 1 << 40, Limit: 2, Order: o})
					sp.AST = ast
					if _, err := env.SearchFracs(e.FM().GetAllFracs(), 1, sp); err != nil {
						return err
					}
				}
			}
		}
		if i < len(fracs)-1 || sealLast {
			e.Seal()
		}
	}
	return nil
}

func runStoreGroup(gi int, g []*Case) {
	e, err := env.New(env.Opts{SkipFsync: true, FPI: 1})
	if err != nil {
		emit(map[string]any{"infra": err.Error()})
		return
	}
	defer e.Close()
	if err := fill(e, g[0].Fracs, gi%2 == 1, (gi/2)%4); err != nil {
		emit(map[string]any{"infra": "bulk: " + err.Error()})
		return
	}
	all := &cases.AST{Op: "all"}
	for _, c := range g {
		if *progress {
			emit(map[string]any{"begin": c.N})
		}
		ast, _ := all.Build()
		p := env.Params{From: c.Q.From, To: c.Q.To, Limit: c.Q.Limit, Order: ord(c.Q.Desc), WithTotal: c.Q.WithTotal}
		sp := e.SearchParams(p)
		sp.AST = ast
		r, err := env.SearchFracs(e.FM().GetAllFracs(), c.Q.FPI, sp)
		evals.Add(1)
		if len(c.Exp.IDs) > 0 && len(c.Fracs) > 1 {
			nontriv.Add(1)
		}
		if err != nil {
			emit(map[string]any{"n": c.N, "what": "error: " + err.Error(), "case": json.RawMessage(c.raw)})
		} else if !same(r.IDs, pairs(c.Exp.IDs)) {
			emit(map[string]any{"n": c.N, "what": "ids", "got": r.IDs, "exp": pairs(c.Exp.IDs), "lastSealed": gi%2 == 1, "ingest": (gi / 2) % 4, "case": json.RawMessage(c.raw)})
		} else if c.Q.WithTotal && r.Total != c.Exp.Total {
			emit(map[string]any{"n": c.N, "what": "total", "got": r.Total, "exp": c.Exp.Total, "case": json.RawMessage(c.raw)})
		}
		if *progress {
			emit(map[string]any{"end": c.N})
		}
	}
}

func runProxy(c *Case) {
	var shards [][]*env.Env
	var all []*env.Env
	defer func() {
		for _, e := range all {
			e.Close()
		}
	}()
	mk := func(fracs [][]ID, sealLast bool) *env.Env {
		e, err := env.New(env.Opts{SkipFsync: true, FPI: c.Q.FPI})
		if err != nil {
			emit(map[string]any{"infra": err.Error()})
			return nil
		}
		all = append(all, e)
		if err := fill(e, fracs, sealLast, (c.N/2)%4); err != nil {
			emit(map[string]any{"infra": "bulk: " + err.Error()})
			return nil
		}
		return e
	}
	for si, fr := range c.Shards {
		main := mk(fr, (c.N+si)%2 == 1)
		if main == nil {
			return
		}
		reps := []*env.Env{main}
		if c.N%3 == 0 {
			// a second replica holding the same documents in ONE fraction, asked first
			var flat []ID
			for _, f := range fr {
				flat = append(flat, f...)
			}
			var one [][]ID
			if len(flat) > 0 {
				one = [][]ID{flat}
			}
			r2 := mk(one, c.N%2 == 0)
			if r2 == nil {
				return
			}
			reps = []*env.Env{r2, main}
		}
		shards = append(shards, reps)
	}
	ing := env.NewProxy(shards)
	p := env.ProxyParams{Params: env.Params{From: c.Q.From, To: c.Q.To, Order: ord(c.Q.Desc), WithTotal: c.Q.WithTotal}, Offset: c.Q.Offset, Size: c.Q.Size}
	q, _, err := env.ProxySearch(ing, "*", p)
	evals.Add(1)
	if len(c.Exp.IDs) > 0 {
		nontriv.Add(1)
	}
	if err != nil {
		emit(map[string]any{"n": c.N, "what": "error: " + err.Error(), "case": json.RawMessage(c.raw)})
		return
	}
	var got [][2]uint64
	for _, id := range q.IDs {
		got = append(got, [2]uint64{uint64(id.ID.MID), uint64(id.ID.RID)})
	}
	if !same(got, pairs(c.Exp.IDs)) {
		emit(map[string]any{"n": c.N, "what": "page ids", "got": got, "exp": pairs(c.Exp.IDs), "case": json.RawMessage(c.raw)})
	} else if c.Q.WithTotal && c.Exp.TotalExact && q.Total != c.Exp.Total {
		emit(map[string]any{"n": c.N, "what": fmt.Sprintf("total got %d exp %d", q.Total, c.Exp.Total), "case": json.RawMessage(c.raw)})
	}
}

func main() {
	flag.Parse()
	sc := bufio.NewScanner(os.Stdin)
	sc.Buffer(make([]byte, 1<<20), 1<<26)
	var groups [][]*Case
	var proxy []*Case
	idx := map[string]int{}
	n := 0
	for sc.Scan() {
		line := sc.Text()
		if !strings.HasPrefix(line, "{") {
			continue
		}
		c := &Case{raw: line, N: n}
		if err := json.Unmarshal([]byte(line), c); err != nil {
			emit(map[string]any{"infra": "bad case: " + err.Error()})
			os.Exit(3)
		}
		n++
		if c.Family == "proxy" {
			proxy = append(proxy, c)
			continue
		}
		kb, _ := json.Marshal(c.Fracs)
		gi, ok := idx[string(kb)]
		if !ok {
			gi = len(groups)
			idx[string(kb)] = gi
			groups = append(groups, nil)
		}
		groups[gi] = append(groups[gi], c)
	}
	w := *workers
	if *progress {
		w = 1
	}
	type job struct {
		gi int
		g  []*Case
		c  *Case
	}
	ch := make(chan job)
	var wg sync.WaitGroup
	for i := 0; i < w; i++ {
		wg.Add(1)
		go func() {
			defer wg.Done()
			for j := range ch {
				if j.c != nil {
					if *progress {
						emit(map[string]any{"begin": j.c.N})
					}
					runProxy(j.c)
					if *progress {
						emit(map[string]any{"end": j.c.N})
					}
				} else {
					runStoreGroup(j.gi, j.g)
				}
			}
		}()
	}
	for gi, g := range groups {
		ch <- job{gi: gi, g: g}
	}
	for _, c := range proxy {
		ch <- job{c: c}
	}
	close(ch)
	wg.Wait()
	emit(map[string]any{"summary": true, "cases": n, "evals": evals.Load(), "nontrivial": nontriv.Load(), "corpora": len(groups) + len(proxy)})
}
