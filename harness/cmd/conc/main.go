// conc forces the interleavings TLC found for ActiveIndex.tla on a real store: indexer workers and the
// searching reader park at the verif hook points (ai.* / ar.*) and the replayer releases exactly one
// of them per model action.  At Return every returned ID must belong to a submitted bulk and carry
// the queried token, at FetchDone it must be fetchable with its exact bytes, and after the schedule
// (writers idle) a fresh search must return everything.
package main

import (
	"bufio"
	"bytes"
	"encoding/json"
	"flag"
	"fmt"
	"os"
	"strings"
	"sync"
	"sync/atomic"
	"time"

	"github.com/ozontech/seq-db/conf"
	"github.com/ozontech/seq-db/seq"
	"github.com/ozontech/seq-db/verifhook"

	"verifharness/cases"
	"verifharness/env"
)

type Step struct {
	A string `json:"a"`
	X int    `json:"x"`
}

type Case struct {
	N    int
	Hist []Step `json:"hist"`
	raw  string
}

type arrival struct{ actor, point string }

type sched struct {
	mu         sync.Mutex
	parked     map[string]chan struct{}
	arrived    chan arrival
	gateReader atomic.Bool
	bulkOf     map[int64]string
	on         atomic.Bool
}

var S = &sched{parked: map[string]chan struct{}{}, arrived: make(chan arrival, 64), bulkOf: map[int64]string{}}

func hook(point string, obj any, a, b int64) {
	if !S.on.Load() {
		return
	}
	var actor string
	switch {
	case point == "ai.done", point == "ar.acquire", point == "ar.release":
		// points of the hand-over trace (ProxyFracTrace.tla), not steps of ActiveIndex.tla
		return
	case strings.HasPrefix(point, "ai."):
		S.mu.Lock()
		actor = S.bulkOf[a]
		S.mu.Unlock()
	case strings.HasPrefix(point, "ar."):
		if S.gateReader.Load() {
			actor = "r"
		}
	}
	if actor == "" {
		return
	}
	ch := make(chan struct{})
	S.mu.Lock()
	S.parked[actor] = ch
	S.mu.Unlock()
	S.arrived <- arrival{actor, point}
	<-ch
}

func (s *sched) resume(actor string) bool {
	s.mu.Lock()
	ch := s.parked[actor]
	delete(s.parked, actor)
	s.mu.Unlock()
	if ch == nil {
		return false
	}
	close(ch)
	return true
}

func (s *sched) wait(actor string, d time.Duration) (string, bool) {
	t := time.After(d)
	for {
		select {
		case a := <-s.arrived:
			if a.actor == actor {
				return a.point, true
			}
			// another actor arrived unexpectedly: remember nothing, it stays parked
		case <-t:
			return "", false
		}
	}
}

var (
	emitMu  sync.Mutex
	evals   atomic.Int64
	nontriv atomic.Int64
)

func emit(v any) {
	b, _ := json.Marshal(v)
	emitMu.Lock()
	os.Stdout.Write(append(b, '\n'))
	emitMu.Unlock()
}

var mid = map[int]uint64{1: 1, 2: 2, 3: 5}
var hasTok = map[int]bool{1: true, 2: false, 3: true}
var bdocs = map[int][]int{1: {1, 2}, 2: {3}}

func doc(b, d int) env.Doc {
	t := map[string][]string{"g": {fmt.Sprintf("b%d", b)}}
	if hasTok[d] {
		t["k"] = []string{"t"}
	}
	return env.Doc{MID: mid[d], RID: uint64(100*b + d), Tok: t, Body: fmt.Sprintf(`{"bulk":%d,"doc":%d}`, b, d)}
}

type searchRes struct {
	ids [][2]uint64
	err error
}

func run(c *Case) {
	e, err := env.New(env.Opts{SkipFsync: true})
	if err != nil {
		emit(map[string]any{"infra": err.Error()})
		return
	}
	defer e.Close()
	defer func() { // whatever happened, nobody may stay parked (env.Close waits for the indexers)
		S.on.Store(false)
		S.gateReader.Store(false)
		for k := 0; k < 50; k++ {
			S.mu.Lock()
			var as []string
			for a := range S.parked {
				as = append(as, a)
			}
			S.mu.Unlock()
			for _, a := range as {
				S.resume(a)
			}
			for len(S.arrived) > 0 {
				<-S.arrived
			}
			if len(as) == 0 && k > 2 {
				break
			}
			time.Sleep(300 * time.Microsecond)
		}
	}()
	S.mu.Lock()
	S.parked = map[string]chan struct{}{}
	S.bulkOf = map[int64]string{101: "w1", 203: "w2"}
	S.mu.Unlock()
	for len(S.arrived) > 0 {
		<-S.arrived
	}
	S.on.Store(true)
	fail := func(i int, what string) {
		emit(map[string]any{"n": c.N, "step": i, "what": what, "case": json.RawMessage(c.raw)})
	}
	infra := func(i int, what string) {
		emit(map[string]any{"infra": fmt.Sprintf("case %d step %d: %s", c.N, i, what)})
	}
	// both bulks are written (acknowledged) up front; their indexing parks at ai.begin
	submitted := map[[2]uint64]env.Doc{}
	for b := 1; b <= 2; b++ {
		var ds []env.Doc
		for _, d := range bdocs[b] {
			x := doc(b, d)
			ds = append(ds, x)
			submitted[[2]uint64{x.MID, x.RID}] = x
		}
		if err := e.Bulk(ds); err != nil {
			infra(0, "bulk: "+err.Error())
			return
		}
		if p, ok := S.wait(fmt.Sprintf("w%d", b), 5*time.Second); !ok || p != "ai.begin" {
			infra(0, fmt.Sprintf("indexer of bulk %d did not park at ai.begin (%q)", b, p))
			return
		}
	}
	lit := &cases.AST{Op: "lit", F: "k", Terms: []cases.Str{{"t"}}}
	var resCh chan searchRes
	var last [][2]uint64
	readerParked := false
	wnext := map[string]string{"SetPos": "ai.pos", "AppendIDs": "ai.ids", "PutToks": "ai.tok", "Stats": "ai.stats"}
	rnext := map[string]string{"SnapAll": "ar.mapping", "SnapIDs": "ar.ids", "ReadTok": "ar.tok"}
	finishSearch := func(i int) bool {
		select {
		case r := <-resCh:
			S.gateReader.Store(false)
			readerParked = false
			if r.err != nil {
				fail(i, "search error: "+r.err.Error())
				return false
			}
			last = r.ids
			evals.Add(1)
			for _, id := range r.ids {
				d, ok := submitted[id]
				if !ok {
					fail(i, fmt.Sprintf("search returned id %v that belongs to no submitted bulk", id))
					return false
				}
				if len(d.Tok["k"]) == 0 {
					fail(i, fmt.Sprintf("search k:t returned id %v whose document does not carry the token", id))
					return false
				}
			}
			return true
		case <-time.After(5 * time.Second):
			infra(i, "search did not return")
			return false
		}
	}
	for i, s := range c.Hist {
		switch s.A {
		case "SetPos", "AppendIDs", "PutToks", "Stats":
			actor := fmt.Sprintf("w%d", s.X)
			if !S.resume(actor) {
				infra(i, actor+" is not parked")
				return
			}
			if p, ok := S.wait(actor, 20*time.Second); !ok {
				infra(i, fmt.Sprintf("%s did not arrive at %q", actor, wnext[s.A]))
				return
			} else if p != wnext[s.A] {
				fail(i, fmt.Sprintf("indexer of bulk %d performs its pieces in an order ActiveIndex.tla does not allow: reached %q where %q was expected", s.X, p, wnext[s.A]))
				return
			}
			if s.A == "Stats" {
				S.resume(actor) // nothing else to observe in this bulk
			}
		case "SnapInfo":
			resCh = make(chan searchRes, 1)
			S.gateReader.Store(true)
			go func(ch chan searchRes) {
				ast, _ := lit.Build()
				r, err := e.SearchAST(ast, env.Params{From: 0, To: 100, Limit: 100, Order: "desc", WithTotal: true})
				if err != nil {
					ch <- searchRes{nil, err}
					return
				}
				ch <- searchRes{r.IDs, nil}
			}(resCh)
			// either the reader parks at ar.info (fraction has documents) or the search ends at once
			select {
			case a := <-S.arrived:
				if a.actor != "r" || a.point != "ar.info" {
					infra(i, fmt.Sprintf("unexpected arrival %v after SnapInfo", a))
					return
				}
				readerParked = true
			case r := <-resCh:
				S.gateReader.Store(false)
				if r.err != nil {
					fail(i, "search error: "+r.err.Error())
					return
				}
				if len(r.ids) != 0 {
					fail(i, fmt.Sprintf("search on a fraction without published documents returned %v", r.ids))
					return
				}
				last = nil
			case <-time.After(5 * time.Second):
				infra(i, "reader neither parked nor returned")
				return
			}
		case "SnapAll", "SnapIDs", "ReadTok":
			if !readerParked {
				infra(i, "reader is not parked at "+s.A)
				return
			}
			S.resume("r")
			if p, ok := S.wait("r", 3*time.Second); !ok {
				// the reader may have failed instead (e.g. index out of range in the inverser, recovered into an error)
				select {
				case r := <-resCh:
					S.gateReader.Store(false)
					readerParked = false
					if r.err != nil {
						fail(i, "search error: "+r.err.Error())
						return
					}
				case <-time.After(120 * time.Second):
				}
				infra(i, fmt.Sprintf("reader did not arrive at %q", rnext[s.A]))
				return
			} else if p != rnext[s.A] {
				fail(i, fmt.Sprintf("reader takes its snapshots in an order ActiveIndex.tla does not allow: reached %q where %q was expected", p, rnext[s.A]))
				return
			}
		case "Return":
			S.resume("r")
			if !finishSearch(i) {
				return
			}
		case "FetchDone":
			for _, id := range last {
				docs, _, err := e.Fetch([]seq.ID{{MID: seq.MID(id[0]), RID: seq.RID(id[1])}}, nil)
				evals.Add(1)
				if err != nil {
					fail(i, "fetch error: "+err.Error())
					return
				}
				if !bytes.Equal(docs[0], submitted[id].BodyBytes()) {
					fail(i, fmt.Sprintf("id %v returned by the search cannot be fetched right away (got %q)", id, docs[0]))
					return
				}
			}
		}
	}
	// let everybody finish
	S.on.Store(false)
	S.gateReader.Store(false)
	idle := 0
	for k := 0; k < 20000 && idle < 3; k++ {
		S.mu.Lock()
		var as []string
		for a := range S.parked {
			as = append(as, a)
		}
		S.mu.Unlock()
		for _, a := range as {
			S.resume(a)
		}
		if len(as) == 0 {
			idle++
		} else {
			idle = 0
		}
		time.Sleep(50 * time.Microsecond)
	}
	if readerParked {
		select {
		case <-resCh:
		case <-time.After(3 * time.Second):
		}
	}
	e.WaitIdle()
	ast, _ := lit.Build()
	r, err := e.SearchAST(ast, env.Params{From: 0, To: 100, Limit: 100, Order: "desc", WithTotal: true})
	evals.Add(1)
	if err != nil {
		fail(len(c.Hist), "final search error: "+err.Error())
		return
	}
	if fmt.Sprint(r.IDs) != fmt.Sprint([][2]uint64{{5, 203}, {1, 101}}) || r.Total != 2 {
		fail(len(c.Hist), fmt.Sprintf("writers idle: search k:t returned %v total %d, expected [[5 203] [1 101]] total 2", r.IDs, r.Total))
		return
	}
	if len(c.Hist) > 4 {
		nontriv.Add(1)
	}
}

func main() {
	progress := flag.Bool("progress", false, "")
	flag.Int("workers", 1, "")
	flag.Parse()
	if !verifhook.Enabled {
		emit(map[string]any{"infra": "built without -tags verif"})
		os.Exit(3)
	}
	conf.IndexWorkers = 4
	verifhook.Set(hook)
	sc := bufio.NewScanner(os.Stdin)
	sc.Buffer(make([]byte, 1<<20), 1<<26)
	n := 0
	for sc.Scan() {
		line := sc.Text()
		if !strings.HasPrefix(line, "{") {
			continue
		}
		c := &Case{raw: line, N: n}
		if err := json.Unmarshal([]byte(line), c); err != nil {
			emit(map[string]any{"infra": "bad case: " + err.Error()})
			os.Exit(3)
		}
		n++
		if *progress {
			emit(map[string]any{"begin": c.N})
		}
		run(c)
		if *progress {
			emit(map[string]any{"end": c.N})
		}
	}
	emit(map[string]any{"summary": true, "cases": n, "evals": evals.Load(), "nontrivial": nontriv.Load(), "corpora": n})
}
