// lifecycle replays the crash states of Lifecycle.tla on the real loader: every file-set state the
// model reaches (with torn temp files, a missing/corrupt/stale .frac-cache, and an untouched
// neighbour fraction next to it) is materialised from the files a real store wrote, a real store
// is started over it, and what it serves is compared with what the specification requires.
package main

import (
	"bufio"
	"bytes"
	"encoding/json"
	"flag"
	"fmt"
	"io"
	"os"
	"path/filepath"
	"strings"

	"github.com/ozontech/seq-db/seq"

	"verifharness/cases"
	"verifharness/env"
)

type Case struct {
	Files     []string `json:"files"`
	Bad       []string `json:"bad"`
	Skip      bool     `json:"skip"`
	HasData   bool     `json:"hasData"`
	DelBegun  bool     `json:"delBegun"`
	PC        string   `json:"pc"`
	Decision  string   `json:"decision"`
	MustServe bool     `json:"mustServe"`
	After     []string `json:"after"`
}

var suffix = map[string]string{"docs": ".docs", "meta": ".meta", "sdocsTmp": "._sdocs", "sdocs": ".sdocs", "indexTmp": "._index",
	"index": ".index", "docsDel": ".docs.del", "sdocsDel": ".sdocs.del", "indexDel": ".index.del"}

// source of each kind's bytes: which snapshot and which real suffix
var source = map[string][2]string{"docs": {"active", ".docs"}, "meta": {"active", ".meta"}, "sdocsTmp": {"sealed", ".sdocs"},
	"sdocs": {"sealed", ".sdocs"}, "indexTmp": {"sealed", ".index"}, "index": {"sealed", ".index"},
	"docsDel": {"active", ".docs"}, "sdocsDel": {"sealed", ".sdocs"}, "indexDel": {"sealed", ".index"}}

var seed = flag.Int("seed", 1, "")

func emit(v any) {
	b, _ := json.Marshal(v)
	os.Stdout.Write(append(b, '\n'))
}

func copyFile(src, dst string, cut int64) error {
	in, err := os.Open(src)
	if err != nil {
		return err
	}
	defer in.Close()
	out, err := os.Create(dst)
	if err != nil {
		return err
	}
	defer out.Close()
	if cut >= 0 {
		_, err = io.CopyN(out, in, cut)
		if err == io.EOF {
			err = nil
		}
		return err
	}
	_, err = io.Copy(out, in)
	return err
}

func targetDocs() []env.Doc {
	var ds []env.Doc
	for i := 0; i < 3; i++ {
		ds = append(ds, env.Doc{MID: uint64(2000 + i), RID: uint64(50 + i), Tok: map[string][]string{"k": {fmt.Sprintf("t%d", i)}},
			Body: fmt.Sprintf(`{"target":%d,"pad":"%s"}`, i, strings.Repeat("q", 40+i*17))})
	}
	return ds
}

var neighbour = env.Doc{MID: 1500, RID: 7, Tok: map[string][]string{"k": {"nb"}}, Body: `{"neighbour":true}`}

// snaps holds, per (skip, hasData), the directory snapshots the states are composed from.
type snaps struct {
	active, sealed string // directories
	base           string // target fraction base name (seq-db-<ulid>)
	nbFiles        []string
}

func buildSnaps(root string, skip, hasData bool) (*snaps, error) {
	dir := filepath.Join(root, fmt.Sprintf("build-%v-%v", skip, hasData))
	os.MkdirAll(dir, 0o777)
	e, err := env.New(env.Opts{Dir: dir, SkipFsync: true, SkipSortDocs: skip})
	if err != nil {
		return nil, err
	}
	if err := e.Bulk([]env.Doc{neighbour}); err != nil {
		return nil, err
	}
	e.Seal() // neighbour fraction is sealed; a new active fraction is created
	s := &snaps{base: e.FM().Active().Info().Name()}
	if hasData {
		if err := e.Bulk(targetDocs()); err != nil {
			return nil, err
		}
		e.WaitIdle()
	}
	e.Halt()
	s.active = filepath.Join(root, fmt.Sprintf("snap-active-%v-%v", skip, hasData))
	if err := copyDir(dir, s.active); err != nil {
		return nil, err
	}
	ents, _ := os.ReadDir(dir)
	for _, en := range ents {
		if strings.HasPrefix(en.Name(), "seq-db-") && !strings.HasPrefix(en.Name(), s.base) {
			s.nbFiles = append(s.nbFiles, en.Name())
		}
	}
	if hasData {
		if err := e.Reopen(); err != nil {
			return nil, err
		}
		e.Seal()
		e.Halt()
		s.sealed = filepath.Join(root, fmt.Sprintf("snap-sealed-%v-%v", skip, hasData))
		if err := copyDir(dir, s.sealed); err != nil {
			return nil, err
		}
	}
	return s, nil
}

func copyDir(src, dst string) error {
	os.MkdirAll(dst, 0o777)
	ents, err := os.ReadDir(src)
	if err != nil {
		return err
	}
	for _, en := range ents {
		if en.IsDir() {
			continue
		}
		if err := copyFile(filepath.Join(src, en.Name()), filepath.Join(dst, en.Name()), -1); err != nil {
			return err
		}
	}
	return nil
}

func search1(e *env.Env, val string) ([][2]uint64, error) {
	var t cases.Str
	for _, ch := range val {
		t = append(t, string(ch))
	}
	a := &cases.AST{Op: "lit", F: "k", Terms: []cases.Str{t}}
	ast, _ := a.Build()
	r, err := e.SearchAST(ast, env.Params{From: 0, To: 1 << 40, Limit: 100, Order: "desc", WithTotal: true})
	if err != nil {
		return nil, err
	}
	return r.IDs, nil
}

// observe returns (number of target docs served correctly, problem)
func observe(e *env.Env) (int, string) {
	ids, err := search1(e, "nb")
	if err != nil || len(ids) != 1 {
		return 0, fmt.Sprintf("neighbour fraction not served (%v, %v)", ids, err)
	}
	nd, _, err := e.Fetch([]seq.ID{neighbour.ID()}, nil)
	if err != nil || !bytes.Equal(nd[0], neighbour.BodyBytes()) {
		return 0, fmt.Sprintf("neighbour document not fetchable (%v)", err)
	}
	served := 0
	for _, d := range targetDocs() {
		ids, err := search1(e, d.Tok["k"][0])
		if err != nil {
			return 0, "search error: " + err.Error()
		}
		docs, _, err := e.Fetch([]seq.ID{d.ID()}, nil)
		if err != nil {
			return 0, "fetch error: " + err.Error()
		}
		found := len(ids) == 1 && ids[0] == [2]uint64{d.MID, d.RID}
		if len(ids) > 0 && !found {
			return 0, fmt.Sprintf("search k:%s returned %v", d.Tok["k"][0], ids)
		}
		if found != (len(docs[0]) > 0) {
			return 0, fmt.Sprintf("document %d: findable=%v fetchable=%v", d.RID, found, len(docs[0]) > 0)
		}
		if found {
			if !bytes.Equal(docs[0], d.BodyBytes()) {
				return 0, fmt.Sprintf("document %d served with wrong bytes %q", d.RID, docs[0])
			}
			served++
		}
	}
	return served, ""
}

func main() {
	progress := flag.Bool("progress", false, "")
	flag.Int("workers", 1, "")
	flag.Parse()
	root, err := os.MkdirTemp("", "verif-lifecycle-")
	if err != nil {
		emit(map[string]any{"infra": err.Error()})
		os.Exit(3)
	}
	defer os.RemoveAll(root)
	cache := map[[2]bool]*snaps{}
	sc := bufio.NewScanner(os.Stdin)
	sc.Buffer(make([]byte, 1<<20), 1<<26)
	n, evals, nontriv := 0, 0, 0
	for sc.Scan() {
		line := sc.Text()
		if !strings.HasPrefix(line, "{") {
			continue
		}
		var c Case
		if err := json.Unmarshal([]byte(line), &c); err != nil {
			emit(map[string]any{"infra": "bad case " + err.Error()})
			os.Exit(3)
		}
		key := [2]bool{c.Skip, c.HasData}
		sn := cache[key]
		if sn == nil {
			if sn, err = buildSnaps(root, c.Skip, c.HasData); err != nil {
				emit(map[string]any{"infra": "snapshots: " + err.Error()})
				os.Exit(3)
			}
			cache[key] = sn
		}
		if *progress {
			emit(map[string]any{"begin": n})
		}
		func() {
			dir := filepath.Join(root, fmt.Sprintf("case-%d", n))
			os.MkdirAll(dir, 0o777)
			defer os.RemoveAll(dir)
			fail := func(what string) {
				emit(map[string]any{"n": n, "what": what, "case": json.RawMessage(line)})
			}
			// neighbour fraction + immature flag are always there
			for _, f := range sn.nbFiles {
				copyFile(filepath.Join(sn.active, f), filepath.Join(dir, f), -1)
			}
			copyFile(filepath.Join(sn.active, ".immature"), filepath.Join(dir, ".immature"), -1)
			bad := map[string]bool{}
			for _, b := range c.Bad {
				bad[b] = true
			}
			for _, k := range c.Files {
				src := source[k]
				from := sn.active
				if src[0] == "sealed" {
					from = sn.sealed
				}
				if from == "" {
					fail("infra: state needs sealed files of a fraction without data: " + k)
					return
				}
				cut := int64(-1)
				if bad[k] {
					sz := env.FileSize(filepath.Join(from, sn.base+src[1]))
					cuts := []int64{0, 1, 16, sz / 3, sz / 2, sz - 1}
					cut = cuts[(n+*seed)%len(cuts)]
					if cut < 0 {
						cut = 0
					}
				}
				if err := copyFile(filepath.Join(from, sn.base+src[1]), filepath.Join(dir, sn.base+suffix[k]), cut); err != nil {
					fail("infra: compose: " + err.Error())
					return
				}
			}
			// .frac-cache variant
			fcSrc := filepath.Join(sn.active, ".frac-cache")
			if sn.sealed != "" && (n+*seed)%2 == 0 {
				fcSrc = filepath.Join(sn.sealed, ".frac-cache")
			}
			switch (n + *seed) % 6 {
			case 4, 5:
				// well-formed, but the entries say nothing (all numbers zero / empty objects): a cache written by another
				// version or damaged in place; the loader must not believe an entry that cannot be true
				if raw, err := os.ReadFile(fcSrc); err == nil {
					var m map[string]map[string]any
					if json.Unmarshal(raw, &m) == nil {
						for name, ent := range m {
							if (n+*seed)%6 == 5 {
								m[name] = map[string]any{}
								continue
							}
							for k, v := range ent {
								if _, num := v.(float64); num {
									ent[k] = 0
								}
							}
						}
						out, _ := json.Marshal(m)
						os.WriteFile(filepath.Join(dir, ".frac-cache"), out, 0o660)
					}
				}
			case 0: // missing
			case 1:
				copyFile(fcSrc, filepath.Join(dir, ".frac-cache"), -1)
			case 2:
				os.WriteFile(filepath.Join(dir, ".frac-cache"), []byte(`{"seq-db-BROKEN": {"name": "x"`), 0o660)
			case 3:
				sz := env.FileSize(fcSrc)
				if sz > 0 {
					copyFile(fcSrc, filepath.Join(dir, ".frac-cache"), sz/2)
				}
			}
			e, err := env.New(env.Opts{Dir: dir, SkipFsync: true, SkipSortDocs: c.Skip})
			if err != nil {
				fail("store did not start: " + err.Error())
				return
			}
			defer e.Halt()
			// what the loader leaves on disk must be what the specification's Restart leaves
			{
				want := map[string]bool{}
				for _, k := range c.After {
					want[sn.base+suffix[k]] = true
				}
				got := map[string]bool{}
				ents, _ := os.ReadDir(dir)
				for _, en := range ents {
					if strings.HasPrefix(en.Name(), sn.base) {
						got[en.Name()] = true
					}
				}
				for f := range got {
					if !want[f] {
						fail(fmt.Sprintf("after start the file %s is still there; the specification's loader removes it (decision %s)", strings.TrimPrefix(f, sn.base), c.Decision))
						return
					}
				}
				for f := range want {
					if !got[f] {
						fail(fmt.Sprintf("after start the file %s is gone; the specification's loader keeps it (decision %s)", strings.TrimPrefix(f, sn.base), c.Decision))
						return
					}
				}
			}
			for round := 0; round < 2; round++ {
				evals++
				served, bad := observe(e)
				total := 0
				if c.HasData {
					total = len(targetDocs())
				}
				switch {
				case bad != "":
					fail(fmt.Sprintf("round %d: %s", round, bad))
					return
				case served != 0 && served != total:
					fail(fmt.Sprintf("round %d: fraction partially served: %d of %d documents", round, served, total))
					return
				case c.MustServe && served != total:
					fail(fmt.Sprintf("round %d: acknowledged documents lost: %d of %d served (loader decision required: %s)", round, served, total, c.Decision))
					return
				case c.DelBegun && served != 0:
					fail(fmt.Sprintf("round %d: fraction whose deletion had begun on disk is served again (%d documents)", round, served))
					return
				}
				if round == 0 {
					// the store must be usable: ingest and find a new document, then restart once more
					nd := env.Doc{MID: 3000, RID: uint64(900 + n%50), Tok: map[string][]string{"k": {"fresh"}}, Body: `{"fresh":1}`}
					if err := e.Bulk([]env.Doc{nd}); err != nil {
						fail("ingest after start failed: " + err.Error())
						return
					}
					e.WaitIdle()
					if ids, err := search1(e, "fresh"); err != nil || len(ids) != 1 {
						fail(fmt.Sprintf("document ingested after start not found (%v %v)", ids, err))
						return
					}
					e.Halt()
					if err := e.Reopen(); err != nil {
						fail("second start failed: " + err.Error())
						return
					}
				}
			}
			// the interrupted seal must be repeatable: seal whatever is active now (leftover temp files of the
			// crashed seal are in the way) and look again
			{
				evals++
				e.Seal()
				served, bad := observe(e)
				total := 0
				if c.HasData {
					total = len(targetDocs())
				}
				switch {
				case bad != "":
					fail("after sealing again: " + bad)
					return
				case served != 0 && served != total:
					fail(fmt.Sprintf("after sealing again: fraction partially served: %d of %d documents", served, total))
					return
				case c.MustServe && served != total:
					fail(fmt.Sprintf("after sealing again: acknowledged documents lost: %d of %d served", served, total))
					return
				case c.DelBegun && served != 0:
					fail(fmt.Sprintf("after sealing again: fraction whose deletion had begun on disk is served again (%d documents)", served))
					return
				}
			}
			if c.HasData {
				nontriv++
			}
		}()
		if *progress {
			emit(map[string]any{"end": n})
		}
		n++
	}
	emit(map[string]any{"summary": true, "cases": n, "evals": evals, "nontrivial": nontriv, "corpora": len(cache)})
}
