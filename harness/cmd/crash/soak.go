package main

// Long behaviours of WritePath.tla in the same action alphabet (Bulk ... Bulk, Restart, Bulk ..., Restart), far beyond
// the bulk counts TLC enumerates: hundreds of acknowledged bulks whose sizes follow a profile (one very large bulk, a
// long run of very small ones, again), on a store with one or two index workers. What must hold is the specification's
// AckedDurable / NoForeignBytes: at every check point every document of every acknowledged bulk is served, with its
// own bytes, by its identifier and by its token. The write path keeps per-worker buffers between bulks and re-sizes them
// from statistics over the last 200 bulks; state that outlives a bulk shows only in such histories.

import (
	"bytes"
	"fmt"
	"os"
	"strings"

	"github.com/ozontech/seq-db/conf"
	"github.com/ozontech/seq-db/seq"

	"verifharness/env"
)

func soakDoc(b, i int) env.Doc {
	pad := int(h(*seed, b, i, 7) % 120)
	return env.Doc{MID: uint64(100000 + b), RID: uint64(i + 1),
		Tok:  map[string][]string{"k": {fmt.Sprintf("b%dd%d", b, i)}, "g": {fmt.Sprintf("bulk%d", b)}},
		Body: fmt.Sprintf(`{"bulk":%d,"doc":%d,"pad":"%s"}`, b, i, strings.Repeat("p", pad))}
}

// soakVerify: every document of every acknowledged bulk, by identifier (bytes) and, for the bulks listed in probe, by token
func soakVerify(e *env.Env, sizes []int, upto int, probe []int) string {
	for b := 0; b < upto; b++ {
		var ids []seq.ID
		var ds []env.Doc
		for i := 0; i < sizes[b]; i++ {
			d := soakDoc(b, i)
			ds = append(ds, d)
			ids = append(ids, d.ID())
		}
		docs, _, err := e.Fetch(ids, nil)
		if err != nil {
			return fmt.Sprintf("acked bulk %d: fetch error: %v", b, err)
		}
		for i, d := range ds {
			if len(docs[i]) == 0 {
				return fmt.Sprintf("acked bulk %d of %d documents: document %d-%d lost", b, sizes[b], d.MID, d.RID)
			}
			if !bytes.Equal(docs[i], d.BodyBytes()) {
				return fmt.Sprintf("acked bulk %d of %d documents: document %d-%d is served with other bytes: %.80q (want %.80q)", b, sizes[b], d.MID, d.RID, docs[i], d.BodyBytes())
			}
		}
	}
	for _, b := range probe {
		if b >= upto || b < 0 {
			continue
		}
		got, err := search1(e, "g", fmt.Sprintf("bulk%d", b))
		if err != nil || len(got) != min(sizes[b], 1000) {
			return fmt.Sprintf("acked bulk %d: search by its shared token returned %d of %d documents (%v)", b, len(got), sizes[b], err)
		}
		d := soakDoc(b, sizes[b]-1)
		got, err = search1(e, "k", d.Tok["k"][0])
		if err != nil || len(got) != 1 || got[0] != [2]uint64{d.MID, d.RID} {
			return fmt.Sprintf("acked bulk %d: search k:%s returned %v (%v)", b, d.Tok["k"][0], got, err)
		}
	}
	return ""
}

func soak(profiles int) {
	n := 0
	for p := 0; p < profiles; p++ {
		// profile: phases of (size, count)
		big := []int{600, 300, 900}[int(h(*seed, p, 1))%3]
		small := []int{1, 1, 2}[int(h(*seed, p, 2))%3]
		run := 205 + int(h(*seed, p, 3)%40)
		phases := [][2]int{{big, 1}, {small, run}, {big / 2, 1}, {small, run}, {3, 5}}
		if p%3 == 2 { // starts small: the statistics are filled before the first large bulk
			phases = [][2]int{{small, run}, {big, 1}, {small, run}, {big, 2}, {small, run}}
		}
		conf.IndexWorkers = 1 + p%2
		var sizes []int
		var marks []int // check points (number of bulks done)
		for _, ph := range phases {
			for i := 0; i < ph[1]; i++ {
				sizes = append(sizes, ph[0])
			}
			marks = append(marks, len(sizes))
		}
		tag := fmt.Sprintf("soak profile %d (index workers %d, phases %v)", p, conf.IndexWorkers, phases)
		fail := func(what string) { emit(map[string]any{"n": -(p + 1), "op": "soak", "what": tag + ": " + what}) }
		dir, err := os.MkdirTemp("", "verif-soak-")
		if err != nil {
			emit(map[string]any{"infra": err.Error()})
			return
		}
		e, err := env.New(env.Opts{Dir: dir, SkipFsync: true})
		if err != nil {
			emit(map[string]any{"infra": err.Error()})
			os.RemoveAll(dir)
			return
		}
		func() {
			up := true
			defer func() {
				if up {
					e.Halt()
				}
				os.RemoveAll(dir)
			}()
			mi := 0
			var probe []int
			for b, sz := range sizes {
				var ds []env.Doc
				for i := 0; i < sz; i++ {
					ds = append(ds, soakDoc(b, i))
				}
				if err := e.Bulk(ds); err != nil {
					fail(fmt.Sprintf("bulk %d: error %v", b, err))
					return
				}
				n++
				if b+1 != marks[mi] {
					continue
				}
				e.WaitIdle()
				probe = append(probe, b, b-1, b-7, max(b-199, 0), max(b-201, 0))
				evals.Add(1)
				if w := soakVerify(e, sizes, b+1, probe); w != "" {
					fail(fmt.Sprintf("after %d bulks: %s", b+1, w))
					return
				}
				if mi%2 == 1 || mi == len(marks)-1 { // restart (replay of everything written so far)
					e.Halt()
					up = false
					if err := e.Reopen(); err != nil {
						fail(fmt.Sprintf("after %d bulks: the store did not come up: %v", b+1, err))
						return
					}
					up = true
					evals.Add(1)
					if w := soakVerify(e, sizes, b+1, probe); w != "" {
						fail(fmt.Sprintf("after %d bulks and a restart: %s", b+1, w))
						return
					}
				}
				mi++
			}
			e.Seal()
			evals.Add(1)
			if w := soakVerify(e, sizes, len(sizes), probe); w != "" {
				fail("after sealing: " + w)
			}
		}()
		nontriv.Add(1)
	}
	emit(map[string]any{"summary": true, "cases": profiles, "evals": evals.Load(), "nontrivial": nontriv.Load(), "corpora": profiles, "bulks": n})
}
