// crash replays WritePath.tla behaviours on a real store: complete bulks, crashes in the middle of a
// bulk (the crash image is built by letting the real write path run and cutting the two files back
// to the byte lengths of the chosen torn class), restarts.  After every restart all acknowledged
// bulks must be found by every token and fetched byte-exact, unacknowledged bulks must be wholly
// present or wholly absent, and the store must come up at all.
package main

import (
	"bufio"
	"bytes"
	"encoding/json"
	"flag"
	"fmt"
	"hash/fnv"
	"os"
	"strings"
	"sync"
	"sync/atomic"

	"github.com/ozontech/seq-db/seq"

	"verifharness/cases"
	"verifharness/env"
)

type Step struct {
	Op   string          `json:"op"`
	RawA json.RawMessage `json:"a"`
	B    int             `json:"b"`
	C    int             `json:"c"`
	A    int             `json:"-"` // bulk number (op bulk) or the bulk in flight (op crash)
	Done []int           `json:"-"` // op crash: bulks completely written but not yet acknowledged
}

func (s *Step) decode() {
	if err := json.Unmarshal(s.RawA, &s.A); err == nil {
		return
	}
	var o struct {
		W    int   `json:"w"`
		Done []int `json:"done"`
	}
	_ = json.Unmarshal(s.RawA, &o)
	s.A, s.Done = o.W, o.Done
}

type Case struct {
	N    int
	Hist []Step `json:"hist"`
	raw  string
}

var (
	workers  = flag.Int("workers", 8, "")
	progress = flag.Bool("progress", false, "")
	seed     = flag.Int("seed", 1, "")
	soakN    = flag.Int("soak", 0, "run this many long size-profile histories instead of reading cases")
	outMu    sync.Mutex
	evals    atomic.Int64
	nontriv  atomic.Int64
	aborted  atomic.Int64
)

func emit(v any) {
	b, _ := json.Marshal(v)
	outMu.Lock()
	os.Stdout.Write(append(b, '\n'))
	outMu.Unlock()
}

func h(parts ...int) uint32 {
	f := fnv.New32a()
	for _, p := range parts {
		fmt.Fprintf(f, "%d,", p)
	}
	return f.Sum32()
}

// bulkDocs: the documents of model bulk b in case n (sizes and counts vary with the seed)
func bulkDocs(n, b int) []env.Doc {
	cnt := 1 + int(h(*seed, n, b, 1)%3)
	var ds []env.Doc
	for i := 0; i < cnt; i++ {
		pad := int(h(*seed, n, b, i, 2) % 200)
		ds = append(ds, env.Doc{MID: uint64(1000 + b*10 + i), RID: uint64(b*100 + i),
			Tok:  map[string][]string{"k": {fmt.Sprintf("b%dd%d", b, i)}, "g": {fmt.Sprintf("bulk%d", b)}},
			Body: fmt.Sprintf(`{"bulk":%d,"doc":%d,"pad":"%s"}`, b, i, strings.Repeat("p", pad))})
	}
	return ds
}

// keep translates a unit class (0 = nothing, 1 = torn, 2 = whole block) into a byte length
func keep(units int, blockLen int64, salt ...int) int64 {
	switch units {
	case 0:
		return 0
	case 2:
		return blockLen
	}
	cands := []int64{1, 32, 33, 34, blockLen / 2, blockLen - 1}
	k := cands[int(h(append(salt, *seed)...))%len(cands)]
	if k >= blockLen {
		k = blockLen - 1
	}
	if k < 1 {
		k = 1
	}
	return k
}

func search1(e *env.Env, field, val string) ([][2]uint64, error) {
	var terms []cases.Str
	var t cases.Str
	for _, ch := range val {
		t = append(t, string(ch))
	}
	terms = append(terms, t)
	a := &cases.AST{Op: "lit", F: field, Terms: terms}
	ast, _ := a.Build()
	r, err := e.SearchAST(ast, env.Params{From: 0, To: 1 << 40, Limit: 1000, Order: "desc", WithTotal: true})
	if err != nil {
		return nil, err
	}
	return r.IDs, nil
}

// verify checks the store against what must be served. acked: bulks that must be fully served;
// maybe: bulks that may be wholly present or wholly absent.
func verify(e *env.Env, n int, acked, maybe []int) string {
	checkDoc := func(d env.Doc) (present bool, bad string) {
		ids, err := search1(e, "k", d.Tok["k"][0])
		if err != nil {
			return false, "search error: " + err.Error()
		}
		docs, _, err := e.Fetch([]seq.ID{d.ID()}, nil)
		if err != nil {
			return false, "fetch error: " + err.Error()
		}
		found := len(ids) == 1 && ids[0] == [2]uint64{d.MID, d.RID}
		if len(ids) > 1 || (len(ids) == 1 && !found) {
			return false, fmt.Sprintf("search k:%s returned %v", d.Tok["k"][0], ids)
		}
		if found {
			if !bytes.Equal(docs[0], d.BodyBytes()) {
				return true, fmt.Sprintf("document %d-%d is served with other bytes: %q (want %q)", d.MID, d.RID, docs[0], d.BodyBytes())
			}
			return true, ""
		}
		if len(docs[0]) != 0 && !bytes.Equal(docs[0], d.BodyBytes()) {
			return false, fmt.Sprintf("document %d-%d not findable but fetch returns foreign bytes %q", d.MID, d.RID, docs[0])
		}
		if len(docs[0]) != 0 {
			return false, fmt.Sprintf("document %d-%d fetchable but not findable by its token", d.MID, d.RID)
		}
		return false, ""
	}
	for _, b := range acked {
		ds := bulkDocs(n, b)
		for _, d := range ds {
			p, bad := checkDoc(d)
			if bad != "" {
				return fmt.Sprintf("acked bulk %d: %s", b, bad)
			}
			if !p {
				return fmt.Sprintf("acked bulk %d: document %d-%d lost", b, d.MID, d.RID)
			}
		}
		ids, err := search1(e, "g", fmt.Sprintf("bulk%d", b))
		if err != nil || len(ids) != len(ds) {
			return fmt.Sprintf("acked bulk %d: search by shared token returned %d of %d docs (%v)", b, len(ids), len(ds), err)
		}
	}
	for _, b := range maybe {
		ds := bulkDocs(n, b)
		cnt := 0
		for _, d := range ds {
			p, bad := checkDoc(d)
			if bad != "" {
				return fmt.Sprintf("unacked bulk %d: %s", b, bad)
			}
			if p {
				cnt++
			}
		}
		if cnt != 0 && cnt != len(ds) {
			return fmt.Sprintf("unacked bulk %d partially present: %d of %d docs", b, cnt, len(ds))
		}
	}
	return ""
}

func run(c *Case) {
	dir, err := os.MkdirTemp("", "verif-crash-")
	if err != nil {
		emit(map[string]any{"infra": err.Error()})
		return
	}
	defer os.RemoveAll(dir)
	e, err := env.New(env.Opts{Dir: dir, SkipFsync: true})
	if err != nil {
		emit(map[string]any{"infra": err.Error()})
		return
	}
	up := true
	defer func() {
		if up {
			e.Halt()
		}
	}()
	var acked, maybe []int
	fail := func(i int, what string) {
		emit(map[string]any{"n": c.N, "step": i, "op": c.Hist[i].Op, "what": what, "case": json.RawMessage(c.raw)})
	}
	crashes := 0
	for i := range c.Hist {
		c.Hist[i].decode()
	}
	for i, s := range c.Hist {
		switch s.Op {
		case "bulk":
			if err := e.Bulk(bulkDocs(c.N, s.A)); err != nil {
				fail(i, "bulk error: "+err.Error())
				return
			}
			e.WaitIdle()
			acked = append(acked, s.A)
		case "crash":
			crashes++
			for _, b := range s.Done { // written completely, never acknowledged
				if err := e.Bulk(bulkDocs(c.N, b)); err != nil {
					fail(i, "bulk error: "+err.Error())
					return
				}
				e.WaitIdle()
				maybe = append(maybe, b)
			}
			base := e.ActiveBase()
			d0, m0 := env.FileSize(base+".docs"), env.FileSize(base+".meta")
			if s.A != 0 {
				if err := e.Bulk(bulkDocs(c.N, s.A)); err != nil {
					fail(i, "bulk error: "+err.Error())
					return
				}
				e.WaitIdle()
				maybe = append(maybe, s.A)
			}
			e.Halt()
			up = false
			if s.A != 0 {
				d1, m1 := env.FileSize(base+".docs"), env.FileSize(base+".meta")
				kd := keep(s.B, d1-d0, c.N, i, 1)
				km := keep(s.C, m1-m0, c.N, i, 2)
				if err := os.Truncate(base+".docs", d0+kd); err != nil {
					emit(map[string]any{"infra": "truncate: " + err.Error()})
					return
				}
				if err := os.Truncate(base+".meta", m0+km); err != nil {
					emit(map[string]any{"infra": "truncate: " + err.Error()})
					return
				}
			}
		case "restart":
			if up {
				e.Halt()
			}
			// WritePath.tla AbortedStart: a start that is cancelled while it replays (the operator's stop signal reaches the
			// context of FracManager.Load) leaves the files as they are; the start after it serves everything. Every
			// second restart of a history is preceded by one, cancelled after 0, 1 or 2 replayed meta blocks.
			if h(*seed, c.N, i, 9)%2 == 0 {
				e.StartCtx = env.PollCtx(int(h(*seed, c.N, i, 10) % 3))
				if err := e.Reopen(); err == nil {
					e.Halt() // fewer blocks than the cancellation point: the start went through
				}
				aborted.Add(1)
			}
			if err := e.Reopen(); err != nil {
				fail(i, "store did not come up: "+err.Error())
				return
			}
			up = true
			evals.Add(1)
			if w := verify(e, c.N, acked, maybe); w != "" {
				fail(i, w)
				return
			}
		}
	}
	if crashes > 0 {
		nontriv.Add(1)
	}
}

func main() {
	flag.Parse()
	if *soakN > 0 {
		soak(*soakN)
		return
	}
	sc := bufio.NewScanner(os.Stdin)
	sc.Buffer(make([]byte, 1<<20), 1<<26)
	w := *workers
	if *progress {
		w = 1
	}
	ch := make(chan *Case)
	var wg sync.WaitGroup
	for i := 0; i < w; i++ {
		wg.Add(1)
		go func() {
			defer wg.Done()
			for c := range ch {
				if *progress {
					emit(map[string]any{"begin": c.N})
				}
				run(c)
				if *progress {
					emit(map[string]any{"end": c.N})
				}
			}
		}()
	}
	n := 0
	for sc.Scan() {
		line := sc.Text()
		if !strings.HasPrefix(line, "{") {
			continue
		}
		c := &Case{raw: line, N: n}
		if err := json.Unmarshal([]byte(line), c); err != nil {
			emit(map[string]any{"infra": "bad case: " + err.Error()})
			os.Exit(3)
		}
		n++
		ch <- c
	}
	close(ch)
	wg.Wait()
	emit(map[string]any{"summary": true, "cases": n, "evals": evals.Load(), "nontrivial": nontriv.Load(), "corpora": n, "aborted_starts": aborted.Load()})
}
