// handover forces the seal hand-over of ProxyFrac.tla on a real store: the sealing goroutine is
// parked at every lock-free verif hook point on its way (pf.idle, temp-file creation, sync, rename,
// dir sync, removal of the originals, pf.released) and between any two of them an atomic reader
// (search + fetch of every acknowledged document) and an atomic appender (a new bulk, which must be
// accepted by the new active fraction and be visible at once) are run: the reader-atomic
// interleavings of the model.  Variant "slow": a reader that already holds the active fraction's data
// provider is parked inside its search while the sealer runs, and a second reader arrives while the
// sealer waits for it (the window in which a wrongly ordered Release would show an empty fraction).
package main

import (
	"bytes"
	"encoding/json"
	"flag"
	"fmt"
	"os"
	"strings"
	"sync"
	"sync/atomic"
	"time"

	"github.com/ozontech/seq-db/seq"
	"github.com/ozontech/seq-db/verifhook"

	"verifharness/cases"
	"verifharness/env"
)

type arrival struct{ actor, point string }

var (
	mu       sync.Mutex
	parked   = map[string]chan struct{}{}
	arrived  = make(chan arrival, 64)
	on       atomic.Bool
	sealerID atomic.Int64 // goroutine-agnostic: the sealer announces itself through a flag
	gateR    atomic.Bool
	gateIdle atomic.Bool // park the next sealer at pf.idle (fraction read-only, writers idle, nothing written yet)
	gateA    atomic.Bool // park the next appender between choosing its writer and appending to it (fm.append)
	evals    int
	problems []map[string]any
)

var sealerGates = map[string]bool{"pf.idle": true, "file.create": true, "file.sync": true, "file.rename": true, "dir.sync": true,
	"file.remove": true, "pf.released": true}

func hook(point string, obj any, a, b int64) {
	if !on.Load() {
		return
	}
	actor := ""
	if sealerGates[point] && sealerID.Load() == 1 {
		actor = "sealer"
	} else if point == "ar.tok" && gateR.Load() {
		actor = "slow"
	} else if point == "fm.append" && gateA.CompareAndSwap(true, false) {
		actor = "appender"
	} else if point == "pf.idle" && gateIdle.CompareAndSwap(true, false) {
		actor = "sealer"
	}
	if actor == "" {
		return
	}
	ch := make(chan struct{})
	mu.Lock()
	parked[actor] = ch
	mu.Unlock()
	desc := point
	if s, ok := obj.(string); ok && strings.HasPrefix(point, "file.") {
		base := s[strings.LastIndex(s, "/")+1:]
		if i := strings.Index(base, "."); i >= 0 {
			desc = point + base[i:]
		}
	}
	arrived <- arrival{actor, desc}
	<-ch
}

func resume(actor string) bool {
	mu.Lock()
	ch := parked[actor]
	delete(parked, actor)
	mu.Unlock()
	if ch == nil {
		return false
	}
	close(ch)
	return true
}

func waitFor(actor string, d time.Duration) (string, bool) {
	t := time.After(d)
	for {
		select {
		case a := <-arrived:
			if a.actor == actor {
				return a.point, true
			}
		case <-t:
			return "", false
		}
	}
}

func doc(n int) env.Doc {
	return env.Doc{MID: uint64(1000 + n), RID: uint64(n), Tok: map[string][]string{"k": {"t"}, "u": {fmt.Sprintf("u%d", n)}},
		Body: fmt.Sprintf(`{"n":%d,"pad":"%s"}`, n, strings.Repeat("h", 20+n%30))}
}

func report(where, what string) {
	fmt.Fprintln(os.Stderr, "PROBLEM", where, what)
	problems = append(problems, map[string]any{"n": len(problems), "what": what, "where": where})
}

// probe: every acknowledged document must be found and fetched right now
func probe(e *env.Env, acked []env.Doc, where string) bool {
	evals++
	lit := &cases.AST{Op: "lit", F: "k", Terms: []cases.Str{{"t"}}}
	ast, _ := lit.Build()
	done := make(chan struct{})
	var ids [][2]uint64
	var total uint64
	var err error
	go func() {
		defer close(done)
		r, e2 := e.SearchAST(ast, env.Params{From: 0, To: 1 << 40, Limit: 10000, Order: "desc", WithTotal: true})
		if e2 != nil {
			err = e2
			return
		}
		ids, total = r.IDs, r.Total
	}()
	select {
	case <-done:
	case <-time.After(120 * time.Second):
		report(where, "search did not return within 20s while the sealer was parked outside any lock")
		return false
	}
	if err != nil {
		report(where, "search error: "+err.Error())
		return false
	}
	if len(ids) != len(acked) || int(total) != len(acked) {
		report(where, fmt.Sprintf("search returned %d ids (total %d), %d documents are acknowledged", len(ids), total, len(acked)))
		return false
	}
	var sids []seq.ID
	for _, d := range acked {
		sids = append(sids, d.ID())
	}
	docs, _, ferr := e.Fetch(sids, nil)
	if ferr != nil {
		report(where, "fetch error: "+ferr.Error())
		return false
	}
	for i, d := range acked {
		if !bytes.Equal(docs[i], d.BodyBytes()) {
			report(where, fmt.Sprintf("acknowledged document %d cannot be fetched (got %q)", d.RID, docs[i]))
			return false
		}
	}
	return true
}

func drainAll() {
	on.Store(false)
	gateR.Store(false)
	sealerID.Store(0)
	idle := 0
	for k := 0; k < 20000 && idle < 3; k++ {
		mu.Lock()
		var as []string
		for a := range parked {
			as = append(as, a)
		}
		mu.Unlock()
		for _, a := range as {
			resume(a)
		}
		if len(as) == 0 {
			idle++
		} else {
			idle = 0
		}
		for len(arrived) > 0 {
			<-arrived
		}
		time.Sleep(100 * time.Microsecond)
	}
}

// gated: park the sealer at every gate; probe and append in between
func gated(skip bool, rounds int, appendAtGates bool) int {
	e, err := env.New(env.Opts{SkipFsync: true, SkipSortDocs: skip})
	if err != nil {
		report("setup", "infra: "+err.Error())
		return 0
	}
	defer e.Close()
	defer drainAll()
	n := 0
	var acked []env.Doc
	gates := 0
	for r := 0; r < rounds; r++ {
		var bulk []env.Doc
		for i := 0; i < 5; i++ {
			n++
			bulk = append(bulk, doc(n))
		}
		if err := e.Bulk(bulk); err != nil {
			report("setup", "bulk error: "+err.Error())
			return gates
		}
		acked = append(acked, bulk...)
		e.WaitIdle()
		on.Store(true)
		sealDone := make(chan struct{})
		go func() {
			sealerID.Store(1)
			e.Store.SealAll() // rotate + seal, the maintenance path
			sealerID.Store(0)
			close(sealDone)
		}()
	loop:
		for {
			select {
			case a := <-arrived:
				if a.actor != "sealer" {
					continue
				}
				gates++
				where := fmt.Sprintf("skip=%v round %d gate %q", skip, r, a.point)
				if !probe(e, acked, where) {
					drainAll() // nobody stays parked: the seal runs to its end
					select {
					case <-sealDone:
					case <-time.After(30 * time.Second):
					}
					return gates
				}
				if appendAtGates && gates%2 == 0 {
					n++
					d := doc(n)
					done := make(chan error, 1)
					go func() {
						err := e.Bulk([]env.Doc{d})
						e.WaitIdle() // visible "once writers are idle": wait for the indexing of this bulk
						done <- err
					}()
					select {
					case err := <-done:
						if err != nil {
							report(where, "bulk during the hand-over failed: "+err.Error())
						} else {
							acked = append(acked, d)
						}
					case <-time.After(120 * time.Second):
						report(where, "bulk during the hand-over did not return within 20s")
						drainAll()
						return gates
					}
				}
				resume("sealer")
			case <-sealDone:
				break loop
			case <-time.After(30 * time.Second):
				report(fmt.Sprintf("skip=%v round %d", skip, r), "infra: sealer neither finished nor reached a gate")
				return gates
			}
		}
		on.Store(false)
		e.WaitIdle()
		if !probe(e, acked, fmt.Sprintf("skip=%v round %d after seal", skip, r)) {
			return gates
		}
	}
	return gates
}

// slow: a reader parked inside its search holds the active fraction while the sealer runs
func slow(skip bool) {
	e, err := env.New(env.Opts{SkipFsync: true, SkipSortDocs: skip})
	if err != nil {
		report("setup", "infra: "+err.Error())
		return
	}
	defer e.Close()
	defer drainAll()
	var acked []env.Doc
	for i := 1; i <= 8; i++ {
		acked = append(acked, doc(i))
	}
	if err := e.Bulk(acked); err != nil {
		report("setup", "bulk error: "+err.Error())
		return
	}
	e.WaitIdle()
	on.Store(true)
	gateR.Store(true)
	slowDone := make(chan bool, 1)
	go func() { slowDone <- probe(e, acked, fmt.Sprintf("skip=%v slow reader", skip)) }()
	if p, ok := waitFor("slow", 10*time.Second); !ok || p != "ar.tok" {
		report("slow", "infra: slow reader did not park inside its search")
		return
	}
	gateR.Store(false)
	sealDone := make(chan struct{})
	go func() { e.Store.SealAll(); close(sealDone) }() // not gated: runs until it needs the reader to leave
	// give the sealer time to publish the sealed fraction and to block in Release (or, if the order is
	// wrong, to block in Release BEFORE publishing)
	select {
	case <-sealDone:
	case <-time.After(300 * time.Millisecond):
	}
	second := make(chan bool, 1)
	go func() { second <- probe(e, acked, fmt.Sprintf("skip=%v reader arriving during the hand-over behind a slow reader", skip)) }()
	time.Sleep(50 * time.Millisecond)
	resume("slow")
	for _, ch := range []chan bool{slowDone, second} {
		select {
		case <-ch:
		case <-time.After(40 * time.Second):
			report("slow", "a reader never returned during the hand-over (deadlock?)")
			drainAll()
		}
	}
	select {
	case <-sealDone:
	case <-time.After(40 * time.Second):
		report("slow", "the seal never finished behind a reader that has left (deadlock?)")
	}
	probe(e, acked, fmt.Sprintf("skip=%v after the hand-over", skip))
}

// overtaken: FracAppend.tla. An appender has chosen its writer (fm.Writer()) when a maintenance pass rotates the
// fraction away and the seal makes it read-only (or even publishes the sealed copy). The appender's attempt on the
// stale writer fails and the loop must go round and pick the writer AGAIN: the bulk returns, its documents are
// visible (EveryBulkReturns). Forced through the hook fm.append.
func overtaken(skip bool, full bool) {
	where := fmt.Sprintf("skip=%v appender overtaken by rotate+seal (seal finished: %v)", skip, full)
	e, err := env.New(env.Opts{SkipFsync: true, SkipSortDocs: skip, FracSize: 1})
	if err != nil {
		report(where, "infra: "+err.Error())
		return
	}
	defer e.Close()
	var acked []env.Doc
	for i := 1; i <= 4; i++ {
		acked = append(acked, doc(i))
	}
	if err := e.Bulk(acked); err != nil {
		report(where, "infra: bulk: "+err.Error())
		return
	}
	e.WaitIdle()
	on.Store(true)
	defer on.Store(false)
	gateA.Store(true)
	late := []env.Doc{doc(50), doc(51)}
	bulkDone := make(chan error, 1)
	go func() { bulkDone <- e.Bulk(late) }()
	if p, ok := waitFor("appender", 60*time.Second); !ok || p != "fm.append" {
		report(where, "infra: the appender did not park between choosing its writer and appending")
		return
	}
	// the fraction the appender holds is rotated away and sealed (FracSize 1: the pass rotates)
	if full {
		e.FM().VerifMaintenance() // rotate + the whole seal + release
	} else {
		var sw, dw sync.WaitGroup
		gateIdle.Store(true) // park the sealer right after it made the fraction read-only and idle
		e.FM().VerifMaintenancePass(&sw, &dw)
		if p, ok := waitFor("sealer", 60*time.Second); !ok {
			report(where, "infra: the sealer did not reach pf.idle ("+p+")")
			gateIdle.Store(false)
			resume("appender")
			return
		}
		defer func() { resume("sealer"); sw.Wait(); dw.Wait() }()
	}
	resume("appender")
	select {
	case err := <-bulkDone:
		if err != nil {
			report(where, "the overtaken bulk failed: "+err.Error())
			return
		}
	case <-time.After(30 * time.Second):
		report(where, "the bulk of an appender that was overtaken by a rotation never returned (it keeps retrying on the fraction that was rotated away)")
		os.Stdout.Sync()
		return
	}
	if !full {
		resume("sealer")
	}
	e.WaitIdle()
	probe(e, append(acked, late...), where)
}

func main() {
	rounds := flag.Int("rounds", 3, "")
	flag.Int("workers", 1, "")
	flag.Bool("progress", false, "")
	flag.Parse()
	if !verifhook.Enabled {
		fmt.Println(`{"infra":"built without -tags verif"}`)
		os.Exit(3)
	}
	verifhook.Set(hook)
	gates := 0
	for _, skip := range []bool{false, true} {
		gates += gated(skip, *rounds, false)
		gates += gated(skip, *rounds, true)
		slow(skip)
		overtaken(skip, false)
		overtaken(skip, true)
		gates += 2
	}
	for _, p := range problems {
		if w, _ := p["what"].(string); strings.HasPrefix(w, "infra: ") {
			b, _ := json.Marshal(map[string]any{"infra": w + " (" + fmt.Sprint(p["where"]) + ")"})
			fmt.Println(string(b))
			continue
		}
		b, _ := json.Marshal(p)
		fmt.Println(string(b))
	}
	b, _ := json.Marshal(map[string]any{"summary": true, "cases": gates, "evals": evals, "nontrivial": gates, "corpora": 6})
	fmt.Println(string(b))
}
