package main

import (
	"context"
	"fmt"
	"time"

	"google.golang.org/protobuf/types/known/timestamppb"

	"github.com/ozontech/seq-db/pkg/seqproxyapi/v1"
	"github.com/ozontech/seq-db/seq"

	"verifharness/env"
)

var apiFuncs = map[string]seqproxyapi.AggFunc{"count": seqproxyapi.AggFunc_AGG_FUNC_COUNT, "unique": seqproxyapi.AggFunc_AGG_FUNC_UNIQUE,
	"sum": seqproxyapi.AggFunc_AGG_FUNC_SUM, "min": seqproxyapi.AggFunc_AGG_FUNC_MIN, "max": seqproxyapi.AggFunc_AGG_FUNC_MAX,
	"avg": seqproxyapi.AggFunc_AGG_FUNC_AVG, "quantile": seqproxyapi.AggFunc_AGG_FUNC_QUANTILE}

// apiAsk sends ONE request with the aggregations of cs (same query) to a public entry point and compares every
// aggregation of the response with its own case; the result is one verdict per aggregation ("" = agrees).
func apiAsk(api *env.API, entry string, cs []*Case, aggs []env.Agg) []string {
	all := func(what string) []string {
		out := make([]string, len(cs))
		for i := range out {
			out[i] = what
		}
		return out
	}
	c := cs[0]
	q := &seqproxyapi.SearchQuery{Query: c.Q.AST.SeqQL(), From: timestamppb.New(time.UnixMilli(int64(c.Q.From))), To: timestamppb.New(time.UnixMilli(int64(c.Q.To)))}
	var aq []*seqproxyapi.AggQuery
	for _, a := range aggs {
		x := &seqproxyapi.AggQuery{Field: a.Field, GroupBy: a.GroupBy, Func: apiFuncs[a.Func], Quantiles: a.Quantiles}
		if a.Interval > 0 {
			iv := fmt.Sprintf("%dms", a.Interval)
			x.Interval = &iv
		}
		aq = append(aq, x)
	}
	ctx, cancel := context.WithTimeout(context.Background(), time.Minute)
	defer cancel()
	var got []*seqproxyapi.Aggregation
	switch entry {
	case "api-complex-search":
		req := &seqproxyapi.ComplexSearchRequest{Query: q, Aggs: aq, Size: 10, Order: seqproxyapi.Order_ORDER_DESC, WithTotal: true}
		if orderOf(c.N+len(cs)) == "asc" {
			req.Order = seqproxyapi.Order_ORDER_ASC
		}
		if c.Q.Hist > 0 {
			req.Hist = &seqproxyapi.HistQuery{Interval: fmt.Sprintf("%dms", c.Q.Hist)}
		}
		resp, err := api.Client.ComplexSearch(ctx, req)
		if err != nil {
			return all("error: " + err.Error())
		}
		if e := resp.GetError(); e != nil && e.GetCode() != seqproxyapi.ErrorCode_ERROR_CODE_NO && e.GetCode() != seqproxyapi.ErrorCode_ERROR_CODE_UNSPECIFIED {
			return all(fmt.Sprintf("response error %s: %s", e.GetCode(), e.GetMessage()))
		}
		if uint64(resp.GetTotal()) != c.Exp.Total {
			return all(fmt.Sprintf("total got %d exp %d", resp.GetTotal(), c.Exp.Total))
		}
		if c.Q.Hist > 0 {
			hb := resp.GetHist().GetBuckets()
			if len(hb) != len(c.Exp.Hist) {
				return all(fmt.Sprintf("histogram buckets got %v exp %v", hb, c.Exp.Hist))
			}
			gh := map[uint64]uint64{}
			for _, b := range hb {
				gh[uint64(b.GetTs().AsTime().UnixMilli())] += b.GetDocCount()
			}
			for _, h := range c.Exp.Hist {
				if gh[h.B] != h.N {
					return all(fmt.Sprintf("histogram[%d] got %d exp %d", h.B, gh[h.B], h.N))
				}
			}
		}
		got = resp.GetAggs()
	case "api-get-aggregation":
		resp, err := api.Client.GetAggregation(ctx, &seqproxyapi.GetAggregationRequest{Query: q, Aggs: aq})
		if err != nil {
			return all("error: " + err.Error())
		}
		if e := resp.GetError(); e != nil && e.GetCode() != seqproxyapi.ErrorCode_ERROR_CODE_NO && e.GetCode() != seqproxyapi.ErrorCode_ERROR_CODE_UNSPECIFIED {
			return all(fmt.Sprintf("response error %s: %s", e.GetCode(), e.GetMessage()))
		}
		got = resp.GetAggs()
	}
	if len(got) != len(cs) {
		return all(fmt.Sprintf("aggs len %d", len(got)))
	}
	out := make([]string, len(cs))
	for i, g := range got {
		res := seq.AggregationResult{NotExists: g.GetNotExists()}
		for _, b := range g.GetBuckets() {
			x := seq.AggregationBucket{Name: b.GetKey(), Value: b.GetValue(), NotExists: b.GetNotExists(), Quantiles: b.GetQuantiles()}
			if b.GetTs() != nil {
				x.MID = seq.MID(b.GetTs().AsTime().UnixMilli())
			}
			res.Buckets = append(res.Buckets, x)
		}
		out[i] = compareResult(cs[i], res, aggs[i])
	}
	return out
}
