// agg replays AggCases.tla cases: the corpus is split into real fractions exactly as the case's
// partition says, and histogram / aggregation answers of the real engine are compared with the
// specification's on four paths (iterative searcher with 1 and with all fractions per iteration,
// manual merge of per-fraction results in reverse order, and the proxy path through the store's
// gRPC handler incl. store<->proxy conversion).
package main

import (
	"bufio"
	"encoding/json"
	"flag"
	"fmt"
	"math"
	"os"
	"sort"
	"strings"
	"sync"
	"sync/atomic"

	"github.com/ozontech/seq-db/seq"

	"verifharness/cases"
	"verifharness/env"
)

type AggQ struct {
	Func     string   `json:"func"`
	Group    bool     `json:"group"`
	Qs       [][2]int `json:"qs"`
	Interval int64    `json:"interval"`
}

type Query struct {
	AST  *cases.AST `json:"ast"`
	From uint64     `json:"from"`
	To   uint64     `json:"to"`
	Hist uint64     `json:"hist"`
	Agg  AggQ       `json:"agg"`
}

type Bucket struct {
	Name  cases.Str `json:"name"`
	Mid   uint64    `json:"mid"`
	Total int64     `json:"total"`
	Ne    int64     `json:"ne"`
	Sum   int64     `json:"sum"`
	Min   int64     `json:"min"`
	Max   int64     `json:"max"`
	Qs    []int64   `json:"qs"`
}

type Exp struct {
	Agg struct {
		Buckets []Bucket `json:"buckets"`
		Ne      int64    `json:"ne"`
	} `json:"agg"`
	Total uint64 `json:"total"`
	Hist  []struct {
		B uint64 `json:"b"`
		N uint64 `json:"n"`
	} `json:"hist"`
}

type Case struct {
	N      int
	Corpus []cases.Doc `json:"corpus"`
	Parts  [][]int     `json:"parts"`
	Q      Query       `json:"q"`
	Exp    Exp         `json:"exp"`
	raw    string
}

var (
	workers  = flag.Int("workers", 8, "")
	progress = flag.Bool("progress", false, "")
	scaleExp = flag.Int("scale", 0, "multiply every aggregated value by 10^scale (values beyond the int64 range; TLC's integers cannot carry them, the order and sums scale)")
	outMu    sync.Mutex
	evals    atomic.Int64
	nontriv  atomic.Int64
)

func emit(v any) {
	b, _ := json.Marshal(v)
	outMu.Lock()
	os.Stdout.Write(append(b, '\n'))
	outMu.Unlock()
}

func near(got float64, exp100 int64) bool {
	if *scaleExp != 0 {
		exp := float64(exp100) / 100 * math.Pow(10, float64(*scaleExp))
		return math.Abs(got-exp) <= 1e-9*math.Max(math.Abs(exp), 1)
	}
	return math.Abs(got*100-float64(exp100)) < 1e-6
}

// scaled renders a decimal value of the palette times 10^scale ("2.25" -> "2.25e19", "1e1" -> "1e20").
func scaled(v string) string {
	if strings.IndexAny(v, "eE.") < 0 { // a plain integer stays a plain integer: "2" -> "20000000000000000000" (20 digits, beyond 2^64)
		return v + strings.Repeat("0", *scaleExp)
	}
	if i := strings.IndexAny(v, "eE"); i >= 0 {
		var e int
		fmt.Sscanf(v[i+1:], "%d", &e)
		return fmt.Sprintf("%se%d", v[:i], e+*scaleExp)
	}
	return fmt.Sprintf("%se%d", v, *scaleExp)
}

// compare returns "" if the QPR agrees with the expectation.
func compare(c *Case, q *seq.QPR, agg env.Agg) string { return compareAt(c, q, agg, 0, 1) }

// compareAt: the ai-th of n aggregations of the response against the case's expectation
func compareAt(c *Case, q *seq.QPR, agg env.Agg, ai, n int) string {
	if q.Total != c.Exp.Total {
		return fmt.Sprintf("total got %d exp %d", q.Total, c.Exp.Total)
	}
	if c.Q.Hist > 0 {
		if len(q.Histogram) != len(c.Exp.Hist) {
			return fmt.Sprintf("histogram buckets got %v exp %v", q.Histogram, c.Exp.Hist)
		}
		for _, h := range c.Exp.Hist {
			if q.Histogram[seq.MID(h.B)] != h.N {
				return fmt.Sprintf("histogram[%d] got %d exp %d", h.B, q.Histogram[seq.MID(h.B)], h.N)
			}
		}
	}
	if len(q.Aggs) != n {
		return fmt.Sprintf("aggs len %d", len(q.Aggs))
	}
	return compareResult(c, q.Aggs[ai].Aggregate(env.AggArgs(agg)), agg)
}

// compareResult: one evaluated aggregation (as the proxy hands it to its clients) against the case's expectation
func compareResult(c *Case, res seq.AggregationResult, agg env.Agg) string {
	if res.NotExists != c.Exp.Agg.Ne {
		return fmt.Sprintf("not-exists got %d exp %d", res.NotExists, c.Exp.Agg.Ne)
	}
	var bs []seq.AggregationBucket
	for _, b := range res.Buckets {
		if agg.Func == "count" && b.Name == "_not_exists" && b.MID == 0 {
			// legacy bucket: must mirror NotExists, otherwise ignored
			if int64(b.Value) != res.NotExists {
				return fmt.Sprintf("legacy _not_exists bucket %v != NotExists %d", b.Value, res.NotExists)
			}
			continue
		}
		bs = append(bs, b)
	}
	sort.SliceStable(bs, func(i, j int) bool {
		if bs[i].MID != bs[j].MID {
			return bs[i].MID < bs[j].MID
		}
		return bs[i].Name < bs[j].Name
	})
	if len(bs) != len(c.Exp.Agg.Buckets) {
		return fmt.Sprintf("bucket count got %d exp %d: %+v", len(bs), len(c.Exp.Agg.Buckets), bs)
	}
	for i, e := range c.Exp.Agg.Buckets {
		g := bs[i]
		if g.Name != e.Name.String() || uint64(g.MID) != e.Mid {
			return fmt.Sprintf("bucket %d key got (%d,%q) exp (%d,%q)", i, g.MID, g.Name, e.Mid, e.Name.String())
		}
		stat := agg.Func != "count" && agg.Func != "unique"
		if stat && agg.Interval == 0 && g.NotExists != e.Ne {
			return fmt.Sprintf("bucket %d not-exists got %d exp %d", i, g.NotExists, e.Ne)
		}
		if stat && e.Total == 0 {
			if !math.IsNaN(g.Value) {
				return fmt.Sprintf("bucket %d: no samples, value must be NaN, got %v", i, g.Value)
			}
			continue
		}
		ok := true
		switch agg.Func {
		case "count":
			ok = int64(g.Value) == e.Total
		case "unique":
		case "sum":
			ok = near(g.Value, e.Sum)
		case "min":
			ok = near(g.Value, e.Min)
		case "max":
			ok = near(g.Value, e.Max)
		case "avg":
			if *scaleExp != 0 {
				ok = near(g.Value*float64(e.Total), e.Sum)
			} else {
				ok = math.Abs(g.Value*100*float64(e.Total)-float64(e.Sum)) < 1e-6
			}
		case "quantile":
			if len(g.Quantiles) != len(e.Qs) {
				ok = false
				break
			}
			for k := range e.Qs {
				if !near(g.Quantiles[k], e.Qs[k]) {
					ok = false
				}
			}
			if ok && !near(g.Value, e.Qs[0]) {
				ok = false
			}
		}
		if !ok {
			return fmt.Sprintf("bucket %d (%d,%q) %s got value=%v quantiles=%v exp %+v", i, g.MID, g.Name, agg.Func, g.Value, g.Quantiles, e)
		}
	}
	return ""
}

func runGroup(g []*Case) {
	c := g[0]
	e, err := env.New(env.Opts{SkipFsync: true, FPI: 1})
	if err != nil {
		emit(map[string]any{"infra": err.Error()})
		return
	}
	defer e.Close()
	var api *env.API
	docs := cases.EnvDocs(c.Corpus)
	if *scaleExp != 0 {
		for i := range docs {
			for k, v := range docs[i].Tok["v"] {
				docs[i].Tok["v"][k] = scaled(v)
			}
		}
	}
	for pi, part := range c.Parts {
		var bulk []env.Doc
		for _, i := range part {
			bulk = append(bulk, docs[i-1])
		}
		if err := e.Bulk(bulk); err != nil {
			emit(map[string]any{"infra": "bulk: " + err.Error()})
			return
		}
		e.WaitIdle()
		// every part but the last is sealed; the last one is sealed for odd case numbers
		if pi < len(c.Parts)-1 || c.N%2 == 1 {
			e.Seal()
		}
	}
	if api, err = env.NewAPI(e); err != nil {
		emit(map[string]any{"infra": "public API: " + err.Error()})
		return
	}
	defer api.Stop()
	for _, c := range g {
		if *progress {
			emit(map[string]any{"begin": c.N})
		}
		runCase(e, api, c)
		if *progress {
			emit(map[string]any{"end": c.N})
		}
	}
	// pairs of cases with the same query: both aggregations in one request
	byQuery := map[string][]*Case{}
	var keys []string
	for _, c := range g {
		ab, _ := json.Marshal(c.Q.AST)
		k := fmt.Sprintf("%s|%d|%d|%d", ab, c.Q.From, c.Q.To, c.Q.Hist)
		if _, ok := byQuery[k]; !ok {
			keys = append(keys, k)
		}
		byQuery[k] = append(byQuery[k], c)
	}
	for _, k := range keys {
		cs := byQuery[k]
		pairs := 0
		for i := 0; i+1 < len(cs) && pairs < 4; i++ {
			a, b := cs[i], cs[(i+1+c.N%3)%len(cs)]
			if a == b || (a.Q.Agg.Interval == b.Q.Agg.Interval && a.Q.Agg.Func == b.Q.Agg.Func) {
				continue
			}
			pairs++
			if *progress {
				emit(map[string]any{"begin": a.N})
			}
			runPair(e, api, a, b)
			if *progress {
				emit(map[string]any{"end": a.N})
			}
		}
	}
}

func orderOf(n int) string {
	if n%2 == 1 {
		return "asc"
	}
	return "desc"
}

func aggOf(c *Case) env.Agg {
	agg := env.Agg{Func: c.Q.Agg.Func, Interval: c.Q.Agg.Interval}
	if c.Q.Agg.Func == "count" || c.Q.Agg.Func == "unique" {
		agg.GroupBy = "g"
	} else {
		agg.Field = "v"
		if c.Q.Agg.Group {
			agg.GroupBy = "g"
		}
	}
	for _, q := range c.Q.Agg.Qs {
		agg.Quantiles = append(agg.Quantiles, float64(q[0])/float64(q[1]))
	}
	return agg
}

// runPair: two cases that ask the same query with different aggregations are also sent as ONE request carrying both
// aggregations (in both orders): every aggregation of a request must equal its own reference, whatever else the
// request asks for (state shared between the aggregations of a request, e.g. time-bin extraction, must not leak)
func runPair(e *env.Env, api *env.API, a, b *Case) {
	for _, ord := range [][2]*Case{{a, b}, {b, a}} {
		aggs := []env.Agg{aggOf(ord[0]), aggOf(ord[1])}
		p := env.Params{From: a.Q.From, To: a.Q.To, Limit: 10, Order: orderOf(a.N + 1), WithTotal: true, Interval: a.Q.Hist, Aggs: aggs}
		fracs := e.FM().GetAllFracs()
		ast, _ := a.Q.AST.Build()
		sp := e.SearchParams(p)
		sp.AST = ast
		r, err := env.SearchFracs(fracs, len(fracs), sp)
		evals.Add(1)
		if err != nil {
			emit(map[string]any{"n": ord[0].N, "path": "two-aggs", "what": "error: " + err.Error(), "case": json.RawMessage(ord[0].raw)})
			continue
		}
		for k := 0; k < 2; k++ {
			if what := compareAt(ord[k], r.QPR, aggs[k], k, 2); what != "" {
				emit(map[string]any{"n": ord[k].N, "path": "two-aggs", "what": fmt.Sprintf("aggregation %d of 2 in one request (the other: %s interval %d): %s", k+1, aggs[1-k].Func, aggs[1-k].Interval, what),
					"case": json.RawMessage(ord[k].raw), "other": json.RawMessage(ord[1-k].raw)})
			}
		}
		// the same request through the public API (ComplexSearch and GetAggregation): the conversion of the request's
		// aggregation list and of the evaluated buckets is per aggregation
		if !a.Q.AST.HasNand() {
			for _, entry := range []string{"api-complex-search", "api-get-aggregation"} {
				evals.Add(1)
				whats := apiAsk(api, entry, ord[:], aggs)
				for k := 0; k < 2; k++ {
					if whats[k] != "" {
						emit(map[string]any{"n": ord[k].N, "path": entry + "-two-aggs", "what": fmt.Sprintf("aggregation %d of 2 in one request (the other: %s interval %d): %s", k+1, aggs[1-k].Func, aggs[1-k].Interval, whats[k]),
							"case": json.RawMessage(ord[k].raw), "other": json.RawMessage(ord[1-k].raw)})
					}
				}
			}
		}
	}
}

func runCase(e *env.Env, api *env.API, c *Case) {
	agg := aggOf(c)
	// the order of the returned IDs is no part of a histogram or an aggregation: half of the cases ask in either order
	p := env.Params{From: c.Q.From, To: c.Q.To, Limit: 10, Order: orderOf(c.N), WithTotal: true, Interval: c.Q.Hist, Aggs: []env.Agg{agg}}
	if len(c.Exp.Agg.Buckets) > 0 {
		nontriv.Add(1)
	}
	report := func(path, what string) {
		evals.Add(1)
		if what != "" {
			emit(map[string]any{"n": c.N, "path": path, "what": what, "case": json.RawMessage(c.raw)})
		}
	}
	fracs := e.FM().GetAllFracs()
	for _, fpi := range []int{1, len(fracs)} {
		ast, _ := c.Q.AST.Build()
		sp := e.SearchParams(p)
		sp.AST = ast
		r, err := env.SearchFracs(fracs, fpi, sp)
		if err != nil {
			report(fmt.Sprintf("searcher-fpi%d", fpi), "error: "+err.Error())
			continue
		}
		report(fmt.Sprintf("searcher-fpi%d", fpi), compare(c, r.QPR, agg))
	}
	// manual merge of per-fraction results, newest fraction first (reverse of the searcher's order for desc)
	{
		var qprs []*seq.QPR
		bad := ""
		for i := len(fracs) - 1; i >= 0; i-- {
			ast, _ := c.Q.AST.Build()
			sp := e.SearchParams(p)
			sp.AST = ast
			q, err := env.FracSearch(fracs[i], sp)
			if err != nil {
				bad = "error: " + err.Error()
				break
			}
			qprs = append(qprs, q)
		}
		if bad == "" {
			dst := &seq.QPR{Histogram: map[seq.MID]uint64{}, Aggs: make([]seq.AggregatableSamples, 1)}
			seq.MergeQPRs(dst, qprs, p.Limit, seq.MID(p.Interval), env.Order(p.Order))
			bad = compare(c, dst, agg)
		}
		report("manual-merge-reverse", bad)
	}
	// proxy path (SeqQL text -> store handler -> response -> responseToQPR -> merge)
	if !c.Q.AST.HasNand() {
		ing := env.NewProxy([][]*env.Env{{e}})
		q, _, err := env.ProxySearch(ing, c.Q.AST.SeqQL(), env.ProxyParams{Params: p, Size: 10})
		if err != nil {
			report("proxy", "error: "+err.Error())
		} else {
			report("proxy", compare(c, q, agg))
		}
		// public API: request conversion (proxyapi), search, evaluation of the merged samples, response conversion
		for _, entry := range []string{"api-complex-search", "api-get-aggregation"} {
			report(entry, apiAsk(api, entry, []*Case{c}, []env.Agg{agg})[0])
		}
	}
}

func main() {
	flag.Parse()
	sc := bufio.NewScanner(os.Stdin)
	sc.Buffer(make([]byte, 1<<20), 1<<26)
	var all []*Case
	var groups [][]*Case
	idx := map[string]int{}
	for sc.Scan() {
		line := sc.Text()
		if !strings.HasPrefix(line, "{") {
			continue
		}
		c := &Case{raw: line, N: len(all)}
		if err := json.Unmarshal([]byte(line), c); err != nil {
			emit(map[string]any{"infra": "bad case: " + err.Error()})
			os.Exit(3)
		}
		all = append(all, c)
		kb, _ := json.Marshal([]any{c.Corpus, c.Parts})
		gi, ok := idx[string(kb)]
		if !ok {
			gi = len(groups)
			idx[string(kb)] = gi
			groups = append(groups, nil)
		}
		groups[gi] = append(groups[gi], c)
	}
	w := *workers
	if *progress {
		w = 1
	}
	ch := make(chan []*Case)
	var wg sync.WaitGroup
	for i := 0; i < w; i++ {
		wg.Add(1)
		go func() {
			defer wg.Done()
			for g := range ch {
				runGroup(g)
			}
		}()
	}
	for _, g := range groups {
		ch <- g
	}
	close(ch)
	wg.Wait()
	emit(map[string]any{"summary": true, "cases": len(all), "evals": evals.Load(), "nontrivial": nontriv.Load(), "corpora": len(groups)})
}
