// stress: N writers, M searcher/fetchers and the real maintenance pass (tiny FracSize: many rotations,
// seals and releases; small cache: constant eviction) run concurrently against one real store.
// Checked while it runs: every ID a search returns belongs to a submitted bulk, carries the queried
// token and is fetched immediately with its exact bytes; no request fails.  Checked at the end
// (writers idle): every acknowledged document is found by its own token and by the shared token, and
// fetched byte-exact.  Built with -race by the check, so a data race on any explored schedule fails it.
package main

import (
	"bytes"
	"encoding/json"
	"flag"
	"fmt"
	"math/rand"
	"os"
	"sort"
	"strings"
	"sync"
	"sync/atomic"
	"time"

	"github.com/ozontech/seq-db/seq"

	"verifharness/cases"
	"verifharness/env"
)

var (
	mu       sync.Mutex
	problems []string
	evals    atomic.Int64
)

func problem(f string, a ...any) {
	mu.Lock()
	if len(problems) < 20 {
		problems = append(problems, fmt.Sprintf(f, a...))
	}
	mu.Unlock()
}

func doc(w, i int) env.Doc {
	n := w*1_000_000 + i
	return env.Doc{MID: uint64(10_000 + i), RID: uint64(n), Tok: map[string][]string{"k": {"t"}, "u": {fmt.Sprintf("u%d", n)}, "w": {fmt.Sprintf("w%d", w)}},
		Body: fmt.Sprintf(`{"w":%d,"i":%d,"pad":"%s"}`, w, i, strings.Repeat("s", 10+(n*7)%90))}
}

func lit(f, v string) *cases.AST {
	var t cases.Str
	for _, ch := range v {
		t = append(t, string(ch))
	}
	return &cases.AST{Op: "lit", F: f, Terms: []cases.Str{t}}
}

func main() {
	writers := flag.Int("writers", 4, "")
	readers := flag.Int("readers", 4, "")
	bulks := flag.Int("bulks", 60, "bulks per writer")
	seed := flag.Int64("seed", 1, "")
	skip := flag.Bool("skip", false, "")
	flag.Int("workers", 1, "")
	flag.Bool("progress", false, "")
	flag.Parse()
	e, err := env.New(env.Opts{SkipFsync: true, SkipSortDocs: *skip, FracSize: 600, CacheSize: 64 << 10, Workers: 4, FPI: 2})
	if err != nil {
		fmt.Printf(`{"infra":%q}`+"\n", err.Error())
		os.Exit(3)
	}
	var ackedMu sync.Mutex
	acked := map[uint64]env.Doc{}  // rid -> doc (acknowledged and indexed: visible)
	submitted := sync.Map{}        // rid -> doc (sent, maybe not acked yet)
	var ackedList []env.Doc
	stop := make(chan struct{})
	var wg, bg sync.WaitGroup
	// maintenance loop
	bg.Add(1)
	go func() {
		defer bg.Done()
		for {
			select {
			case <-stop:
				return
			default:
				e.FM().VerifMaintenance()
				time.Sleep(2 * time.Millisecond)
			}
		}
	}()
	// cache churn
	bg.Add(1)
	go func() {
		defer bg.Done()
		for {
			select {
			case <-stop:
				return
			default:
				if rand.Intn(10) == 0 {
					e.ResetCache()
				}
				time.Sleep(5 * time.Millisecond)
			}
		}
	}()
	for w := 1; w <= *writers; w++ {
		wg.Add(1)
		go func(w int) {
			defer wg.Done()
			rng := rand.New(rand.NewSource(*seed*100 + int64(w)))
			i := 0
			for b := 0; b < *bulks; b++ {
				var ds []env.Doc
				for k := 0; k < 1+rng.Intn(6); k++ {
					i++
					d := doc(w, i)
					submitted.Store(d.RID, d)
					ds = append(ds, d)
				}
				// a bulk that does not come back is a deadlock / livelock of the write path (e.g. an appender that keeps
				// retrying on a fraction that was rotated away): report it and end the process, nothing can be joined
				done := make(chan error, 1)
				go func() { done <- e.Bulk(ds) }()
				select {
				case err := <-done:
					if err != nil {
						problem("bulk of writer %d failed: %v", w, err)
						return
					}
				case <-time.After(120 * time.Second):
					b, _ := json.Marshal(map[string]any{"n": 0, "what": fmt.Sprintf("bulk %d of writer %d did not return within 120 s while fractions were rotated and sealed (deadlock / livelock of the write path)", b, w)})
					fmt.Println(string(b))
					os.Exit(0)
				}
			}
		}(w)
	}
	var rwg sync.WaitGroup
	for r := 0; r < *readers; r++ {
		rwg.Add(1)
		go func(r int) {
			defer rwg.Done()
			rng := rand.New(rand.NewSource(*seed*1000 + int64(r)))
			for {
				select {
				case <-stop:
					return
				default:
				}
				var q *cases.AST
				switch rng.Intn(3) {
				case 0:
					q = lit("k", "t")
				case 1:
					q = lit("w", fmt.Sprintf("w%d", 1+rng.Intn(*writers)))
				default:
					q = lit("u", fmt.Sprintf("u%d", (1+rng.Intn(*writers))*1_000_000+1+rng.Intn(*bulks*3)))
				}
				ast, _ := q.Build()
				order := []string{"desc", "asc"}[rng.Intn(2)]
				res, err := e.SearchAST(ast, env.Params{From: 0, To: 1 << 40, Limit: 5 + rng.Intn(40), Order: order, WithTotal: rng.Intn(2) == 0})
				evals.Add(1)
				if err != nil {
					problem("search %s failed: %v", q.SeqQL(), err)
					return
				}
				var ids []seq.ID
				var want [][]byte
				for _, id := range res.IDs {
					v, ok := submitted.Load(id[1])
					if !ok {
						problem("search %s returned id %v that was never submitted", q.SeqQL(), id)
						return
					}
					d := v.(env.Doc)
					if d.MID != id[0] {
						problem("search returned id %v with a wrong timestamp (document has %d)", id, d.MID)
						return
					}
					if q.F != "k" && d.Tok[q.F][0] != q.Terms[0].String() {
						problem("search %s returned id %v whose document does not carry the token", q.SeqQL(), id)
						return
					}
					ids = append(ids, d.ID())
					want = append(want, d.BodyBytes())
				}
				for i := 1; i < len(res.IDs); i++ {
					a, b := res.IDs[i-1], res.IDs[i]
					less := a[0] < b[0] || (a[0] == b[0] && a[1] < b[1])
					if a == b || (order == "asc") != less {
						problem("search %s (%s) returned ids out of order or duplicated: %v %v", q.SeqQL(), order, a, b)
						return
					}
				}
				if len(ids) > 0 {
					docs, _, err := e.Fetch(ids, nil)
					if err != nil {
						problem("fetch failed: %v", err)
						return
					}
					for i := range ids {
						if !bytes.Equal(docs[i], want[i]) {
							problem("id %v returned by a search cannot be fetched right away with its bytes (got %q)", res.IDs[i], docs[i])
							return
						}
					}
				}
			}
		}(r)
	}
	wg.Wait()
	close(stop)
	rwg.Wait()
	bg.Wait()
	e.WaitIdle()
	e.FM().VerifMaintenance()
	submitted.Range(func(k, v any) bool {
		ackedMu.Lock()
		acked[k.(uint64)] = v.(env.Doc)
		ackedList = append(ackedList, v.(env.Doc))
		ackedMu.Unlock()
		return true
	})
	// quiescent: everything acknowledged is visible and fetchable
	if len(problems) == 0 {
		ast, _ := lit("k", "t").Build()
		res, err := e.SearchAST(ast, env.Params{From: 0, To: 1 << 40, Limit: len(ackedList) + 10, Order: "desc", WithTotal: true})
		if err != nil {
			problem("final search failed: %v", err)
		} else if len(res.IDs) != len(ackedList) || int(res.Total) != len(ackedList) {
			problem("writers idle: %d documents acknowledged, search finds %d (total %d)", len(ackedList), len(res.IDs), res.Total)
		}
		// pages: the same data ingested sequentially into one fraction answers a limited query with the first documents of
		// the one ordered list (timestamps repeat across the writers and across the rotations of this run, so the cut
		// falls inside groups of equal timestamps that are spread over fractions; no total: the searcher may stop early)
		sorted := append([]env.Doc(nil), ackedList...)
		sort.Slice(sorted, func(i, j int) bool {
			return sorted[i].MID > sorted[j].MID || (sorted[i].MID == sorted[j].MID && sorted[i].RID > sorted[j].RID)
		})
		for _, order := range []string{"desc", "asc"} {
			for _, lim := range []int{1, 2, 3, 4, 5, 7, 9, 12, 16, 25, 40} {
				if lim > len(sorted) {
					break
				}
				res, err := e.SearchAST(ast, env.Params{From: 0, To: 1 << 40, Limit: lim, Order: order})
				evals.Add(1)
				if err != nil || len(res.IDs) != lim {
					problem("writers idle: page of %d (%s) failed: %v %v", lim, order, res, err)
					break
				}
				for i := 0; i < lim; i++ {
					d := sorted[i]
					if order == "asc" {
						d = sorted[len(sorted)-1-i]
					}
					if res.IDs[i] != [2]uint64{d.MID, d.RID} {
						problem("writers idle: page of %d (%s) differs from the sequentially ingested data at position %d: got %v, want [%d %d]", lim, order, i, res.IDs[i], d.MID, d.RID)
						break
					}
				}
			}
		}
		// ... and the same with the window's newer (older) end on every fraction's newest (oldest) timestamp, so that the cut
		// falls next to a border between fractions, where documents of one timestamp lie on both sides
	borders:
		for _, f := range e.FM().GetAllFracs() {
			inf := f.Info()
			if inf.DocsTotal == 0 {
				continue
			}
			for _, order := range []string{"desc", "asc"} {
				var win []env.Doc
				from, to := uint64(0), uint64(1<<40)
				if order == "desc" {
					to = uint64(inf.To)
				} else {
					from = uint64(inf.From)
				}
				for _, d := range sorted {
					if d.MID >= from && d.MID <= to {
						win = append(win, d)
					}
				}
				for lim := 1; lim <= 6 && lim <= len(win); lim++ {
					res, err := e.SearchAST(ast, env.Params{From: from, To: to, Limit: lim, Order: order})
					evals.Add(1)
					if err != nil || len(res.IDs) != lim {
						problem("writers idle: page of %d (%s, window [%d,%d]) failed: %v %v", lim, order, from, to, res, err)
						break borders
					}
					for i := 0; i < lim; i++ {
						d := win[i]
						if order == "asc" {
							d = win[len(win)-1-i]
						}
						if res.IDs[i] != [2]uint64{d.MID, d.RID} {
							problem("writers idle: page of %d (%s, window [%d,%d] ending on a fraction's border) differs from the sequentially ingested data at position %d: got %v, want [%d %d]", lim, order, from, to, i, res.IDs[i], d.MID, d.RID)
							break borders
						}
					}
				}
			}
		}
		for i, d := range ackedList {
			if i%7 != 0 {
				continue
			}
			a, _ := lit("u", d.Tok["u"][0]).Build()
			r2, err := e.SearchAST(a, env.Params{From: 0, To: 1 << 40, Limit: 10, Order: "desc", WithTotal: true})
			if err != nil || len(r2.IDs) != 1 || r2.IDs[0] != [2]uint64{d.MID, d.RID} {
				problem("writers idle: document %d not found by its own token (%v %v)", d.RID, r2, err)
				break
			}
			docs, _, err := e.Fetch([]seq.ID{d.ID()}, nil)
			if err != nil || !bytes.Equal(docs[0], d.BodyBytes()) {
				problem("writers idle: document %d not fetchable (%v)", d.RID, err)
				break
			}
		}
	}
	nfr := len(e.FM().GetAllFracs())
	// restart: the sealed fractions come back from .frac-cache and are loaded by their first request.  Many requests
	// arrive at once, so that several of them are the first on the same fraction (the lazy initialisation of a sealed
	// fraction is a step of its own in a reader's life; under -race an unsynchronised second load is reported)
	if len(problems) == 0 {
		// many more sealed fractions, so that the coinciding first requests below get many chances
		for k := 0; k < 80; k++ {
			d := doc(9, k+1)
			if err := e.Bulk([]env.Doc{d}); err != nil {
				problem("bulk before the restart failed: %v", err)
				break
			}
			ackedList = append(ackedList, d)
			e.Seal()
		}
		if err := e.Restart(); err != nil {
			problem("restart after the workload failed: %v", err)
		} else {
			// every fraction gets its first requests from 12 goroutines released together
			ast0, _ := lit("k", "t").Build()
			sp := e.SearchParamsAST(ast0, env.Params{From: 0, To: 1 << 40, Limit: len(ackedList) + 10, Order: "desc"})
			var found [12]int
			for _, f := range e.FM().GetAllFracs() {
				gate := make(chan struct{})
				var gwg sync.WaitGroup
				for r := 0; r < 12; r++ {
					gwg.Add(1)
					go func(r int) {
						defer gwg.Done()
						<-gate
						qpr, err := env.FracSearch(f, sp)
						evals.Add(1)
						if err != nil {
							problem("first search of a fraction after the restart failed: %v", err)
							return
						}
						found[r] += len(qpr.IDs)
					}(r)
				}
				close(gate)
				gwg.Wait()
			}
			for r := range found {
				if found[r] != len(ackedList) && len(problems) == 0 {
					problem("after the restart: %d documents acknowledged, the first requests of the fractions find %d", len(ackedList), found[r])
				}
			}
			start := make(chan struct{})
			var fwg sync.WaitGroup
			for r := 0; r < 24; r++ {
				fwg.Add(1)
				go func(r int) {
					defer fwg.Done()
					<-start
					ast, _ := lit("k", "t").Build()
					order := []string{"desc", "asc"}[r%2]
					res, err := e.SearchAST(ast, env.Params{From: 0, To: 1 << 40, Limit: len(ackedList) + 10, Order: order, WithTotal: true})
					evals.Add(1)
					if err != nil {
						problem("first search after the restart failed: %v", err)
						return
					}
					if len(res.IDs) != len(ackedList) || int(res.Total) != len(ackedList) {
						problem("after the restart: %d documents acknowledged, a first search finds %d (total %d)", len(ackedList), len(res.IDs), res.Total)
						return
					}
					for i := r; i < len(ackedList); i += 97 {
						d := ackedList[i]
						docs, _, err := e.Fetch([]seq.ID{d.ID()}, nil)
						if err != nil || !bytes.Equal(docs[0], d.BodyBytes()) {
							problem("after the restart: document %d not fetchable with its bytes (%v)", d.RID, err)
							return
						}
					}
				}(r)
			}
			close(start)
			fwg.Wait()
		}
	}
	e.Close()
	for i, p := range problems {
		b, _ := json.Marshal(map[string]any{"n": i, "what": p})
		fmt.Println(string(b))
	}
	b, _ := json.Marshal(map[string]any{"summary": true, "cases": 1, "evals": evals.Load(), "nontrivial": 1, "corpora": 1, "docs": len(ackedList), "fractions": nfr})
	fmt.Println(string(b))
}
