// sealfault: for a real active fraction, runs the real sealing writer (frac.writeSealedFraction via the
// verif accessor) against an output whose k-th Write fails, for every k = 1..W (W = number of writes
// of the fault-free run). Lifecycle.tla requires a failing write to abort the seal (IndexWriteFault):
// the writer must return an error for every k, otherwise a truncated index would be renamed into place.
package main

import (
	"encoding/json"
	"errors"
	"flag"
	"fmt"
	"io"
	"os"

	"github.com/ozontech/seq-db/frac"

	"verifharness/env"
)

type faultWriter struct {
	buf    []byte
	pos    int64
	writes int
	failAt int
}

var errInjected = errors.New("verif: injected write error")

func (w *faultWriter) Write(p []byte) (int, error) {
	w.writes++
	if w.writes == w.failAt {
		return 0, errInjected
	}
	end := w.pos + int64(len(p))
	if end > int64(len(w.buf)) {
		w.buf = append(w.buf, make([]byte, end-int64(len(w.buf)))...)
	}
	copy(w.buf[w.pos:], p)
	w.pos = end
	return len(p), nil
}

func (w *faultWriter) Seek(off int64, whence int) (int64, error) {
	switch whence {
	case io.SeekStart:
		w.pos = off
	case io.SeekCurrent:
		w.pos += off
	case io.SeekEnd:
		w.pos = int64(len(w.buf)) + off
	}
	return w.pos, nil
}

func emit(v any) {
	b, _ := json.Marshal(v)
	os.Stdout.Write(append(b, '\n'))
}

func main() {
	ndocs := flag.Int("docs", 70000, "documents in the fraction (70000 gives 2 LID blocks and 18 ID blocks)")
	flag.Parse()
	e, err := env.New(env.Opts{SkipFsync: true, SkipSortDocs: true})
	if err != nil {
		emit(map[string]any{"infra": err.Error()})
		os.Exit(3)
	}
	defer e.Close()
	var bulk []env.Doc
	for i := 0; i < *ndocs; i++ {
		bulk = append(bulk, env.Doc{MID: uint64(1000 + i/100), RID: uint64(i + 1),
			Tok: map[string][]string{"k": {"all"}, "g": {fmt.Sprintf("g%d", i%50)}, "u": {fmt.Sprintf("u%d", i)}}, Body: fmt.Sprintf(`{"i":%d}`, i)})
		if len(bulk) == 5000 {
			if err := e.Bulk(bulk); err != nil {
				emit(map[string]any{"infra": "bulk: " + err.Error()})
				os.Exit(3)
			}
			bulk = bulk[:0]
		}
	}
	if len(bulk) > 0 {
		e.Bulk(bulk)
	}
	e.WaitIdle()
	act := e.FM().VerifActive()
	params := frac.SealParams{IDsZstdLevel: 1, LIDsZstdLevel: 1, TokenListZstdLevel: 1, DocsPositionsZstdLevel: 1, TokenTableZstdLevel: 1}
	ref := &faultWriter{}
	if err := frac.VerifWriteSealedFraction(act, ref, params); err != nil {
		emit(map[string]any{"infra": "fault-free sealing failed: " + err.Error()})
		os.Exit(3)
	}
	w := ref.writes
	swallowed := []int{}
	for k := 1; k <= w; k++ {
		fw := &faultWriter{failAt: k}
		err := func() (err error) {
			defer func() {
				if r := recover(); r != nil {
					err = fmt.Errorf("panic: %v", r) // the process would die: nothing is published either
				}
			}()
			return frac.VerifWriteSealedFraction(act, fw, params)
		}()
		if err == nil {
			swallowed = append(swallowed, k)
		}
	}
	for _, k := range swallowed {
		emit(map[string]any{"n": k, "what": fmt.Sprintf("write %d of %d of the index output failed but the sealing writer reported success", k, w), "writes": w})
	}
	emit(map[string]any{"summary": true, "cases": w, "evals": w, "nontrivial": w, "corpora": 1, "writes": w, "swallowed": swallowed})
}
