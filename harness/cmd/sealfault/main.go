// sealfault: for a real active fraction, runs the real sealing writer (frac.writeSealedFraction via the
// verif accessor) against an output whose k-th Write fails, for every k = 1..W (W = number of writes
// of the fault-free run). Lifecycle.tla requires a failing write to abort the seal (IndexWriteFault):
// the writer must return an error for every k, otherwise a truncated index would be renamed into place.
package main

import (
	"encoding/json"
	"errors"
	"flag"
	"fmt"
	"io"
	"os"
	"path/filepath"
	"strings"

	"github.com/ozontech/seq-db/frac"
	"github.com/ozontech/seq-db/verifhook"

	"verifharness/cases"

	"verifharness/env"
)

type faultWriter struct {
	buf    []byte
	pos    int64
	writes int
	failAt int
}

var errInjected = errors.New("verif: injected write error")

func (w *faultWriter) Write(p []byte) (int, error) {
	w.writes++
	if w.writes == w.failAt {
		return 0, errInjected
	}
	end := w.pos + int64(len(p))
	if end > int64(len(w.buf)) {
		w.buf = append(w.buf, make([]byte, end-int64(len(w.buf)))...)
	}
	copy(w.buf[w.pos:], p)
	w.pos = end
	return len(p), nil
}

func (w *faultWriter) Seek(off int64, whence int) (int64, error) {
	switch whence {
	case io.SeekStart:
		w.pos = off
	case io.SeekCurrent:
		w.pos += off
	case io.SeekEnd:
		w.pos = int64(len(w.buf)) + off
	}
	return w.pos, nil
}

func emit(v any) {
	b, _ := json.Marshal(v)
	os.Stdout.Write(append(b, '\n'))
}

func main() {
	ndocs := flag.Int("docs", 70000, "documents in the fraction (70000 gives 2 LID blocks and 18 ID blocks)")
	flag.Parse()
	e, err := env.New(env.Opts{SkipFsync: true, SkipSortDocs: true})
	if err != nil {
		emit(map[string]any{"infra": err.Error()})
		os.Exit(3)
	}
	defer e.Close()
	var bulk []env.Doc
	for i := 0; i < *ndocs; i++ {
		bulk = append(bulk, env.Doc{MID: uint64(1000 + i/100), RID: uint64(i + 1),
			Tok: map[string][]string{"k": {"all"}, "g": {fmt.Sprintf("g%d", i%50)}, "u": {fmt.Sprintf("u%d", i)}}, Body: fmt.Sprintf(`{"i":%d}`, i)})
		if len(bulk) == 5000 {
			if err := e.Bulk(bulk); err != nil {
				emit(map[string]any{"infra": "bulk: " + err.Error()})
				os.Exit(3)
			}
			bulk = bulk[:0]
		}
	}
	if len(bulk) > 0 {
		e.Bulk(bulk)
	}
	e.WaitIdle()
	act := e.FM().VerifActive()
	params := frac.SealParams{IDsZstdLevel: 1, LIDsZstdLevel: 1, TokenListZstdLevel: 1, DocsPositionsZstdLevel: 1, TokenTableZstdLevel: 1}
	ref := &faultWriter{}
	if err := frac.VerifWriteSealedFraction(act, ref, params); err != nil {
		emit(map[string]any{"infra": "fault-free sealing failed: " + err.Error()})
		os.Exit(3)
	}
	w := ref.writes
	swallowed := []int{}
	for k := 1; k <= w; k++ {
		fw := &faultWriter{failAt: k}
		err := func() (err error) {
			defer func() {
				if r := recover(); r != nil {
					err = fmt.Errorf("panic: %v", r) // the process would die: nothing is published either
				}
			}()
			return frac.VerifWriteSealedFraction(act, fw, params)
		}()
		if err == nil {
			swallowed = append(swallowed, k)
		}
	}
	for _, k := range swallowed {
		emit(map[string]any{"n": k, "what": fmt.Sprintf("write %d of %d of the index output failed but the sealing writer reported success", k, w), "writes": w})
	}
	renames := renameFaults()
	emit(map[string]any{"summary": true, "cases": w + renames, "evals": w + renames, "nontrivial": w + renames, "corpora": 1, "writes": w, "swallowed": swallowed, "rename_faults": renames})
}

// renameFaults: the rename of a synced temp output to its final name fails (the final name is occupied by a
// non-empty directory, created in the hook between the sync and the rename). The real proxyFrac.Seal must report an
// error, publish nothing and leave the originals alone; after the obstacle is gone and the store restarted, every
// document is served and the fraction can be sealed.
func renameFaults() int {
	n := 0
	for _, skip := range []bool{false, true} {
		for _, target := range []string{"._sdocs", "._index"} {
			if skip && target == "._sdocs" {
				continue
			}
			n++
			tag := fmt.Sprintf("rename of %s fails (skipSortDocs=%v)", target, skip)
			fail := func(what string) { emit(map[string]any{"n": -n, "what": tag + ": " + what, "fault": "rename"}) }
			e, err := env.New(env.Opts{SkipFsync: true, SkipSortDocs: skip})
			if err != nil {
				emit(map[string]any{"infra": err.Error()})
				os.Exit(3)
			}
			var bulk []env.Doc
			for i := 0; i < 300; i++ {
				bulk = append(bulk, env.Doc{MID: uint64(1000 + i/10), RID: uint64(i + 1), Tok: map[string][]string{"k": {"all"}}, Body: fmt.Sprintf(`{"i":%d}`, i)})
			}
			if err := e.Bulk(bulk); err != nil {
				emit(map[string]any{"infra": "bulk: " + err.Error()})
				os.Exit(3)
			}
			e.WaitIdle()
			act := e.FM().VerifActive()
			base := act.BaseFileName
			final := base + map[string]string{"._sdocs": ".sdocs", "._index": ".index"}[target]
			blocked := false
			verifhook.Set(func(point string, obj any, a, b int64) {
				if name, _ := obj.(string); point == "file.sync" && strings.HasSuffix(name, target) && strings.HasPrefix(name, base) {
					os.Mkdir(final, 0o755)
					os.WriteFile(filepath.Join(final, "occupied"), []byte("x"), 0o644)
					blocked = true
				}
			})
			err = func() (err error) {
				defer func() {
					if r := recover(); r != nil {
						err = fmt.Errorf("panic: %v", r)
					}
				}()
				// through the fraction's proxy, as the maintenance loop seals (its error path is part of the contract:
				// whatever it cleans up, the originals stay)
				return e.FM().VerifSealActive()
			}()
			verifhook.Set(nil)
			switch {
			case !blocked:
				emit(map[string]any{"infra": tag + ": the hook between sync and rename was not reached"})
				os.Exit(3)
			case err == nil:
				fail("the seal reported success")
			}
			if st, e2 := os.Stat(final); e2 != nil || !st.IsDir() {
				fail("the final name was replaced although the rename could not succeed")
			}
			for _, suf := range []string{".docs", ".meta"} {
				if env.FileSize(base+suf) <= 0 {
					fail("original file " + suf + " is gone or empty after the failed seal")
				}
			}
			os.RemoveAll(final)
			if perr := func() (perr any) {
				defer func() { perr = recover() }()
				e.Halt()
				return nil
			}(); perr != nil {
				// (a store whose seal went wrong without reporting it may not even stop)
				fail(fmt.Sprintf("the store cannot be stopped after the failed seal: panic: %v", perr))
				continue
			}
			if err := e.Reopen(); err != nil {
				fail("the store does not come back after the failed seal: " + err.Error())
				continue
			}
			count := func() int {
				lit := &cases.AST{Op: "lit", F: "k", Terms: []cases.Str{{"a", "l", "l"}}}
				a, _ := lit.Build()
				r, err := e.SearchAST(a, env.Params{From: 0, To: 1 << 40, Limit: 1000, Order: "desc", WithTotal: true})
				if err != nil {
					return -1
				}
				return len(r.IDs)
			}
			if c := count(); c != 300 {
				fail(fmt.Sprintf("after the restart %d of 300 documents are served", c))
			}
			e.Seal()
			if c := count(); c != 300 {
				fail(fmt.Sprintf("after sealing again %d of 300 documents are served", c))
			}
			e.Close()
		}
	}
	return n
}
