// bulkingest replays BulkIngest.tla cases into the real proxyapi.BulkHandler + bulk.Ingestor.
//
// A case is a request body described by line classes, model sizes and time classes, together with
// the set of outcomes the property allows (computed by TLC).  The driver draws concrete bytes for
// every class (seeded), sends the body through BulkHandler.ServeHTTP (plain or gzip, several read
// chunkings, end of stream reported with or after the last bytes), captures what the real Ingestor
// hands to StorageClient.StoreDocuments, decodes it with the store's own decoders (disk.DocBlock,
// packer, frac.MetaData) and compares: status, item count, stored documents byte for byte and in
// order, metadata sizes, the time carried by every ID.  Every -e2e'th stored payload is also appended
// to a real store (FracManager) and fetched back by ID.
//
// No seq-db logic is re-implemented here: expected values are the `allowed` outcomes of the case.
package main

import (
	"bufio"
	"bytes"
	"compress/gzip"
	"context"
	"crypto/sha1"
	"encoding/json"
	"flag"
	"fmt"
	"io"
	"math/rand/v2"
	"net/http/httptest"
	"os"
	"sort"
	"strconv"
	"strings"
	"sync"
	"testing/iotest"
	"time"

	"go.uber.org/zap/zapcore"

	"github.com/ozontech/seq-db/disk"
	"github.com/ozontech/seq-db/frac"
	"github.com/ozontech/seq-db/logger"
	"github.com/ozontech/seq-db/mappingprovider"
	"github.com/ozontech/seq-db/packer"
	"github.com/ozontech/seq-db/proxy/bulk"
	"github.com/ozontech/seq-db/proxyapi"
	"github.com/ozontech/seq-db/seq"

	"verifharness/env"
)

// ---------------------------------------------------------------- case format (BulkIngest!Emit)

type TmField struct {
	K    string   `json:"k"`
	Off  int      `json:"off"`
	Fmt  string   `json:"fmt"`
	Text []string `json:"text"` // k = "stamp": the value, character by character, as the specification rendered it
}

type Line struct {
	C   string    `json:"c"`
	Len int       `json:"len"`
	T   int       `json:"t"`
	Tm  []TmField `json:"tm"`
}

type ExpDoc struct {
	I   int     `json:"i"`
	Tv  string  `json:"tv"`
	Fld int     `json:"fld"`
	Off int     `json:"off"`
	Abs []int64 `json:"abs"` // own time of a stamp: day number since 1970-01-01 and millisecond of that day (UTC)
}

// Clock of the stamp stage: the expectations hold for a tick of TickDays days and any `now` in [NowLo, NowHi] (day numbers)
type Clock struct {
	TickDays int   `json:"tickdays"`
	NowLo    int64 `json:"nowlo"`
	NowHi    int64 `json:"nowhi"`
}

type Outcome struct {
	St   string   `json:"st"`
	Docs []ExpDoc `json:"docs"`
}

type Case struct {
	M       int       `json:"m"`
	Drift   int       `json:"drift"`
	Future  int       `json:"future"`
	Lines   []Line    `json:"lines"`
	EofData bool      `json:"eofdata"`
	GzipOK  bool      `json:"gzipok"`
	Allowed []Outcome `json:"allowed"`
	Impl    Outcome   `json:"impl"`
	Dev     []int     `json:"dev"`
	Clock   *Clock    `json:"clock"`
	Idx     *int      `json:"_idx"` // replay: index used for the random stream
}

// ---------------------------------------------------------------- capturing StorageClient

type call struct {
	count       int
	docs, metas []byte
}

type capture struct{ calls []call }

type ctxKey struct{}

type capClient struct{}

func (capClient) StoreDocuments(ctx context.Context, count int, docs, metas []byte) error {
	cp, _ := ctx.Value(ctxKey{}).(*capture)
	if cp == nil {
		return fmt.Errorf("verif: StoreDocuments outside a case")
	}
	// both slices belong to a pooled compressor: copy
	cp.calls = append(cp.calls, call{count, bytes.Clone(docs), bytes.Clone(metas)})
	return nil
}

// ---------------------------------------------------------------- globals

var (
	maxDoc         int
	tick           time.Duration
	seed           uint64
	e2eEach        int
	showInfidelity bool
	handler        *proxyapi.BulkHandler
	store          *env.Env
	storeMu        sync.Mutex
	outMu          sync.Mutex
)

func emit(v any) {
	b, _ := json.Marshal(v)
	outMu.Lock()
	os.Stdout.Write(append(b, '\n'))
	outMu.Unlock()
}

var mapping = seq.Mapping{
	"k":         seq.NewSingleType(seq.TokenizerTypeKeyword, "", 0),
	"level":     seq.NewSingleType(seq.TokenizerTypeKeyword, "", 0),
	"t":         seq.NewSingleType(seq.TokenizerTypeText, "", 0),
	"msg":       seq.NewSingleType(seq.TokenizerTypeText, "", 0),
	"p":         seq.NewSingleType(seq.TokenizerTypePath, "", 0),
	"q":         seq.NewSingleType(seq.TokenizerTypeKeyword, "", 0),
	"ts":        seq.NewSingleType(seq.TokenizerTypeKeyword, "", 0),
	"time":      seq.NewSingleType(seq.TokenizerTypeKeyword, "", 0),
	"timestamp": seq.NewSingleType(seq.TokenizerTypeKeyword, "", 0),
	"o":         seq.NewSingleType(seq.TokenizerTypeObject, "", 0),
	"o.x":       seq.NewSingleType(seq.TokenizerTypeKeyword, "", 0),
	"o.ts":      seq.NewSingleType(seq.TokenizerTypeKeyword, "", 0),
	"n":         seq.NewSingleType(seq.TokenizerTypeNested, "", 0),
	"n.a":       seq.NewSingleType(seq.TokenizerTypeKeyword, "", 0),
	"tags":      seq.NewSingleType(seq.TokenizerTypeTags, "", 0),
	"tags.a":    seq.NewSingleType(seq.TokenizerTypeKeyword, "", 0),
	"ex":        seq.NewSingleType(seq.TokenizerTypeExists, "", 0),
}

// ---------------------------------------------------------------- representatives (B4 palette)

type gen struct {
	r *rand.Rand
}

var fillRunes = []string{"é", "Я", "ж", "汉", "😀", "İ", "Ⱥ", "K", "ß", "Σ"}

// fill returns exactly n bytes without quote, backslash, control characters or line breaks
func (g *gen) fill(n int, allowCR bool) []byte {
	out := make([]byte, 0, n)
	const ascii = "abcdefghijklmnopqrstuvwxyzABCDEFGHIJKLMNOPQRSTUVWXYZ0123456789 _-.:/*,;{}[]"
	if n > 4096 {
		// long fillers: a random block repeated (keeps generation cheap)
		blk := g.fill(509, false)
		for len(out)+len(blk) <= n {
			out = append(out, blk...)
		}
		if allowCR && len(out) > 10 {
			for i := 0; i < 3; i++ {
				out[1+g.r.IntN(len(out)-2)] = '\r'
			}
		}
		return append(out, g.fill(n-len(out), false)...)
	}
	multi := g.r.IntN(3) == 0
	for len(out) < n {
		if multi && g.r.IntN(4) == 0 {
			s := fillRunes[g.r.IntN(len(fillRunes))]
			if len(out)+len(s) <= n {
				out = append(out, s...)
				continue
			}
		}
		out = append(out, ascii[g.r.IntN(len(ascii))])
	}
	if allowCR && n > 3 && g.r.IntN(2) == 0 {
		out[1+g.r.IntN(n-2)] = '\r' // never the last byte: it would merge with the terminator
	}
	return out
}

func spaces(n int) []byte { return bytes.Repeat([]byte{' '}, n) }

var zones = []*time.Location{time.UTC, time.FixedZone("", 3*3600), time.FixedZone("", -(7*3600 + 1800)), time.FixedZone("", 0)}

var unparsable = []string{`"yesterday"`, `"2024-13-45 99:99:99"`, `1700000000`, `null`, `true`, `{"a":1}`, `[]`,
	`"2024-01-02T03:04:05"`, `"12:00"`, `" "`, `"0"`, `"2024-01-02 03:04:05,123"`, `"2024-01-02T03:04:05+0300"`,
	`"24-01-02 03:04:05"`, `"2024-01-02_03:04:05"`, `1.7e9`, `"now"`}

var timeNames = []string{"timestamp", "time", "ts"}

// pickFormats fixes the concrete format of every parsable time field of the body
func (g *gen) pickFormats(c *Case) (anyRFC bool) {
	for li := range c.Lines {
		for fi := range c.Lines[li].Tm {
			f := &c.Lines[li].Tm[fi]
			if f.K != "val" {
				continue
			}
			if f.Fmt == "any" || f.Fmt == "" {
				f.Fmt = []string{"es", "nano", "rfc"}[g.r.IntN(3)]
			}
			if f.Fmt == "rfc" {
				anyRFC = true
			}
		}
	}
	return
}

func (g *gen) timeValue(f TmField, tref time.Time) string {
	t := tref.Add(time.Duration(f.Off) * tick)
	var s string
	switch f.Fmt {
	case "es":
		t = t.UTC()
		s = t.Format("2006-01-02 15:04:05")
		ms := t.Nanosecond() / 1e6
		switch g.r.IntN(4) {
		case 0:
			if ms != 0 {
				s += fmt.Sprintf(".%03d", ms)
			}
		case 1:
			s += fmt.Sprintf(".%03d", ms)
		case 2:
			s += fmt.Sprintf(".%03d000", ms)
		default:
			s += fmt.Sprintf(".%03d000000", ms)
		}
	case "nano":
		t = t.In(zones[g.r.IntN(len(zones))])
		layout := []string{time.RFC3339Nano, "2006-01-02T15:04:05.000Z07:00", "2006-01-02T15:04:05.000000Z07:00",
			"2006-01-02T15:04:05.000000000Z07:00"}[g.r.IntN(4)]
		s = t.Format(layout)
	default: // rfc
		t = t.In(zones[g.r.IntN(len(zones))])
		s = t.Format(time.RFC3339)
	}
	if g.r.IntN(20) == 0 {
		s = strings.Replace(s, ":", `\u003a`, 1) // an escaped character: still the same JSON string value
	}
	return `"` + s + `"`
}

var extras = []string{
	`"k":"Value-UPPER"`, `"level":3`, `"t":"Hello WORLD Ünïcode ΑΒΓ İstanbul Ⱥ K"`, `"p":"/A/B/c.TXT"`,
	`"msg":"line1\nline2 \"quoted\" \t tab \\ back é 😀"`, `"n":[{"a":"X"},{"a":"Y"}]`,
	`"o":{"x":"Y","ts":"2001-02-03T04:05:06Z"}`, `"tags":[{"key":"a","value":"B"}]`, `"big":12345678901234567890123`,
	`"f":-1.5e+10`, `"b":true`, `"z":null`, `"arr":[1,[2,[3,[4]]]]`, `"deep":{"a":{"b":{"c":{"d":{}}}}}`, `"":"emptykey"`,
	`"dup":1,"dup":2`, `"é":"ключ"`, `"sp" : "spaces around" `, `"emoji":"😀"`, `"ctrl":"\u0000"`, `"ex":"Present"`,
	`"k":""`, `"t":"MiXeD CaSe ТЕКСТ"`, `"Time":"2001-02-03T04:05:06Z"`, `"TS":"x"`, `"slash":"\/"`,
}

// object builds a JSON object of exactly L bytes carrying the given time fields
func (g *gen) object(l Line, L int, tparts []string) []byte {
	if L == 2 {
		return []byte("{}")
	}
	parts := append([]string(nil), tparts...)
	size := func(ps []string) int {
		n := 2
		for i, p := range ps {
			n += len(p)
			if i > 0 {
				n++
			}
		}
		return n
	}
	if L <= maxDoc*4 { // extras only make sense in documents that may be stored
		for tries := 0; tries < 6; tries++ {
			e := extras[g.r.IntN(len(extras))]
			dupKey := false
			for _, p := range parts {
				if strings.HasPrefix(p, e[:strings.Index(e[1:], `"`)+2]) {
					dupKey = true
				}
			}
			if !dupKey && size(append(parts, e)) <= L {
				parts = append(parts, e)
			}
		}
	}
	g.r.Shuffle(len(parts), func(i, j int) { parts[i], parts[j] = parts[j], parts[i] })
	rem := L - size(parts)
	need := 7 // ,"q":""
	if len(parts) == 0 {
		need = 6
	}
	if rem >= need && g.r.IntN(4) != 0 {
		parts = append(parts, `"q":"`+string(g.fill(rem-need, false))+`"`)
		rem = 0
	}
	var b bytes.Buffer
	lead, tail, inner := 0, 0, rem
	if rem > 0 {
		switch g.r.IntN(3) {
		case 0:
			lead = g.r.IntN(rem + 1)
			inner = rem - lead
		case 1:
			tail = g.r.IntN(rem + 1)
			inner = rem - tail
		}
	}
	b.Write(spaces(lead))
	b.WriteByte('{')
	b.WriteString(strings.Join(parts, ","))
	b.Write(spaces(inner))
	b.WriteByte('}')
	b.Write(spaces(tail))
	return b.Bytes()
}

func (g *gen) action(word string, L int) []byte {
	base := `{"` + word + `":{}}`
	switch {
	case L < len(base):
		return nil
	case L >= len(base)+8 && g.r.IntN(3) != 0:
		return []byte(`{"` + word + `":{"_id":"` + string(g.fill(L-len(base)-8, false)) + `"}}`)
	default:
		return []byte(`{"` + word + `":{` + string(spaces(L-len(base))) + `}}`)
	}
}

func (g *gen) nonObject(L int) []byte {
	switch L {
	case 1:
		return []byte{"7059"[g.r.IntN(4)]}
	case 2:
		return []byte([]string{`[]`, `""`, `42`, `-1`}[g.r.IntN(4)])
	case 3:
		return []byte([]string{`[1]`, `"a"`, `123`, `0.5`}[g.r.IntN(4)])
	}
	switch g.r.IntN(5) {
	case 0:
		return []byte(`"` + string(g.fill(L-2, false)) + `"`)
	case 1:
		return []byte(`["` + string(g.fill(L-4, false)) + `"]`)
	case 2:
		w := []string{"null", "true", "false"}[g.r.IntN(3)]
		if len(w) <= L {
			return append([]byte(w), spaces(L-len(w))...)
		}
		return []byte(`"` + string(g.fill(L-2, false)) + `"`)
	case 3:
		if L <= 15 {
			b := make([]byte, L)
			for i := range b {
				b[i] = byte('1' + g.r.IntN(9))
			}
			return b
		}
		return []byte(`[1,2,"` + string(g.fill(L-8, false)) + `"]`)
	default:
		if L < 10 {
			return []byte(`"` + string(g.fill(L-2, false)) + `"`)
		}
		return []byte(`[{"a":"` + string(g.fill(L-10, false)) + `"}]`)
	}
}

// notJSON: rejected by every JSON parser (structure broken)
func (g *gen) notJSON(L int, over bool) []byte {
	switch L {
	case 1:
		return []byte{"{}[x\" "[g.r.IntN(6)]}
	case 2:
		return []byte([]string{`{]`, `{{`, `xx`, `{"`, `}{`, `  `}[g.r.IntN(6)])
	}
	type tpl struct {
		pre, post string
	}
	tpls := []tpl{{`{"p":"`, ``}, {`{"p":"`, `"}}`}, {`{"p":"`, `"]`}, {`{'p':'`, `'}`}, {`{p:"`, `"}`}, {`x`, ``},
		{`{"p":"`, `","a":tru}`}, {`{"p":"`, `" "a":1}`}, {`["`, `"`}, {`{"p":"`, `"}x`}, {`{"p":"`, `"}{"a":1}`}}
	if g.r.IntN(12) == 0 {
		return spaces(L)
	}
	for {
		t := tpls[g.r.IntN(len(tpls))]
		if len(t.pre)+len(t.post) <= L {
			return []byte(t.pre + string(g.fill(L-len(t.pre)-len(t.post), over)) + t.post)
		}
	}
}

// laxJSON: not JSON by RFC 8259, but only lexically (token structure intact)
func (g *gen) laxJSON(L int) []byte {
	vals := []string{`01`, `1.`, `+1`, `.5`, `-`, `1.2.3`, `1e`, `--1`, `00`, `-01`, `"\x"`, "\"\x01\"", "\"a\tb\"", `"\u12"`}
	for tries := 0; tries < 50; tries++ {
		v := vals[g.r.IntN(len(vals))]
		short := `{"a":` + v + `}`
		long := `{"a":` + v + `,"q":""}`
		switch {
		case g.r.IntN(6) == 0 && L >= 10:
			// garbage after the closing brace, separated by white space
			return []byte(`{"q":"` + string(g.fill(L-10, false)) + `"} x`)
		case L >= len(long):
			return []byte(`{"a":` + v + `,"q":"` + string(g.fill(L-len(long), false)) + `"}`)
		case L >= len(short):
			return append([]byte(short), spaces(L-len(short))...)
		}
	}
	return nil
}

var minLen = map[string]int{"ac": 13, "ai": 12, "ao": 13, "bl": 0, "obj": 2, "non": 1, "bad": 1, "lax": 7}

// realLen maps a model length (M = c.M) to a real one (M = maxDoc) keeping every comparison of
// len + terminator with multiples of M: residues 0,1,2 and M-2,M-1 are kept, the others are "any".
func (g *gen) realLen(modelLen, m, lo int) (int, bool) {
	k, r := modelLen/m, modelLen%m
	var rr int
	switch {
	case r <= 2:
		rr = r
	case r >= m-2:
		rr = maxDoc - (m - r)
	default:
		low, hi := 3, maxDoc-3
		if k == 0 && lo > low {
			low = lo
		}
		if low > hi {
			return 0, false
		}
		if g.r.IntN(3) == 0 {
			rr = low + g.r.IntN(min(hi-low+1, 48))
		} else {
			rr = low + g.r.IntN(hi-low+1)
		}
	}
	L := k*maxDoc + rr
	if L < lo {
		return 0, false
	}
	return L, true
}

// line returns the concrete bytes of one line (without terminator); nil, false if the class cannot
// be realised at this size with this max-document-size
func (g *gen) line(l Line, m int, tref time.Time) ([]byte, bool) {
	lo := minLen[l.C]
	var tparts []string
	if l.C == "obj" {
		for i, f := range l.Tm {
			switch f.K {
			case "val":
				tparts = append(tparts, `"`+timeNames[i]+`":`+g.timeValue(f, tref))
			case "unp":
				tparts = append(tparts, `"`+timeNames[i]+`":`+unparsable[g.r.IntN(len(unparsable))])
			case "stamp":
				// the specification's text, verbatim (its characters need no JSON escaping)
				v := strings.Join(f.Text, "")
				if g.r.IntN(20) == 0 {
					v = strings.Replace(v, ":", `\u003a`, 1) // an escaped character: still the same JSON string value
				}
				tparts = append(tparts, `"`+timeNames[i]+`":"`+v+`"`)
			default:
				if r := l.Len % m; (l.Len > m || (r > 2 && r < m-2)) && g.r.IntN(4) == 0 {
					tparts = append(tparts, `"`+timeNames[i]+`":""`)
				}
			}
		}
		if len(tparts) > 0 {
			lo = 1 + len(tparts)
			for _, p := range tparts {
				lo += len(p)
			}
		}
	}
	L, ok := g.realLen(l.Len, m, lo)
	if !ok {
		return nil, false
	}
	var b []byte
	switch l.C {
	case "bl":
		b = []byte{}
	case "ac":
		b = g.action("create", L)
	case "ai":
		b = g.action("index", L)
	case "ao":
		b = g.action([]string{"delete", "update"}[g.r.IntN(2)], L)
	case "obj":
		b = g.object(l, L, tparts)
	case "non":
		b = g.nonObject(L)
	case "bad":
		b = g.notJSON(L, L > maxDoc)
	case "lax":
		b = g.laxJSON(L)
	}
	if b == nil || len(b) != L {
		return nil, false
	}
	return b, true
}

// ---------------------------------------------------------------- transport

type chunkReader struct {
	r   io.Reader
	rng *rand.Rand
	max int
}

func (c *chunkReader) Read(p []byte) (int, error) {
	n := 1 + c.rng.IntN(c.max)
	if n > len(p) {
		n = len(p)
	}
	return c.r.Read(p[:n])
}

// ---------------------------------------------------------------- one case

type gotDoc struct {
	Line int    `json:"line"` // index (1-based) of the sent line with these bytes, 0 = none
	Len  int    `json:"len"`
	MID  uint64 `json:"mid"`
	Head string `json:"head,omitempty"`
}

type result struct {
	Status int      `json:"status"`
	Items  int      `json:"items"`
	Calls  int      `json:"calls"`
	Docs   []gotDoc `json:"docs"`
	Err    string   `json:"err,omitempty"`
}

func decodePayload(c call) (docs [][]byte, metas []frac.MetaData, err error) {
	defer func() {
		if r := recover(); r != nil {
			err = fmt.Errorf("payload cannot be decoded: %v", r)
		}
	}()
	bd, err := disk.DocBlock(c.docs).DecompressTo(nil)
	if err != nil {
		return nil, nil, fmt.Errorf("docs block: %w", err)
	}
	u := packer.NewBytesUnpacker(bd)
	for u.Len() > 0 {
		docs = append(docs, u.GetBinary())
	}
	bm, err := disk.DocBlock(c.metas).DecompressTo(nil)
	if err != nil {
		return nil, nil, fmt.Errorf("metas block: %w", err)
	}
	if disk.DocBlock(c.metas).GetExt1() != uint64(len(c.docs)) {
		return nil, nil, fmt.Errorf("metas block ext1=%d, docs block has %d bytes", disk.DocBlock(c.metas).GetExt1(), len(c.docs))
	}
	u = packer.NewBytesUnpacker(bm)
	for u.Len() > 0 {
		var m frac.MetaData
		if err := m.UnmarshalBinary(u.GetBinary()); err != nil {
			return nil, nil, fmt.Errorf("meta: %w", err)
		}
		m.Tokens = append([]frac.MetaToken(nil), m.Tokens...)
		metas = append(metas, m)
	}
	return docs, metas, nil
}

type stats struct {
	evals, nontrivial, infeasible, late, implAgree, e2e, gz, stored int
}

func head(b []byte) string {
	if len(b) > 96 {
		return strconv.QuoteToASCII(string(b[:96])) + "..."
	}
	return strconv.QuoteToASCII(string(b))
}

// runCase returns a disagreement (nil if none)
func runCase(n int, c *Case, st *stats) map[string]any {
	idx := n
	if c.Idx != nil {
		idx = *c.Idx
	}
	g := &gen{r: rand.New(rand.NewPCG(seed, uint64(idx)*2654435761+uint64(maxDoc)))}
	anyRFC := g.pickFormats(c)
	tref := time.Now()
	if anyRFC || tick%time.Second != 0 || g.r.IntN(2) == 0 {
		tref = tref.Truncate(time.Second)
	} else {
		tref = tref.Truncate(time.Millisecond)
	}
	lines := make([][]byte, len(c.Lines))
	var body bytes.Buffer
	for i, l := range c.Lines {
		b, ok := g.line(l, c.M, tref)
		if !ok {
			st.infeasible++
			return nil
		}
		lines[i] = b
		body.Write(b)
		switch l.T {
		case 1:
			body.WriteByte('\n')
		case 2:
			body.WriteString("\r\n")
		}
	}
	raw := body.Bytes()
	var rd io.Reader = bytes.NewReader(raw)
	useGz := c.GzipOK && !c.EofData && g.r.IntN(3) == 0
	if useGz {
		// a gzip body is a sequence of members (RFC 1952, 2.2) and decodes to their concatenation: half of the gzip
		// requests are cut into 2-3 members at arbitrary bytes (in the middle of a line too), an empty member included
		var zb bytes.Buffer
		cuts := []int{len(raw)}
		if len(raw) > 0 && g.r.IntN(2) == 0 {
			cuts = nil
			for k := g.r.IntN(2) + 1; k > 0; k-- {
				cuts = append(cuts, g.r.IntN(len(raw)+1))
			}
			sort.Ints(cuts)
			cuts = append(cuts, len(raw))
		}
		prev := 0
		for _, cut := range cuts {
			zw, _ := gzip.NewWriterLevel(&zb, 1+g.r.IntN(9))
			zw.Write(raw[prev:cut])
			zw.Close()
			prev = cut
		}
		rd = bytes.NewReader(zb.Bytes())
		st.gz++
	}
	chunk := g.r.IntN(5)
	switch chunk {
	case 1:
		if len(raw) < 1<<16 {
			rd = iotest.OneByteReader(rd)
		}
	case 2:
		rd = &chunkReader{rd, g.r, 7}
	case 3:
		rd = &chunkReader{rd, g.r, maxDoc + 3}
	case 4:
		rd = iotest.HalfReader(rd)
	}
	if c.EofData {
		rd = iotest.DataErrReader(rd)
	}
	cp := &capture{}
	req := httptest.NewRequest("POST", "/_bulk", rd)
	if useGz {
		req.Header.Set("Content-Encoding", "gzip")
	}
	req = req.WithContext(context.WithValue(req.Context(), ctxKey{}, cp))
	w := httptest.NewRecorder()
	tb := time.Now()
	handler.ServeHTTP(w, req)
	ta := time.Now()
	late := ta.Sub(tref) >= 2*tick
	if late {
		st.late++
	}

	// ---- observe
	got := result{Status: w.Code, Calls: len(cp.calls)}
	var docs [][]byte
	var metas []frac.MetaData
	var problems []string
	if w.Code == 200 {
		var resp struct {
			Took   *int64            `json:"took"`
			Errors *bool             `json:"errors"`
			Items  []json.RawMessage `json:"items"`
		}
		if err := json.Unmarshal(w.Body.Bytes(), &resp); err != nil || resp.Errors == nil {
			problems = append(problems, "response body is not the bulk answer: "+head(w.Body.Bytes()))
		} else {
			got.Items = len(resp.Items)
			if *resp.Errors {
				problems = append(problems, "response says errors=true")
			}
			for _, it := range resp.Items {
				if string(it) != `{"create":{"status":201}}` {
					problems = append(problems, "unexpected item "+head(it))
					break
				}
			}
		}
	}
	total := 0
	for _, cl := range cp.calls {
		d, m, err := decodePayload(cl)
		if err != nil {
			problems = append(problems, err.Error())
			continue
		}
		if cl.count != len(d) {
			problems = append(problems, fmt.Sprintf("StoreDocuments count=%d but the docs block holds %d documents", cl.count, len(d)))
		}
		total += cl.count
		docs = append(docs, d...)
		metas = append(metas, m...)
	}
	// metadata of document j = j-th meta with Size > 0; nested metas (Size 0) follow their parent and share its ID
	var main []frac.MetaData
	for _, m := range metas {
		if len(m.Tokens) == 0 || string(m.Tokens[0].Key) != string(seq.AllTokenName) {
			problems = append(problems, "meta without leading _all_ token")
		}
		if m.Size > 0 {
			main = append(main, m)
		} else if len(main) == 0 || main[len(main)-1].ID != m.ID {
			problems = append(problems, "nested meta does not follow a parent with the same ID")
		}
	}
	if len(main) != len(docs) {
		problems = append(problems, fmt.Sprintf("%d documents but %d document metas", len(docs), len(main)))
	}
	from := 0
	for j, d := range docs {
		gd := gotDoc{Len: len(d)}
		for i := from; i < len(lines); i++ {
			if bytes.Equal(lines[i], d) {
				gd.Line = i + 1
				from = i + 1
				break
			}
		}
		if gd.Line == 0 {
			gd.Head = head(d)
		}
		if j < len(main) {
			gd.MID = uint64(main[j].ID.MID)
			if int(main[j].Size) != len(d) {
				problems = append(problems, fmt.Sprintf("meta size %d for a document of %d bytes", main[j].Size, len(d)))
			}
		}
		got.Docs = append(got.Docs, gd)
	}

	// ---- compare with the outcomes the specification allows
	match := func(o Outcome) string {
		if o.St == "rej" {
			if w.Code >= 200 && w.Code < 300 {
				return "request must be rejected, got status " + strconv.Itoa(w.Code)
			}
			if len(cp.calls) != 0 {
				return "rejected request reached StoreDocuments"
			}
			return ""
		}
		if w.Code != 200 {
			return fmt.Sprintf("request must be accepted, got status %d: %s", w.Code, head(w.Body.Bytes()))
		}
		if len(cp.calls) > 1 {
			return "more than one StoreDocuments call"
		}
		if len(docs) != len(o.Docs) {
			return fmt.Sprintf("stored %d documents, expected %d", len(docs), len(o.Docs))
		}
		if got.Items != len(o.Docs) {
			return fmt.Sprintf("response lists %d items, expected %d", got.Items, len(o.Docs))
		}
		for j, e := range o.Docs {
			if !bytes.Equal(docs[j], lines[e.I-1]) {
				return fmt.Sprintf("stored document %d is not line %d verbatim", j+1, e.I)
			}
		}
		if late || len(main) != len(docs) {
			return ""
		}
		for j, e := range o.Docs {
			mid := int64(main[j].ID.MID)
			ownMid := tref.UnixMilli() + int64(e.Off)*tick.Milliseconds()
			if len(e.Abs) == 2 {
				ownMid = e.Abs[0]*86400000 + e.Abs[1]
			}
			own := mid == ownMid
			recv := tb.UnixMilli() <= mid && mid <= ta.UnixMilli()
			switch {
			case e.Tv == "doc" && !own:
				return fmt.Sprintf("ID of stored document %d (line %d) must carry its own %s (offset %d ticks): mid=%d own=%d request=[%d,%d]",
					j+1, e.I, timeNames[e.Fld-1], e.Off, mid, ownMid, tb.UnixMilli(), ta.UnixMilli())
			case e.Tv == "recv" && !recv:
				return fmt.Sprintf("ID of stored document %d (line %d) must carry the receive time: mid=%d request=[%d,%d]",
					j+1, e.I, mid, tb.UnixMilli(), ta.UnixMilli())
			case e.Tv == "either" && !own && !recv:
				return fmt.Sprintf("ID of stored document %d (line %d) carries neither its own nor the receive time: mid=%d", j+1, e.I, mid)
			}
		}
		return ""
	}
	st.evals++
	why := ""
	if len(problems) > 0 {
		why = strings.Join(problems, "; ")
	} else {
		// explain with the closest allowed outcome: same status class, then same number of documents
		best, bestScore := "", -1
		why = ""
		for _, o := range c.Allowed {
			r := match(o)
			if r == "" {
				best = ""
				break
			}
			score := 0
			if (o.St == "ok") == (w.Code == 200) {
				score = 1
				if len(o.Docs) == len(docs) {
					score = 2
					if strings.HasPrefix(r, "ID of") {
						score = 3 // documents agree, only the time differs
					}
				}
			}
			if score > bestScore {
				best, bestScore = r, score
			}
		}
		if best != "" {
			why = best
			if len(c.Allowed) > 1 {
				why += fmt.Sprintf(" (nor any of the %d other allowed outcomes)", len(c.Allowed)-1)
			}
		}
	}
	if r := match(c.Impl); r == "" {
		st.implAgree++
	} else if showInfidelity && why == "" {
		// allowed by the property but not what the transcription of the pinned code predicts
		emit(map[string]any{"infidelity": n, "reason": r, "got": got, "impl": c.Impl, "case": c.Lines, "max": maxDoc, "eofdata": c.EofData})
	}
	if w.Code == 200 && len(docs) > 0 {
		st.nontrivial++
		st.stored += len(docs)
	}

	// ---- end to end: the captured payload goes into a real store and every document is fetched back by its ID
	if why == "" && store != nil && len(cp.calls) == 1 && len(main) == len(docs) && len(docs) > 0 && n%e2eEach == 0 {
		storeMu.Lock()
		err := store.FM().Append(context.Background(), disk.DocBlock(cp.calls[0].docs), disk.DocBlock(cp.calls[0].metas))
		if err == nil {
			store.WaitIdle()
			ids := make([]seq.ID, len(main))
			for j := range main {
				ids[j] = main[j].ID
			}
			var fetched [][]byte
			fetched, _, err = store.Fetch(ids, nil)
			if err == nil {
				if len(fetched) != len(docs) {
					why = fmt.Sprintf("end-to-end: fetched %d documents for %d IDs", len(fetched), len(docs))
				}
				for j := range fetched {
					if why == "" && !bytes.Equal(fetched[j], docs[j]) {
						why = fmt.Sprintf("end-to-end: document %d fetched by ID differs from the stored line: %s", j+1, head(fetched[j]))
					}
				}
			}
		}
		storeMu.Unlock()
		if err != nil {
			why = "end-to-end: " + err.Error()
		}
		st.e2e++
	}
	if why == "" {
		return nil
	}
	if w.Code != 200 {
		got.Err = head(bytes.TrimSpace(w.Body.Bytes()))
	}
	concrete := make([]string, len(lines))
	for i, b := range lines {
		concrete[i] = head(b) + fmt.Sprintf(" (%d bytes, term %d)", len(b), c.Lines[i].T)
	}
	return map[string]any{"n": n, "what": why, "got": got, "exp": c.Allowed, "dev": c.Dev, "max": maxDoc, "seed": seed, "idx": idx,
		"gzip": useGz, "chunking": chunk, "eofdata": c.EofData, "lines": concrete}
}

func main() {
	progress := flag.Bool("progress", false, "")
	workers := flag.Int("workers", 1, "")
	flag.IntVar(&maxDoc, "max", 256, "max-document-size of this process (esBulkDocReaderPool is process-global)")
	tickMs := flag.Int("tick", 1000, "milliseconds per model tick")
	flag.IntVar(&e2eEach, "e2e", 0, "append every n-th stored payload to a real store and fetch it back (0 = off)")
	flag.BoolVar(&showInfidelity, "infidelity", false, "also print cases where the code is allowed but differs from the as-is transcription")
	flag.Parse()
	tick = time.Duration(*tickMs) * time.Millisecond
	seed = 1
	if s := os.Getenv("VERIF_SEED"); s != "" {
		if v, err := strconv.ParseUint(s, 10, 64); err == nil {
			seed = v
		}
	}
	if *progress {
		*workers = 1
	}
	logger.SetLevel(zapcore.FatalLevel)

	sc := bufio.NewScanner(os.Stdin)
	sc.Buffer(make([]byte, 1<<20), 1<<26)
	var raw []string
	for sc.Scan() {
		if ln := sc.Text(); strings.HasPrefix(ln, "{") {
			raw = append(raw, ln)
		}
	}
	if len(raw) == 0 {
		emit(map[string]any{"summary": true, "cases": 0, "evals": 0, "nontrivial": 0, "corpora": 0})
		return
	}
	var first Case
	if err := json.Unmarshal([]byte(raw[0]), &first); err != nil {
		emit(map[string]any{"infra": "bad case " + err.Error()})
		os.Exit(3)
	}
	if ck := first.Clock; ck != nil {
		// the stamp stage decided its window for a tick of ck.TickDays days and a clock inside [NowLo, NowHi]
		today := time.Now().Unix() / 86400
		if tick != time.Duration(ck.TickDays)*24*time.Hour {
			emit(map[string]any{"infra": fmt.Sprintf("stamp cases need -tick %d (one tick = %d days)", ck.TickDays*86400000, ck.TickDays)})
			os.Exit(3)
		}
		if today < ck.NowLo || today > ck.NowHi {
			emit(map[string]any{"infra": fmt.Sprintf("stamp cases were decided for a clock in days [%d,%d], today is %d: adjust NowLoDay/NowHiDay in BulkIngest.tla", ck.NowLo, ck.NowHi, today)})
			os.Exit(3)
		}
	}
	mp, err := mappingprovider.New("", mappingprovider.WithMapping(mapping))
	if err != nil {
		emit(map[string]any{"infra": "mapping: " + err.Error()})
		os.Exit(3)
	}
	ing := bulk.NewIngestor(bulk.IngestorConfig{
		MaxInflightBulks:       *workers + 2,
		AllowedTimeDrift:       time.Duration(first.Drift) * tick,
		FutureAllowedTimeDrift: time.Duration(first.Future) * tick,
		MappingProvider:        mp,
		MaxTokenSize:           72,
		CaseSensitive:          false,
		PartialFieldIndexing:   true,
		DocsZSTDCompressLevel:  1,
		MetasZSTDCompressLevel: 1,
		MaxDocumentSize:        maxDoc,
	}, capClient{})
	defer ing.Stop()
	handler = proxyapi.NewBulkHandler(ing, maxDoc)
	if e2eEach > 0 {
		store, err = env.New(env.Opts{SkipFsync: true})
		if err != nil {
			emit(map[string]any{"infra": "store: " + err.Error()})
			os.Exit(3)
		}
		defer store.Close()
	}

	seen := map[[20]byte]bool{}
	var seenMu sync.Mutex
	tot := stats{}
	distinct := 0
	var totMu sync.Mutex
	jobs := make(chan int, 256)
	var wg sync.WaitGroup
	for wk := 0; wk < *workers; wk++ {
		wg.Add(1)
		go func() {
			defer wg.Done()
			st := stats{}
			dn := 0
			for n := range jobs {
				var c Case
				if err := json.Unmarshal([]byte(raw[n]), &c); err != nil {
					emit(map[string]any{"infra": "bad case " + err.Error()})
					os.Exit(3)
				}
				if c.Drift != first.Drift || c.Future != first.Future {
					emit(map[string]any{"infra": "cases with different drifts in one run"})
					os.Exit(3)
				}
				if *progress {
					emit(map[string]any{"begin": n})
				}
				before := st.nontrivial
				if m := runCase(n, &c, &st); m != nil {
					emit(m)
				}
				if st.nontrivial > before {
					h := sha1.Sum([]byte(raw[n]))
					seenMu.Lock()
					if !seen[h] {
						seen[h] = true
						dn++
					}
					seenMu.Unlock()
				}
				if *progress {
					emit(map[string]any{"end": n})
				}
			}
			totMu.Lock()
			tot.evals += st.evals
			tot.infeasible += st.infeasible
			tot.late += st.late
			tot.implAgree += st.implAgree
			tot.e2e += st.e2e
			tot.gz += st.gz
			tot.stored += st.stored
			distinct += dn
			totMu.Unlock()
		}()
	}
	for n := range raw {
		jobs <- n
	}
	close(jobs)
	wg.Wait()
	emit(map[string]any{"summary": true, "cases": len(raw), "evals": tot.evals, "nontrivial": distinct, "corpora": 0,
		"infeasible": tot.infeasible, "late": tot.late, "impl_agree": tot.implAgree, "e2e": tot.e2e, "gzip": tot.gz,
		"stored_docs": tot.stored, "max": maxDoc})
}
