// qref replays CASE lines emitted by the TLA+ *Cases modules (SearchCases, AggCases, FetchCases, ...)
// into a real seq-db store and compares the engine's answers with the specification's.
//
// stdin : one JSON case per line {"corpus":[...], "q":{...}, "exp":{...}} (kind given by -kind)
// stdout: one JSON line per disagreement, then {"summary":...}
package main

import (
	"bufio"
	"encoding/json"
	"flag"
	"fmt"
	"os"
	"reflect"
	"strings"
	"sync"
	"sync/atomic"

	"verifharness/cases"
	"verifharness/env"
)

type Query struct {
	AST       *cases.AST `json:"ast"`
	From      uint64     `json:"from"`
	To        uint64     `json:"to"`
	Order     string     `json:"order"`
	Limit     int        `json:"limit"`
	WithTotal bool       `json:"withTotal"`
}

type Exp struct {
	IDs   []struct{ Mid, Rid uint64 } `json:"ids"`
	Total uint64                      `json:"total"`
}

type Case struct {
	N      int             `json:"-"`
	Corpus json.RawMessage `json:"corpus"`
	Q      Query           `json:"q"`
	Exp    Exp             `json:"exp"`
	raw    string
}

type Mismatch struct {
	N    int             `json:"n"`
	Form string          `json:"form"`
	Path string          `json:"path"`
	What string          `json:"what"`
	Got  any             `json:"got"`
	Exp  any             `json:"exp"`
	Case json.RawMessage `json:"case"`
}

var (
	forms   = flag.String("forms", "active,sealed", "comma list of active,sealed,reloaded")
	paths   = flag.String("paths", "ast,seqql", "comma list of ast,seqql")
	workers = flag.Int("workers", 8, "parallel corpora")
	serial  = flag.Bool("progress", false, "print begin/end markers (crash attribution)")
	outMu   sync.Mutex
	evals   atomic.Int64
	nontriv atomic.Int64
)

func emit(v any) {
	b, _ := json.Marshal(v)
	outMu.Lock()
	os.Stdout.Write(append(b, '\n'))
	outMu.Unlock()
}

func expIDs(e Exp) [][2]uint64 {
	out := make([][2]uint64, 0, len(e.IDs))
	for _, x := range e.IDs {
		out = append(out, [2]uint64{x.Mid, rid(x.Rid)})
	}
	return out
}

var wide = flag.Bool("wide", false, "random parts spread over the whole uint64 range (cases.Widen)")

func rid(r uint64) uint64 {
	if *wide {
		return cases.Widen(r)
	}
	return r
}

func sameIDs(a, b [][2]uint64) bool {
	if len(a) == 0 && len(b) == 0 {
		return true
	}
	return reflect.DeepEqual(a, b)
}

func runGroup(group []*Case) {
	var docs []cases.Doc
	if err := json.Unmarshal(group[0].Corpus, &docs); err != nil {
		emit(map[string]any{"infra": "bad corpus: " + err.Error()})
		return
	}
	e, err := env.New(env.Opts{SkipFsync: true})
	if err != nil {
		emit(map[string]any{"infra": "env: " + err.Error()})
		return
	}
	defer e.Close()
	edocs := cases.EnvDocs(docs)
	for i := range edocs {
		edocs[i].RID = rid(edocs[i].RID)
	}
	// arrival: the corpus order; bulking alternates by corpus length parity + first rid
	oneBulk := len(edocs) > 0 && (edocs[0].RID+uint64(len(edocs)))%2 == 0
	if oneBulk {
		err = e.Bulk(edocs)
	} else {
		for _, d := range edocs {
			if err = e.Bulk([]env.Doc{d}); err != nil {
				break
			}
		}
	}
	if err != nil {
		emit(map[string]any{"infra": "bulk: " + err.Error()})
		return
	}
	e.WaitIdle()
	for _, form := range strings.Split(*forms, ",") {
		switch form {
		case "active":
		case "sealed":
			e.Seal()
		case "reloaded":
			if err := e.Restart(); err != nil {
				emit(Mismatch{N: group[0].N, Form: form, What: "restart failed: " + err.Error(), Case: json.RawMessage(group[0].raw)})
				return
			}
		}
		for _, c := range group {
			if *serial {
				emit(map[string]any{"begin": c.N, "form": form})
			}
			runCase(e, c, form)
			if *serial {
				emit(map[string]any{"end": c.N, "form": form})
			}
		}
	}
}

func runCase(e *env.Env, c *Case, form string) {
	p := env.Params{From: c.Q.From, To: c.Q.To, Limit: c.Q.Limit, Order: c.Q.Order, WithTotal: c.Q.WithTotal}
	exp := expIDs(c.Exp)
	if c.Exp.Total > 0 && int(c.Exp.Total) < 99 {
		nontriv.Add(1)
	}
	for _, path := range strings.Split(*paths, ",") {
		var got [][2]uint64
		var total uint64
		switch path {
		case "ast":
			ast, err := c.Q.AST.Build()
			if err != nil {
				emit(map[string]any{"infra": err.Error()})
				return
			}
			r, err := e.SearchAST(ast, p)
			if err != nil {
				emit(Mismatch{N: c.N, Form: form, Path: path, What: "error: " + err.Error(), Case: json.RawMessage(c.raw)})
				continue
			}
			got, total = r.IDs, r.Total
		case "seqql":
			if c.Q.AST.HasNand() {
				continue
			}
			q := c.Q.AST.SeqQL()
			resp, err := e.SearchQL(q, p)
			if err != nil {
				emit(Mismatch{N: c.N, Form: form, Path: path, What: "error: " + err.Error() + " query=" + q, Case: json.RawMessage(c.raw)})
				continue
			}
			got, total = env.RespIDs(resp), resp.Total
		}
		evals.Add(1)
		if !sameIDs(got, exp) {
			emit(Mismatch{N: c.N, Form: form, Path: path, What: "ids", Got: got, Exp: exp, Case: json.RawMessage(c.raw)})
		} else if c.Q.WithTotal && total != c.Exp.Total {
			emit(Mismatch{N: c.N, Form: form, Path: path, What: "total", Got: total, Exp: c.Exp.Total, Case: json.RawMessage(c.raw)})
		}
	}
}

func main() {
	flag.Parse()
	os.Setenv("LOG_LEVEL", "fatal")
	sc := bufio.NewScanner(os.Stdin)
	sc.Buffer(make([]byte, 1<<20), 1<<26)
	var groups [][]*Case
	idx := map[string]int{}
	n := 0
	for sc.Scan() {
		line := sc.Text()
		if !strings.HasPrefix(line, "{") {
			continue
		}
		c := &Case{raw: line}
		if err := json.Unmarshal([]byte(line), c); err != nil {
			emit(map[string]any{"infra": "bad case: " + err.Error()})
			os.Exit(3)
		}
		c.N = n
		n++
		key := string(c.Corpus)
		gi, ok := idx[key]
		if !ok {
			gi = len(groups)
			idx[key] = gi
			groups = append(groups, nil)
		}
		groups[gi] = append(groups[gi], c)
	}
	ch := make(chan []*Case)
	var wg sync.WaitGroup
	w := *workers
	if *serial {
		w = 1
	}
	for i := 0; i < w; i++ {
		wg.Add(1)
		go func() {
			defer wg.Done()
			for g := range ch {
				runGroup(g)
			}
		}()
	}
	for _, g := range groups {
		ch <- g
	}
	close(ch)
	wg.Wait()
	emit(map[string]any{"summary": true, "cases": n, "corpora": len(groups), "evals": evals.Load(), "nontrivial": nontriv.Load()})
	fmt.Fprintln(os.Stderr, "qref done", n, "cases")
}
