// Package cases decodes what the TLA+ case modules emit (strings are arrays of one-character
// strings; a pattern is an array of terms; ["*"] is the wildcard term).
package cases

import (
	"encoding/json"
	"fmt"
	"strings"

	"github.com/ozontech/seq-db/parser"
	"verifharness/env"
)

type Str []string

func (s Str) String() string { return strings.Join(s, "") }
func (s Str) IsStar() bool   { return len(s) == 1 && s[0] == "*" }

type AST struct {
	Op    string  `json:"op"`
	F     string  `json:"f"`
	Terms []Str   `json:"terms"`
	Alts  [][]Str `json:"alts"`
	Lo    Str     `json:"lo"`
	Hi    Str     `json:"hi"`
	ILo   bool    `json:"ilo"`
	IHi   bool    `json:"ihi"`
	A     *AST    `json:"a"`
	B     *AST    `json:"b"`
}

type Doc struct {
	MID  uint64           `json:"mid"`
	RID  uint64           `json:"rid"`
	Tok  map[string][]Str `json:"tok"`
	Body string           `json:"body"`
	Dup  bool             `json:"dup"`
}

func (d Doc) Env() env.Doc {
	o := env.Doc{MID: d.MID, RID: d.RID, Tok: map[string][]string{}, Body: d.Body}
	for f, vs := range d.Tok {
		for _, v := range vs {
			o.Tok[f] = append(o.Tok[f], v.String())
			if d.Dup {
				o.Tok[f] = append(o.Tok[f], v.String())
			}
		}
	}
	return o
}

func EnvDocs(ds []Doc) []env.Doc {
	out := make([]env.Doc, len(ds))
	for i, d := range ds {
		out[i] = d.Env()
	}
	return out
}

func terms(p []Str) []parser.Term {
	var out []parser.Term
	for _, t := range p {
		if t.IsStar() {
			out = append(out, parser.Term{Kind: parser.TermSymbol, Data: "*"})
		} else {
			out = append(out, parser.Term{Kind: parser.TermText, Data: t.String()})
		}
	}
	return out
}

func end(s Str) parser.Term {
	if s.IsStar() {
		return parser.Term{Kind: parser.TermSymbol, Data: "*"}
	}
	return parser.Term{Kind: parser.TermText, Data: s.String()}
}

func logical(op string, ch ...*parser.ASTNode) *parser.ASTNode {
	var k parser.Logical
	switch op {
	case "and":
		k = parser.Logical{Operator: parser.LogicalAnd}
	case "or":
		k = parser.Logical{Operator: parser.LogicalOr}
	case "nand":
		k = parser.Logical{Operator: parser.LogicalNAnd}
	case "not":
		k = parser.Logical{Operator: parser.LogicalNot}
	}
	return &parser.ASTNode{Value: &k, Children: ch}
}

// Build makes a fresh parser.ASTNode tree (the engine may mutate it, so build one per use).
func (a *AST) Build() (*parser.ASTNode, error) {
	switch a.Op {
	case "all":
		return &parser.ASTNode{Value: &parser.Literal{Field: "_all_", Terms: []parser.Term{{Kind: parser.TermSymbol, Data: "*"}}}}, nil
	case "lit":
		return &parser.ASTNode{Value: &parser.Literal{Field: a.F, Terms: terms(a.Terms)}}, nil
	case "rng":
		return &parser.ASTNode{Value: &parser.Range{Field: a.F, From: end(a.Lo), To: end(a.Hi), IncludeFrom: a.ILo, IncludeTo: a.IHi}}, nil
	case "in":
		var n *parser.ASTNode
		for _, alt := range a.Alts {
			l := &parser.ASTNode{Value: &parser.Literal{Field: a.F, Terms: terms(alt)}}
			if n == nil {
				n = l
			} else {
				n = logical("or", n, l)
			}
		}
		return n, nil
	case "not":
		x, err := a.A.Build()
		if err != nil {
			return nil, err
		}
		return logical("not", x), nil
	case "and", "or", "nand":
		x, err := a.A.Build()
		if err != nil {
			return nil, err
		}
		y, err := a.B.Build()
		if err != nil {
			return nil, err
		}
		return logical(a.Op, x, y), nil
	}
	return nil, fmt.Errorf("unknown op %q", a.Op)
}

func (a *AST) HasNand() bool {
	if a == nil {
		return false
	}
	return a.Op == "nand" || a.A.HasNand() || a.B.HasNand()
}

func quote(s string) string {
	if s == "" {
		return `""`
	}
	return s
}

func patStr(p []Str) string {
	var b strings.Builder
	for _, t := range p {
		if t.IsStar() {
			b.WriteString("*")
		} else {
			b.WriteString(t.String())
		}
	}
	return b.String()
}

func endStr(s Str) string {
	if s.IsStar() {
		return "*"
	}
	return `"` + s.String() + `"`
}

// SeqQL renders the tree in SeqQL surface syntax with full parentheses ("nand" cannot be written).
func (a *AST) SeqQL() string {
	switch a.Op {
	case "all":
		return "_all_:*"
	case "lit":
		return a.F + ":" + patStr(a.Terms)
	case "rng":
		l, r := "(", ")"
		if a.ILo {
			l = "["
		}
		if a.IHi {
			r = "]"
		}
		return a.F + ":" + l + endStr(a.Lo) + ", " + endStr(a.Hi) + r
	case "in":
		var alts []string
		for _, alt := range a.Alts {
			alts = append(alts, patStr(alt))
		}
		return a.F + ":in(" + strings.Join(alts, ", ") + ")"
	case "not":
		return "(not " + a.A.SeqQL() + ")"
	case "and", "or":
		return "(" + a.A.SeqQL() + " " + a.Op + " " + a.B.SeqQL() + ")"
	}
	return "?"
}

func MustJSON(v any) string {
	b, _ := json.Marshal(v)
	return string(b)
}

// Widen spreads small random parts (RIDs) over the whole uint64 range, order preserved, as the proxy's random IDs
// are spread: code that compares IDs must do real three-way comparisons (differences wrap around).
func Widen(r uint64) uint64 {
	switch {
	case r >= 1 && r <= 6:
		return [...]uint64{0, 0x1000000000000001, 0x5000000000000002, 0x9000000000000003, 0xE000000000000004, 0xF000000000000005, 0xFF00000000000006}[r]
	case r >= 7 && r < 128:
		return 0xFF80000000000000 | r<<48
	}
	return r
}
