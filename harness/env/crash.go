package env

import (
	"os"
	"path/filepath"
)

// Halt stops the store without reopening it (the data directory is then edited by the crash driver
// to become the image a crash would have left).
func (e *Env) Halt() {
	e.Store.WaitIdle()
	e.Store.FracManager.Stop()
}

// Reopen loads a new store over the (possibly edited) data directory.
func (e *Env) Reopen() error { return e.open() }

// ActiveBase returns the path prefix of the current active fraction's files.
func (e *Env) ActiveBase() string {
	return filepath.Join(e.O.Dir, e.Store.FracManager.Active().Info().Name())
}

func FileSize(p string) int64 {
	st, err := os.Stat(p)
	if err != nil {
		return -1
	}
	return st.Size()
}
