package env

import (
	"context"
	"os"
	"path/filepath"
	"sync"
)

// Halt stops the store without reopening it (the data directory is then edited by the crash driver
// to become the image a crash would have left).
func (e *Env) Halt() {
	e.Store.WaitIdle()
	e.Store.FracManager.Stop()
}

// Reopen loads a new store over the (possibly edited) data directory.
func (e *Env) Reopen() error { return e.open() }

// pollCtx is alive until its Done channel has been asked for `after` times (Active.Replay polls it once per meta block):
// the stop signal of an operator arriving while the store replays its active fraction.
type pollCtx struct {
	context.Context
	mu    sync.Mutex
	after int
	done  chan struct{}
	fired bool
}

func PollCtx(after int) context.Context {
	return &pollCtx{Context: context.Background(), after: after, done: make(chan struct{})}
}

func (c *pollCtx) Done() <-chan struct{} {
	c.mu.Lock()
	defer c.mu.Unlock()
	if !c.fired {
		if c.after <= 0 {
			c.fired = true
			close(c.done)
		} else {
			c.after--
		}
	}
	return c.done
}

func (c *pollCtx) Err() error {
	c.mu.Lock()
	defer c.mu.Unlock()
	if c.fired {
		return context.Canceled
	}
	return nil
}

// ActiveBase returns the path prefix of the current active fraction's files.
func (e *Env) ActiveBase() string {
	return filepath.Join(e.O.Dir, e.Store.FracManager.Active().Info().Name())
}

func FileSize(p string) int64 {
	st, err := os.Stat(p)
	if err != nil {
		return -1
	}
	return st.Size()
}
