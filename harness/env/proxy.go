package env

import (
	"context"
	"fmt"

	"github.com/ozontech/seq-db/frac"
	"github.com/ozontech/seq-db/frac/processor"
	pb "github.com/ozontech/seq-db/pkg/storeapi"
	"github.com/ozontech/seq-db/proxy/search"
	"github.com/ozontech/seq-db/proxy/stores"
	"github.com/ozontech/seq-db/querytracer"
	"github.com/ozontech/seq-db/seq"
)

// NewProxy builds the real proxy search ingestor over real in-process stores:
// shards[i][j] is replica j of shard i. Replicas are tried in order (no shuffle).
func NewProxy(shards [][]*Env) *search.Ingestor {
	clients := map[string]pb.StoreApiClient{}
	st := &stores.Stores{}
	for i, reps := range shards {
		var hosts []string
		for j, e := range reps {
			h := fmt.Sprintf("s%dr%d", i, j)
			hosts = append(hosts, h)
			clients[h] = e.Client
		}
		st.Shards = append(st.Shards, hosts)
		st.Vers = append(st.Vers, "")
	}
	empty := &stores.Stores{Shards: [][]string{}, Vers: []string{}}
	return search.NewIngestor(search.Config{HotStores: st, HotReadStores: empty, ReadStores: empty, WriteStores: empty}, clients)
}

type ProxyParams struct {
	Params
	Offset, Size int
	Fetch        bool
}

// ProxySearch runs the real proxy Search (SeqQL text) and returns the merged QPR and, if asked,
// the fetched documents aligned with the returned IDs.
func ProxySearch(ing *search.Ingestor, query string, p ProxyParams) (*seq.QPR, [][]byte, error) {
	sr := &search.SearchRequest{Q: []byte(query), Offset: p.Offset, Size: p.Size, Interval: seq.MID(p.Interval),
		From: seq.MID(p.From), To: seq.MID(p.To), WithTotal: p.WithTotal, ShouldFetch: p.Fetch, Order: order(p.Order)}
	for _, a := range p.Aggs {
		sr.AggQ = append(sr.AggQ, search.AggQuery{Field: a.Field, GroupBy: a.GroupBy, Func: aggFunc(a.Func), Quantiles: a.Quantiles, Interval: seq.MID(a.Interval)})
	}
	qpr, it, _, err := ing.Search(context.Background(), sr, querytracer.New(false, "verif"))
	if err != nil && qpr == nil {
		return nil, nil, err
	}
	var docs [][]byte
	if p.Fetch && it != nil {
		for {
			d, e := it.Next()
			if e != nil {
				break
			}
			docs = append(docs, append([]byte(nil), d.Data...))
		}
	}
	return qpr, docs, err
}

// FracSearch runs one fraction's own search (what the Searcher does per fraction).
func FracSearch(f frac.Fraction, sp processor.SearchParams) (*seq.QPR, error) {
	dp, release := f.DataProvider(context.Background())
	defer release()
	return dp.Search(sp)
}

func (e *Env) SearchParams(p Params) processor.SearchParams { return e.searchParams(nil, p) }

func AggArgs(a Agg) seq.AggregateArgs {
	return seq.AggregateArgs{Func: aggFunc(a.Func), Quantiles: a.Quantiles, SkipWithoutTimestamp: a.Interval > 0}
}

func Order(s string) seq.DocsOrder { return order(s) }
