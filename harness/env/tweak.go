package env

import (
	"context"
	"path/filepath"
	"time"

	"github.com/ozontech/seq-db/frac"
	"github.com/ozontech/seq-db/fracmanager"
	"github.com/ozontech/seq-db/storeapi"
)

// ReopenWith loads a new store over the data directory like Reopen, but lets the caller adjust the
// store configuration first (C03 uses it to run the real cache cleaning loop every millisecond with a
// cache of a few KiB: constant eviction while queries run). The store must be halted (Halt) before.
// The configuration built here mirrors (*Env).open; only the fields named in `tweak` differ.
func (e *Env) ReopenWith(tweak func(*storeapi.StoreConfig)) error {
	sp := frac.SealParams{}
	if e.O.ZstdLevel != 0 {
		sp = frac.SealParams{IDsZstdLevel: e.O.ZstdLevel, LIDsZstdLevel: e.O.ZstdLevel, TokenListZstdLevel: e.O.ZstdLevel,
			DocsPositionsZstdLevel: e.O.ZstdLevel, TokenTableZstdLevel: e.O.ZstdLevel, DocBlocksZstdLevel: e.O.ZstdLevel}
	}
	cfg := storeapi.StoreConfig{
		API: storeapi.APIConfig{
			StoreMode: e.O.StoreMode,
			Search: storeapi.SearchConfig{
				WorkersCount:          e.O.Workers,
				FractionsPerIteration: e.O.FPI,
				Async:                 fracmanager.AsyncSearcherConfig{DataDir: filepath.Join(e.O.Dir, "async_searches")},
			},
		},
		FracManager: fracmanager.Config{
			DataDir:           e.O.Dir,
			FracSize:          e.O.FracSize,
			TotalSize:         e.O.TotalSize,
			CacheSize:         e.O.CacheSize,
			MaintenanceDelay:  24 * time.Hour,
			CacheCleanupDelay: 24 * time.Hour,
			CacheGCDelay:      24 * time.Hour,
			SealParams:        sp,
			Fraction:          frac.Config{SkipSortDocs: e.O.SkipSortDocs},
		},
	}
	if tweak != nil {
		tweak(&cfg)
	}
	st, err := storeapi.NewStore(context.Background(), cfg, e.MP)
	if err != nil {
		return err
	}
	e.Store = st
	e.Client = storeapi.NewClient(st)
	return nil
}
