package env

// The public proxy API in front of one in-process store: a real proxyapi.Ingestor (gRPC server with grpcV1 + HTTP
// server with the gRPC gateway) whose only hot shard is the store's in-memory client, asked through real sockets.

import (
	"net"
	"net/http"
	"sync"
	"time"

	"google.golang.org/grpc"
	"google.golang.org/grpc/credentials/insecure"

	"github.com/ozontech/seq-db/consts"
	"github.com/ozontech/seq-db/network/circuitbreaker"
	"github.com/ozontech/seq-db/pkg/seqproxyapi/v1"
	"github.com/ozontech/seq-db/proxy/bulk"
	"github.com/ozontech/seq-db/proxy/search"
	"github.com/ozontech/seq-db/proxy/stores"
	"github.com/ozontech/seq-db/proxyapi"
)

type API struct {
	Ing    *proxyapi.Ingestor
	Conn   *grpc.ClientConn
	Client seqproxyapi.SeqProxyApiClient
	HTTP   string // base URL of the HTTP server (gateway)
	HC     *http.Client
}

// (proxyapi.NewIngestor registers its circuit breakers in a process-wide manager by check-then-create: a process has
// one ingestor in production, a driver that builds several must build them one at a time)
var apiMu sync.Mutex

func NewAPI(e *Env) (*API, error) {
	apiMu.Lock()
	defer apiMu.Unlock()
	httpLis, err := net.Listen("tcp", "127.0.0.1:0")
	if err != nil {
		return nil, err
	}
	grpcLis, err := net.Listen("tcp", "127.0.0.1:0")
	if err != nil {
		return nil, err
	}
	empty := func() *stores.Stores { return &stores.Stores{Shards: [][]string{}, Vers: []string{}} }
	ing, err := proxyapi.NewIngestor(proxyapi.IngestorConfig{
		API: proxyapi.APIConfig{SearchTimeout: time.Minute, ExportTimeout: time.Minute, QueryRateLimit: 1e12, EsVersion: "test",
			GatewayAddr: grpcLis.Addr().String()},
		Bulk: bulk.IngestorConfig{HotStores: empty(), WriteStores: empty(),
			BulkCircuit:      circuitbreaker.Config{RequestVolumeThreshold: 101, Timeout: time.Hour},
			MaxInflightBulks: 1, MappingProvider: e.MP, MaxTokenSize: consts.DefaultMaxTokenSize, MaxDocumentSize: consts.MB},
		Search: search.Config{HotStores: empty(), HotReadStores: empty(), ReadStores: empty(), WriteStores: empty()},
	}, e.Store) // the store's in-memory client becomes the only hot shard
	if err != nil {
		return nil, err
	}
	ing.Start(httpLis, grpcLis)
	conn, err := grpc.NewClient(grpcLis.Addr().String(), grpc.WithTransportCredentials(insecure.NewCredentials()),
		grpc.WithDefaultCallOptions(grpc.MaxCallRecvMsgSize(64<<20)))
	if err != nil {
		return nil, err
	}
	return &API{Ing: ing, Conn: conn, Client: seqproxyapi.NewSeqProxyApiClient(conn), HTTP: "http://" + httpLis.Addr().String(),
		HC: &http.Client{Timeout: time.Minute}}, nil
}

func (a *API) Stop() {
	_ = a.Conn.Close()
	a.HC.CloseIdleConnections()
	a.Ing.Stop()
}
