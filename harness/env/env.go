// Package env wraps a real seq-db store (fracmanager + storeapi.GrpcV1 + the repository's in-memory
// client) so that drivers can feed bulks with chosen IDs/tokens and ask the real engine questions.
package env

import (
	"context"
	"errors"
	"fmt"
	"io"
	"math"
	"os"
	"path/filepath"
	"sort"
	"syscall"
	"time"

	"google.golang.org/grpc/metadata"

	"github.com/ozontech/seq-db/conf"
	"github.com/ozontech/seq-db/disk"
	"github.com/ozontech/seq-db/frac"
	"github.com/ozontech/seq-db/frac/processor"
	"github.com/ozontech/seq-db/fracmanager"
	"github.com/ozontech/seq-db/mappingprovider"
	"github.com/ozontech/seq-db/parser"
	pb "github.com/ozontech/seq-db/pkg/storeapi"
	"github.com/ozontech/seq-db/seq"
	"github.com/ozontech/seq-db/storeapi"
)

type Doc struct {
	MID  uint64              `json:"mid"`
	RID  uint64              `json:"rid"`
	Tok  map[string][]string `json:"tok"`
	Body string              `json:"body"`
}

func (d Doc) ID() seq.ID { return seq.ID{MID: seq.MID(d.MID), RID: seq.RID(d.RID)} }

// DefaultBody is the document stored when a case does not give one: unique per ID.
func (d Doc) BodyBytes() []byte {
	if d.Body != "" {
		return []byte(d.Body)
	}
	return []byte(fmt.Sprintf(`{"id":"%d-%d"}`, d.MID, d.RID))
}

type Opts struct {
	Dir          string
	FracSize     uint64
	TotalSize    uint64
	CacheSize    uint64
	FPI          int // fractions per iteration
	SkipSortDocs bool
	ZstdLevel    int
	Mapping      seq.Mapping
	StoreMode    string
	SkipFsync    bool
	Workers      int
}

type Env struct {
	// StartCtx, if set, is the context of the NEXT start (storeapi.NewStore -> FracManager.Load -> Active.Replay), as the
	// signal context of cmd/seq-db is: a start can be cancelled while it replays
	StartCtx context.Context
	O        Opts
	Store  *storeapi.Store
	Client pb.StoreApiClient
	MP     *mappingprovider.MappingProvider
	ownDir bool
}

var DefaultMapping = seq.Mapping{
	"k":  seq.NewSingleType(seq.TokenizerTypeKeyword, "", 0),
	"n":  seq.NewSingleType(seq.TokenizerTypeKeyword, "", 0),
	"g":  seq.NewSingleType(seq.TokenizerTypeKeyword, "", 0),
	"v":  seq.NewSingleType(seq.TokenizerTypeKeyword, "", 0),
	"t":  seq.NewSingleType(seq.TokenizerTypeText, "", 0),
	"p":  seq.NewSingleType(seq.TokenizerTypePath, "", 0),
	"_exists_": seq.NewSingleType(seq.TokenizerTypeKeyword, "", 0),
}

func New(o Opts) (*Env, error) {
	e := &Env{O: o}
	if e.O.Dir == "" {
		d, err := os.MkdirTemp("", "verif-env-")
		if err != nil {
			return nil, err
		}
		e.O.Dir = d
		e.ownDir = true
	}
	if e.O.FracSize == 0 {
		e.O.FracSize = 1 << 40
	}
	if e.O.TotalSize == 0 {
		e.O.TotalSize = 1 << 50
	}
	if e.O.CacheSize == 0 {
		e.O.CacheSize = 256 << 20
	}
	if e.O.FPI == 0 {
		e.O.FPI = 2
	}
	if e.O.Mapping == nil {
		e.O.Mapping = DefaultMapping
	}
	if e.O.Workers == 0 {
		e.O.Workers = 2
	}
	conf.SkipFsync = e.O.SkipFsync
	conf.UseSeqQLByDefault = true
	mp, err := mappingprovider.New("", mappingprovider.WithMapping(e.O.Mapping))
	if err != nil {
		return nil, err
	}
	e.MP = mp
	if err := e.open(); err != nil {
		return nil, err
	}
	return e, nil
}

func (e *Env) open() error {
	sp := frac.SealParams{}
	if e.O.ZstdLevel != 0 {
		sp = frac.SealParams{IDsZstdLevel: e.O.ZstdLevel, LIDsZstdLevel: e.O.ZstdLevel, TokenListZstdLevel: e.O.ZstdLevel,
			DocsPositionsZstdLevel: e.O.ZstdLevel, TokenTableZstdLevel: e.O.ZstdLevel, DocBlocksZstdLevel: e.O.ZstdLevel}
	}
	sp.DocBlockSize = 0
	cfg := storeapi.StoreConfig{
		API: storeapi.APIConfig{
			StoreMode: e.O.StoreMode,
			Search: storeapi.SearchConfig{
				WorkersCount:          e.O.Workers,
				FractionsPerIteration: e.O.FPI,
				Async:                 fracmanager.AsyncSearcherConfig{DataDir: filepath.Join(e.O.Dir, "async_searches")},
			},
		},
		FracManager: fracmanager.Config{
			DataDir:           e.O.Dir,
			FracSize:          e.O.FracSize,
			TotalSize:         e.O.TotalSize,
			CacheSize:         e.O.CacheSize,
			MaintenanceDelay:  24 * time.Hour,
			CacheCleanupDelay: 24 * time.Hour,
			CacheGCDelay:      24 * time.Hour,
			SealParams:        sp,
			Fraction:          frac.Config{SkipSortDocs: e.O.SkipSortDocs},
		},
	}
	fcPath := filepath.Join(e.O.Dir, ".frac-cache")
	before := fileIno(fcPath)
	startCtx := context.Background()
	if e.StartCtx != nil {
		startCtx, e.StartCtx = e.StartCtx, nil // one start only
	}
	st, err := storeapi.NewStore(startCtx, cfg, e.MP)
	if err != nil {
		return err
	}
	// FracManager.Start runs one maintenance pass at once in its own goroutine (util.RunEvery). Drivers
	// that run maintenance passes themselves (VerifMaintenance) must not overlap with it - two concurrent
	// passes cannot happen in production. The pass ends by rewriting .frac-cache (new inode): wait for it.
	for i := 0; i < 120000; i++ {
		if now := fileIno(fcPath); now != 0 && now != before {
			break
		}
		time.Sleep(time.Millisecond)
	}
	e.Store = st
	e.Client = storeapi.NewClient(st)
	return nil
}

func (e *Env) FM() *fracmanager.FracManager { return e.Store.FracManager }

// Bulk sends one bulk with exactly these documents (IDs and tokens are chosen by the case).
func (e *Env) Bulk(docs []Doc) error {
	if len(docs) == 0 {
		return nil
	}
	req := MakeBulk(docs)
	_, err := e.Client.Bulk(context.Background(), req)
	return err
}

func MakeBulk(docs []Doc) *pb.BulkRequest {
	dp := frac.NewDocProvider()
	for _, d := range docs {
		toks := []string{"_all_:"}
		fields := make([]string, 0, len(d.Tok))
		for f := range d.Tok {
			fields = append(fields, f)
		}
		sort.Strings(fields)
		for _, f := range fields {
			for _, v := range d.Tok[f] {
				toks = append(toks, f+":"+v)
			}
			if len(d.Tok[f]) > 0 {
				toks = append(toks, "_exists_:"+f)
			}
		}
		dp.Append(d.BodyBytes(), nil, d.ID(), seq.Tokens(toks...))
	}
	req := &pb.BulkRequest{Count: int64(len(docs))}
	req.Docs, req.Metas = dp.Provide()
	return req
}

func (e *Env) WaitIdle() { e.Store.WaitIdle() }

// Seal rotates the active fraction and seals it (no-op for an empty active fraction).
func (e *Env) Seal() {
	e.Store.WaitIdle()
	e.Store.SealAll()
}

func (e *Env) ResetCache() { e.Store.ResetCache() }

// Restart stops the store gracefully-ish (no seal-on-exit surprises: FracSize is huge) and reopens it.
func (e *Env) Restart() error {
	e.Store.WaitIdle()
	e.Store.FracManager.Stop()
	return e.open()
}

func (e *Env) Close() {
	if e.Store != nil {
		e.Store.WaitIdle()
		e.Store.FracManager.Stop()
		if e.ownDir {
			// release file descriptors and memory of every fraction (the directory is removed anyway)
			// (not the current active one: the store's leaked bulkStats goroutine keeps calling
			// Active().Info(), which dereferences nil on a suicided proxy fraction)
			act := e.Store.FracManager.Active().Info().Name()
			for _, f := range e.Store.FracManager.GetAllFracs() {
				if f.Info().Name() != act {
					f.Suicide()
				}
			}
		}
	}
	if e.ownDir {
		os.RemoveAll(e.O.Dir)
	}
}

// ---------------------------------------------------------------- search

type Agg struct {
	Func      string    `json:"func"`
	Field     string    `json:"field"`
	GroupBy   string    `json:"groupBy"`
	Quantiles []float64 `json:"quantiles"`
	Interval  int64     `json:"interval"`
}

type Params struct {
	From, To  uint64
	Limit     int
	Order     string // "desc" | "asc"
	WithTotal bool
	Interval  uint64
	Aggs      []Agg
}

type Result struct {
	IDs   [][2]uint64
	Total uint64
	Hist  map[uint64]uint64
	Aggs  []seq.AggregatableSamples
	QPR   *seq.QPR
}

func order(s string) seq.DocsOrder {
	if s == "asc" {
		return seq.DocsOrderAsc
	}
	return seq.DocsOrderDesc
}

func fromQPR(q *seq.QPR) *Result {
	r := &Result{Total: q.Total, Hist: map[uint64]uint64{}, Aggs: q.Aggs, QPR: q}
	for _, id := range q.IDs {
		r.IDs = append(r.IDs, [2]uint64{uint64(id.ID.MID), uint64(id.ID.RID)})
	}
	for k, v := range q.Histogram {
		r.Hist[uint64(k)] = v
	}
	return r
}

func aggFunc(s string) seq.AggFunc {
	switch s {
	case "count":
		return seq.AggFuncCount
	case "sum":
		return seq.AggFuncSum
	case "min":
		return seq.AggFuncMin
	case "max":
		return seq.AggFuncMax
	case "avg":
		return seq.AggFuncAvg
	case "quantile":
		return seq.AggFuncQuantile
	case "unique":
		return seq.AggFuncUnique
	}
	panic("unknown agg func " + s)
}

var searchAll = []parser.Term{{Kind: parser.TermSymbol, Data: "*"}}

func AggQueries(aggs []Agg) []processor.AggQuery {
	var out []processor.AggQuery
	for _, a := range aggs {
		q := processor.AggQuery{Func: aggFunc(a.Func), Quantiles: a.Quantiles, Interval: a.Interval}
		if a.Field != "" {
			q.Field = &parser.Literal{Field: a.Field, Terms: searchAll}
		}
		if a.GroupBy != "" {
			q.GroupBy = &parser.Literal{Field: a.GroupBy, Terms: searchAll}
		}
		out = append(out, q)
	}
	return out
}

func (e *Env) searchParams(ast *parser.ASTNode, p Params) processor.SearchParams {
	return processor.SearchParams{AST: ast, AggQ: AggQueries(p.Aggs), HistInterval: p.Interval,
		From: seq.MID(p.From), To: seq.MID(p.To), Limit: p.Limit, WithTotal: p.WithTotal, Order: order(p.Order)}
}

// SearchAST evaluates a ready AST over all fractions of the store through the real Searcher.
func (e *Env) SearchAST(ast *parser.ASTNode, p Params) (*Result, error) {
	s := fracmanager.NewSearcher(e.O.Workers, fracmanager.SearcherCfg{FractionsPerIteration: e.O.FPI})
	q, err := s.SearchDocs(context.Background(), e.FM().GetAllFracs(), e.searchParams(ast, p))
	if err != nil {
		return nil, err
	}
	return fromQPR(q), nil
}

// SearchFracs is SearchAST over an explicit fraction list with explicit fractions-per-iteration.
func SearchFracs(fracs []frac.Fraction, fpi int, sp processor.SearchParams) (*Result, error) {
	s := fracmanager.NewSearcher(2, fracmanager.SearcherCfg{FractionsPerIteration: fpi})
	q, err := s.SearchDocs(context.Background(), fracs, sp)
	if err != nil {
		return nil, err
	}
	return fromQPR(q), nil
}

func SeqQLCtx() context.Context {
	return metadata.NewIncomingContext(context.Background(), metadata.Pairs("use-seq-ql", "true"))
}

// SearchQL goes through the store's gRPC handler (parser included), SeqQL syntax.
func (e *Env) SearchQL(query string, p Params) (*pb.SearchResponse, error) {
	req := &pb.SearchRequest{Query: query, From: int64(p.From), To: int64(p.To), Size: int64(p.Limit),
		Interval: int64(p.Interval), WithTotal: p.WithTotal}
	if p.Order == "asc" {
		req.Order = pb.Order_ORDER_ASC
	}
	for _, a := range p.Aggs {
		f := pb.MustProtoAggFunc(aggFunc(a.Func))
		req.Aggs = append(req.Aggs, &pb.AggQuery{Field: a.Field, GroupBy: a.GroupBy, Func: f, Quantiles: a.Quantiles, Interval: a.Interval})
	}
	resp, err := e.Store.GrpcV1().Search(SeqQLCtx(), req)
	if err != nil {
		return nil, err
	}
	if resp.Code != pb.SearchErrorCode_NO_ERROR {
		return nil, fmt.Errorf("search error code %s", resp.Code)
	}
	return resp, nil
}

func RespIDs(resp *pb.SearchResponse) [][2]uint64 {
	var out [][2]uint64
	for _, s := range resp.IdSources {
		out = append(out, [2]uint64{s.Id.Mid, s.Id.Rid})
	}
	return out
}

// ---------------------------------------------------------------- fetch

// Fetch goes through GrpcV1.Fetch via the in-memory client (docsStream included). Returns one
// entry per requested ID (nil = not found) and the (mid,rid) echoed in each block.
func (e *Env) Fetch(ids []seq.ID, filter *pb.FetchRequest_FieldsFilter) ([][]byte, [][2]uint64, error) {
	req := &pb.FetchRequest{FieldsFilter: filter}
	for _, id := range ids {
		req.Ids = append(req.Ids, id.String())
	}
	return e.FetchReq(req)
}

func (e *Env) FetchReq(req *pb.FetchRequest) ([][]byte, [][2]uint64, error) {
	stream, err := e.Client.Fetch(context.Background(), req)
	if err != nil {
		return nil, nil, err
	}
	var docs [][]byte
	var echo [][2]uint64
	for {
		m, err := stream.Recv()
		if errors.Is(err, io.EOF) {
			break
		}
		if err != nil {
			return docs, echo, err
		}
		blk := disk.DocBlock(m.Data)
		echo = append(echo, [2]uint64{blk.GetExt1(), blk.GetExt2()})
		pl := blk.Payload()
		if len(pl) == 0 {
			docs = append(docs, nil)
		} else {
			docs = append(docs, append([]byte(nil), pl...))
		}
	}
	return docs, echo, nil
}

const MaxMID = math.MaxInt64

func fileIno(p string) uint64 {
	st, err := os.Stat(p)
	if err != nil {
		return 0
	}
	if sys, ok := st.Sys().(*syscall.Stat_t); ok {
		return sys.Ino
	}
	return uint64(st.ModTime().UnixNano())
}

// SearchParamsAST exposes the processor parameters the store would build for an AST search.
func (e *Env) SearchParamsAST(ast *parser.ASTNode, p Params) processor.SearchParams {
	return e.searchParams(ast, p)
}
