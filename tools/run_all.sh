#!/bin/bash
# run_all.sh [quick|thorough] [seed] : run every claimed check once, print one line per check
cd "$(dirname "$0")/.."
TIER=${1:-quick}; export VERIF_SEED=${2:-1}
for id in $(python3 -c "import json;print(' '.join(c['property_id'] for c in json.load(open('MANIFEST.json'))['checks']))"); do
  out=$(./check $id $TIER 2>&1); rc=$?
  echo "$id rc=$rc $(echo "$out" | grep -E '^RESULT' | tail -1) $(echo "$out" | grep -cE '^VIOLATION') violations $(echo "$out" | grep -cE '^KNOWN-FINDING') known"
  if [ $rc -ne 0 ]; then echo "$out" | grep -E "INFRA|VIOLATION|signature" | head -5; fi
done
