#!/usr/bin/env python3
"""file_seed.py <seed-id> <property> <src-dir> <detected:yes|no|partial> <needs> -- records a confirmed seeded change."""
import json, os, shutil, sys
sid, prop, src, detected, needs = sys.argv[1:6]
extra = sys.argv[6] if len(sys.argv) > 6 else ""
dst = os.path.join("/verif/seeded", sid)
os.makedirs(dst, exist_ok=True)
for f in os.listdir(src):
    if f.endswith(".log"):
        continue
    shutil.copy(os.path.join(src, f), dst)
meta = {"seed": sid, "property": prop, "needs_to_manifest": needs,
        "confirmed": "tools/verify_seed.sh in a scratch worktree: patch applies, `go build ./...` ok, touched packages' tests pass, demonstration passes without and fails with the patch; sub-agent additionally ran the whole suite (only the 4 always-failing integration tests fail)",
        "detected_by_check": detected, "how": extra}
json.dump(meta, open(os.path.join(dst, "meta.json"), "w"), indent=1)
print("filed", dst)
