#!/usr/bin/env python3
import json, glob, sys, os
ROOT = os.path.dirname(os.path.dirname(os.path.abspath(__file__)))
import jsonschema
ok = True
jsonschema.validate(json.load(open(ROOT + '/MANIFEST.json')), json.load(open('/root/.vp/MANIFEST.schema.json')))
print('manifest valid')
es = json.load(open('/root/.vp/EVIDENCE.schema.json'))
for f in sorted(glob.glob(ROOT + '/evidence/*.json')):
    try:
        jsonschema.validate(json.load(open(f)), es)
        print('evidence valid', os.path.basename(f))
    except Exception as e:
        ok = False
        print('EVIDENCE INVALID', f, str(e)[:300])
sys.exit(0 if ok else 1)
