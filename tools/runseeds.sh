#!/bin/bash
# runseeds.sh <tier> <seed:prop> ...   (runs checks against a scratch worktree with the seed applied)
cd /verif
TIER=$1; shift
WT=${MUTWT:-/tmp/mutwt}
git -C /repo worktree remove --force $WT >/dev/null 2>&1; rm -rf $WT; git -C /repo worktree prune
git -C /repo worktree add -q --detach $WT HEAD || exit 9
for sp in "$@"; do
  s=${sp%%:*}; p=${sp##*:}
  d=${SEEDOUT:-/tmp/seedwork/out}/$s; [ -d $d ] || d=/verif/seeded/$s
  pf=$d/patch.diff; [ -f $d/patch_on_hooks.diff ] && pf=$d/patch_on_hooks.diff; [ -f $d/patch_on_fixed_tree.diff ] && pf=$d/patch_on_fixed_tree.diff
  git -C $WT checkout -q -- . ; git -C $WT clean -fdq
  if ! git -C $WT apply $pf; then echo "SEED $s: PATCH DOES NOT APPLY"; continue; fi
  VERIF_REPO=$WT VERIF_SEED=${VSEED:-1} timeout 7000 ./check $p $TIER > /tmp/seedwork/run-$s-$p.log 2>&1; rc=$?
  echo "SEED $s prop $p tier $TIER rc=$rc $(grep -c VIOLATION /tmp/seedwork/run-$s-$p.log) violations; $(grep -m1 signature /tmp/seedwork/run-$s-$p.log | cut -c1-200)"
done
git -C /repo worktree remove --force $WT >/dev/null 2>&1; rm -rf $WT
