HOOK_COMMITS = []
NOTES = ("Model-based verification with explicit TLA+ specifications (spec/*.tla). TLC decides each property on the "
         "specification (exhaustive small scope + seeded simulation) and emits cases/behaviours that Go drivers "
         "(harness/, built with -tags verif against /repo's working tree) replay into the real seq-db code; recorded "
         "traces are validated by *Trace.tla specs. Exit 1 only for behaviour of the real code; exit 2 = infrastructure.")
ENGINES = [
    {"name": "tlc", "path": "spec/", "serves_properties": [], "kind_free_text": "TLA+ specifications checked/simulated by TLC 1.8 (tla2tools.jar)"},
    {"name": "go-drivers", "path": "harness/", "serves_properties": [], "kind_free_text": "Go drivers replaying TLC cases/behaviours into real seq-db packages and recording traces"},
]
NOT_CLAIMED = {}
CHECKS = {
    "C02": {
        "text": "QueryRef.tla defines Search as a set-level reference operator; TLC enumerates every (corpus, query) of a small scope exhaustively and samples a larger scope by seeded simulation; each emitted case is replayed into a real store (active and sealed fraction; AST path through Searcher.SearchDocs and SeqQL path through GrpcV1.Search) and ids/total must equal the reference.",
        "note": "Trusted: TLC's evaluation of the reference operators, the case decoder/renderer in harness/cases. Scope: <=2 docs exhaustive, <=4 docs / AST depth <=2 sampled; values over a small alphabet; timestamps 1..3.",
        "technique": "TLA+ reference operator (QueryRef) + TLC case enumeration (exhaustive + -simulate) replayed into the real engine",
    },
}
