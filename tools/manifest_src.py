HOOK_COMMITS = ["193d56e", "90ea831"]
NOTES = ("Model-based verification with explicit TLA+ specifications (spec/*.tla). TLC decides each property on the "
         "specification (exhaustive small scope + seeded simulation) and emits cases/behaviours that Go drivers "
         "(harness/, built with -tags verif against /repo's working tree) replay into the real seq-db code; recorded "
         "traces are validated by *Trace.tla specs. Exit 1 only for behaviour of the real code; exit 2 = infrastructure.")
ENGINES = [
    {"name": "tlc", "path": "spec/", "serves_properties": [], "kind_free_text": "TLA+ specifications checked/simulated by TLC 1.8 (tla2tools.jar)"},
    {"name": "go-drivers", "path": "harness/", "serves_properties": [], "kind_free_text": "Go drivers replaying TLC cases/behaviours into real seq-db packages and recording traces"},
]
NOT_CLAIMED = {}
CHECKS = {
    "C02": {
        "text": "QueryRef.tla defines Search as a set-level reference operator; TLC enumerates every (corpus, query) of a small scope exhaustively and samples a larger scope by seeded simulation; each emitted case is replayed into a real store (active and sealed fraction; AST path through Searcher.SearchDocs and SeqQL path through GrpcV1.Search) and ids/total must equal the reference.",
        "note": "Trusted: TLC's evaluation of the reference operators, the case decoder/renderer in harness/cases. Scope: <=2 docs exhaustive, <=4 docs / AST depth <=2 sampled; values over a small alphabet; timestamps 1..3.",
        "technique": "TLA+ reference operator (QueryRef) + TLC case enumeration (exhaustive + -simulate) replayed into the real engine",
    },
    "C13": {
        "text": "Pattern.tla transcribes token.Table.SelectEntries, Narrow (both binary searches) and literal/wildcard check and TLC proves on the bounded scope that the narrowed sealed-dictionary search equals the glob reference for every dictionary, block layout and pattern (AlgoEqualsRef); every state is emitted with the reference token set and replayed into pattern.Search (unordered, ordered) and the real token.Table/token.Provider/BlockLoader path; range semantics (numeric iff every given end is a number) are replayed the same way.",
        "note": "Trusted: TLC, the hand transcription being faithful (cross-checked by the replay), QueryRef's numeric syntax subset. Scope: alphabet {a,b}, tokens <=3 (match family <=5), <=3 (thorough 4) tokens per dictionary in every block layout, patterns <=3 terms (match family <=4/5 terms, text <=3), end palette of 9 strings.",
        "technique": "TLA+ transcription of the narrowing algorithm checked against a glob reference by TLC (exhaustive), cases replayed into pattern/token packages",
    },
    "C06": {
        "text": "AggCases.tla defines histogram and aggregation results at set level (exact scaled-integer arithmetic) and the transcription of SamplesContainer.InsertNTimes/Merge; TLC checks MergeLaw (folding per-part summaries in either order = summary of the whole) on every explored (corpus, partition) and emits cases; the driver builds one real fraction per part (sealed/active mixed) and compares the iterative searcher (fpi=1 and all), a manual reverse-order MergeQPRs and the proxy path (store handler, buildSearchResponse/responseToQPR) with the reference.",
        "note": "Trusted: TLC, exact dyadic quantile palette, value palette limited by TLC's 32-bit integers (values beyond +-1e7 are not generated, so int64-overflow style defects in min/max initialisation are out of reach), reservoir overflow (>8096 samples) not exercised. Per-group not-exists counters of time-binned field+group aggregations are not compared.",
        "technique": "TLA+ reference operators + merge-law invariant checked by TLC (exhaustive small scope + -simulate), cases replayed into real fractions and the proxy merge path",
    },
    "C04": {
        "text": "FetchCases.tla gives the positional reference answer for every request of a bounded scope (stored and absent IDs at every relative position, two fractions, right hints); FetchStream.tla models the adaptive chunk loop of docsStream as a state machine and TLC checks ChunkPositive, Progress, EveryIDAnsweredOnce and (under weak fairness) Terminates for every run-structured request of the scope. All cases are replayed through GrpcV1.Fetch of a real store with a watchdog and crash attribution.",
        "note": "Trusted: TLC; MaxFetchSizeBytes lowered to 4096 so that size classes up to 5000 bytes stand for over-limit documents; requests up to ~3000 IDs (not 100k); hints are always the right fraction. The pinned tree violated the property in two ways (both repaired by fix: commits, see known_findings.json).",
        "technique": "TLA+ reference + state-machine model of the chunk loop (invariants and liveness) checked by TLC, cases replayed through the real Fetch handler",
    },
    "C05": {
        "text": "MultiFrac.tla transcribes the iterative multi-fraction search (prepareFracs, Shift chunks, per-fraction top-limit, MergeQPRs, calcEnsuredIDsCount, limit shrinking) and the proxy's shard merge and pagination; TLC proves the transcription equal to the single-fraction reference for every layout of the exhaustive scope and every tie order of the fraction sort, and on random two-shard layouts with replicated documents; every state is replayed on real fractions (real Searcher) and on real stores behind the real proxy ingestor.",
        "note": "Trusted: TLC; scope 4 IDs x <=3 fractions (store), 5 IDs x 2 shards x <=2 fractions (proxy, sampled); match-all query; totals compared only without cross-shard duplicates; histogram/aggregation equality across fractions is covered by C06's partitions, not across shards.",
        "technique": "TLA+ transcription of the search loop proved equal to a reference by TLC (exhaustive + -simulate), cases replayed on real fractions/stores/proxy",
    },
    "C17": {
        "text": "Redeliver.tla models fractions as sets with first-writer-wins delivery, rotation and restart (invariant NothingLost); TLC emits one behaviour per transition of the reduced state graph (exhaustive: every abstract state x every bulk subset / seal / restart) plus random longer histories; each is replayed on a real store, sequentially and with concurrently repeated bulks, and the required observation (ID list, totals, histogram, count aggregation, per-fraction document counts, per-token search, fetch bytes) is compared after every step.",
        "note": "Trusted: TLC; 3 documents exhaustive / 4 sampled; concurrent repeats are raced, not schedule-controlled; totals/aggregations are only compared while no document sits in two fractions (as the property states).",
        "technique": "TLA+ state machine, one replayed behaviour per TLC transition (VIEW + ACTION_CONSTRAINT emission) + -simulate histories, state compared after every step",
    },
    "C20": {
        "text": "ProjectCases.tla defines the projection at the level of top-level field-name sets (with two sanity invariants) and TLC enumerates every corpus x field list x mode of the scope; the driver instantiates field values from a palette of JSON shapes and compares the store's field-filtered Fetch and the proxy's fields pipe (also: same ids/order as without the pipe, untouched bytes without a pipe) structurally with the reference.",
        "note": "Trusted: TLC; value fidelity is sampled from a 22-entry JSON palette rotated by the seed (class-level exhaustive over field-name sets, sampled inside each class); numbers compared by value.",
        "technique": "TLA+ reference operator, exhaustive TLC case enumeration replayed through the store fetch filter and the proxy fields pipe",
    },
    "C01": {
        "text": "WritePath.tla models the active fraction's write path at the grain of its file operations (mutex, docs write, fsync, meta write with ext1/ext2, fsync, unlock, ack), crashes that keep the synced prefix plus any prefix of the unsynced suffix, and Replay; TLC checks NoForeignBytes, AckedDurable, AlwaysComesUp and the action property AckOnlyDurable exhaustively. Every crash/restart/ingest history of the scope is replayed on a real store (crash images cut byte-exactly from what the real write path wrote), and concurrent real executions recorded through the verif hooks are validated event by event against WritePathTrace.tla (with a corrupted-trace self-test).",
        "note": "Trusted: TLC, the crash model (a crash keeps the fsynced prefix and an arbitrary prefix of later writes of each file), the kernel's fsync. Scope: 3 bulks (thorough 4 in the design check), <=2 (thorough 3) crashes, one active fraction; torn lengths sampled from 6 byte classes per case. Two defects of the pinned tree were found this way and repaired (fix: 9622524).",
        "technique": "TLA+ state machine of the write path model-checked by TLC; behaviours replayed as crash/restart histories on the real store; hook-recorded traces validated against the spec",
    },
    "C16": {
        "text": "ProxyRead.tla models a proxy read as a fault scenario (topology, per-host search behaviour, per-source fetch-stream behaviour) with transcriptions of searchShard/searchStores/Search, MergeQPRs/paginateIDs and the merged fetch iterators, and a property-level reference; TLC checks Honest, ColdWhenOld, AllUpIsComplete, FetchIsGreedy and RetentionHonest on every scenario of the scope and emits the SET of allowed outcomes per scenario; the driver replays every scenario into the real search.Ingestor over scripted StoreApiClient fakes (a subsample through proxyapi over localhost gRPC, and with a real hot/cold store behind the ingestor) and requires the observed outcome to be a member of the allowed set.",
        "note": "Trusted: TLC; stores are scripted fakes except 288 real-store cases; exhaustive up to 2x2 hot + 2x2 cold, 3x3 by seeded simulation; racing shard answers are nudged (odd/even shards slow), not forced - soundness rests on Allowed being a set; total/histogram/aggregation merging out of scope. The pinned tree violated the property (fix: 026e845).",
        "technique": "TLA+ transcription + reference (set of allowed outcomes) checked by TLC, scenarios replayed into the real proxy ingestor over scripted store fakes",
    },
    "C08": {
        "text": "Lifecycle.tla models one fraction's files through creation, ingest, sealing (in the order of frac.Seal / proxyFrac.Seal), release, deletion and the loader's classification, with crashes between any two file operations and write faults of the index output; TLC checks Starts, NoLoss, NeverPublishIncomplete, OriginalsOutliveSeal, NoResurrection exhaustively for both SkipSortDocs modes. Every crash state of the sealing/release phase is materialised from real files and loaded by a real store (twice, with an ingest in between); the real sealing writer is run with its k-th write failing for every k; recorded real seals are validated against LifecycleTrace.tla.",
        "note": "Trusted: TLC; file operations atomic and durable in program order, only temp-file contents torn; write faults injected into the index output only (not the sorted-docs file, not sync/rename). The pinned tree swallowed ID/LID block write errors (fix: 864f764).",
        "technique": "TLA+ life-cycle state machine model-checked by TLC; crash states replayed on the real loader; fault injection for every write; hook-recorded traces validated against the spec",
    },
    "C15": {
        "text": "Lifecycle.tla (creation, deletion of sealed and active fractions, loader; Starts, NoLoss, NoResurrection) and Retention.tla (only the oldest fraction may be shifted out). Every crash state of the model is materialised from real files with a missing/valid/corrupt/truncated .frac-cache next to an untouched neighbour fraction and started twice on the real store; real maintenance passes with tiny FracSize/TotalSize are recorded through the verif hooks and validated against LifecycleTrace.tla and Retention.tla, including the deletion of an active fraction.",
        "note": "Trusted: TLC; one fraction's life cycle at a time (plus a neighbour); file operations atomic and durable in program order; .frac-cache rewrite crash points are covered by the four cache-file variants, not by hooks inside SaveCacheToDisk. Two defects of the pinned tree were repaired (fix: badff25, b2e7d41).",
        "technique": "TLA+ life-cycle and retention-order specs model-checked by TLC; crash states replayed on the real loader; hook-recorded maintenance traces validated against the specs",
    },
    "C10": {
        "text": "BulkIngest.tla transcribes the /_bulk handler as a state machine (one action per bufio.ReadLine, Process and StoreDocuments call; sizes as numbers with M = max-document-size = reader buffer; content as line classes and time classes) and defines the property as the reference Allowed(body); TLC checks TypeOK, NothingBeforeTheEnd, RejectedStoresNothing, ItemsEqualStored, StoredOnceInOrder, ImplMeetsProperty and the action property StoreOnlyAtFinish exhaustively for bodies of <=4 (thorough 5) lines and all single documents of the time alphabet, plus seeded simulation of longer bodies. Every final state is replayed: seeded concrete bytes per class are sent through the real BulkHandler + bulk.Ingestor with a capturing StorageClient (plain/gzip, several read chunkings) and status, item count, stored documents byte for byte and in order, meta sizes and ID times are compared with the allowed outcomes; a sample is appended to a real store and fetched back.",
        "note": "Trusted: TLC; class-level exhaustive, byte-level sampled (verbatim-ness and JSON classes are decided on seeded representatives); lines of M-1 and M bytes may be stored or skipped; the handler's clock cannot be pinned (offsets in 2 s ticks, boundary >= vs > not detectable). One defect repaired (fix: 8c485a0); one known finding (insane-json accepts lexically invalid JSON) is listed in known_findings.json.",
        "technique": "TLA+ state machine of the bulk handler over line/time classes checked by TLC (exhaustive + -simulate), final states replayed through the real HTTP handler and ingestor",
    },
}
