#!/usr/bin/env python3
"""Regenerates MANIFEST.json from tools/manifest_src.py (claimed checks) and properties.jsonl."""
import json, os, sys
ROOT = os.path.dirname(os.path.dirname(os.path.abspath(__file__)))
sys.path.insert(0, os.path.join(ROOT, "tools"))
import manifest_src as src

props = [json.loads(l) for l in open(os.path.join(ROOT, "properties.jsonl"))]
checks = []
na = []
for p in props:
    pid = p["id"]
    c = src.CHECKS.get(pid)
    if not c:
        na.append({"property_id": pid, "reason": src.NOT_CLAIMED.get(pid, "no check built yet for this property (see DESIGN.md section 7 for the plan); not claimed")})
        continue
    checks.append({
        "property_id": pid,
        "quick_cmd": "./check %s quick" % pid,
        "thorough_cmd": "./check %s thorough" % pid,
        "evidence_file": "evidence/%s.json" % pid,
        "replay_cmd_template": "./check %s quick --replay {path}" % pid,
        "engine": c.get("engine", "tlc+go-driver"),
        "level_claimed": {"category": c.get("category", "model_checking"), "text": c["text"], "design_ref": c.get("design_ref", "DESIGN.md section 7 / " + pid)},
        "level_note": c["note"],
        "technique": c["technique"],
    })
m = {
    "version": 1,
    "setup_cmd": "./setup.sh",
    "hooks": {
        "guard": "verif",
        "enable": "go build -tags verif (drivers in /verif/harness are built with the tag; `replace github.com/ozontech/seq-db => /repo`)",
        "baseline_off_cmd": "cd /repo && GOFLAGS=-mod=mod go test -json -vet=off -count=1 -timeout 25m ./...",
        "source_commits": src.HOOK_COMMITS,
        "add_only": True,
    },
    "engines": src.ENGINES,
    "checks": checks,
    "notes": src.NOTES,
    "not_applicable": na,
}
json.dump(m, open(os.path.join(ROOT, "MANIFEST.json"), "w"), indent=1)
print("claimed:", [c["property_id"] for c in checks])
