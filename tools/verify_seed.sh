#!/bin/bash
# verify_seed.sh <seed-out-dir> <demo-file> <dest-dir-in-tree> <run-regex> [full]
# Confirms in a scratch worktree: patch applies, builds, demo FAILS with the patch and PASSES without,
# touched packages' own tests still pass (or the whole suite with "full").
set -u
export GOFLAGS=-mod=mod GOPROXY=off LOG_LEVEL=error
SD=$1; DEMO=$2; DEST=$3; RX=$4; FULL=${5:-}
WT=$(mktemp -d /tmp/seedverify-XXXX)
git -C /repo worktree add -q --detach "$WT" HEAD || exit 9
trap 'git -C /repo worktree remove --force "$WT" >/dev/null 2>&1; rm -rf "$WT"' EXIT
cd "$WT"
cp "$SD/$DEMO" "$DEST/" || exit 9
echo "== demo WITHOUT patch (expect pass)"
go test -vet=off -count=1 -run "$RX" "./$DEST/" > /tmp/sv_without.log 2>&1; R0=$?
tail -3 /tmp/sv_without.log
git apply "$SD/patch.diff" || { echo "PATCH DOES NOT APPLY"; exit 8; }
go build ./... || { echo "BUILD FAILS"; exit 7; }
echo "== demo WITH patch (expect fail)"
go test -vet=off -count=1 -run "$RX" "./$DEST/" > /tmp/sv_with.log 2>&1; R1=$?
grep -E "^(--- FAIL|FAIL|ok|panic)" /tmp/sv_with.log | head -5
rm -f "$DEST/$DEMO"
PK=$(git diff --name-only | xargs -n1 dirname | sort -u | sed 's#^#./#' | tr '\n' ' ')
if [ "$FULL" = full ]; then PK=./...; fi
echo "== existing tests with patch: $PK"
go test -vet=off -count=1 -timeout 25m $PK 2>&1 | grep -Ev "^ok|no test files" | grep -E "^(FAIL|---|panic)" | head -20
echo "RESULT without=$R0 with=$R1 (want 0 and non-zero)"
