#!/bin/sh
# Builds the drivers from files on disk only (offline) and parses every TLA+ module.
set -e
cd "$(dirname "$0")"
export GOFLAGS=-mod=mod GOPROXY=off
mkdir -p bin evidence out
cp /repo/go.sum harness/go.sum
(cd harness && for d in cmd/*/; do n=$(basename "$d"); go build -tags verif -o ../bin/$n ./cmd/$n; done)
./check sany
echo setup ok
