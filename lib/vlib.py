"""Shared machinery for the seq-db TLA+ model-based checks.

Every check is `./check <ID> quick|thorough`.  A check
  1. builds its Go driver against /repo's current working tree (tag `verif`),
  2. runs TLC on the property's specification (exhaustive cfg and/or -simulate),
  3. feeds what TLC emitted (cases / behaviours) to the driver, or validates traces the
     driver recorded with a *Trace.tla spec,
  4. reports `VIOLATION property=<id> replay=<path>` (exit 1) only for behaviour of the real code,
     `KNOWN-FINDING: ...` for listed findings, exit 2 for infrastructure errors,
  5. rewrites evidence/<id>.json.
"""
import hashlib
import json
import os
import re
import shutil
import subprocess
import sys
import tempfile
import time

ROOT = os.path.dirname(os.path.dirname(os.path.abspath(__file__)))
SPEC = os.path.join(ROOT, "spec")
HARNESS = os.path.join(ROOT, "harness")
BIN = os.path.join(ROOT, "bin")
OUT = os.path.join(ROOT, "out")
EVID = os.path.join(ROOT, "evidence")
REPO = os.environ.get("VERIF_REPO", "/repo")
TLA_CP = "/opt/veriftools/tla/tla2tools.jar:/opt/veriftools/tla/CommunityModules-deps.jar"
NCPU = os.cpu_count() or 4


class Infra(Exception):
    """Infrastructure failure: exit 2, never a violation."""


def log(*a):
    print(*a, file=sys.stderr, flush=True)


def goenv():
    e = dict(os.environ)
    e["GOFLAGS"] = "-mod=mod"
    e["GOPROXY"] = "off"
    e.pop("GOTOOLCHAIN", None)
    e.pop("GOSUMDB", None)
    e.setdefault("GOCACHE", os.path.expanduser("~/.cache/go-build"))
    return e


class Ctx:
    def __init__(self, pid, tier, seed):
        self.pid = pid
        self.tier = tier
        self.seed = seed
        self.t0 = time.time()
        self.scratch = tempfile.mkdtemp(prefix="verif-%s-" % pid)
        self.violations = []   # (sig, path, known)
        self.known_printed = set()
        self.cov = {"states": 0, "transitions": 0, "traces_validated_against_impl": 0,
                    "samples": [], "evaluations": 0, "distinct_nontrivial": 0, "rule": "",
                    "tlc_runs": [], "exhaustive": False}
        self.assumptions = []
        self._nviol = 0
        self.findings = load_findings()

    def quick(self):
        return self.tier == "quick"

    def cleanup(self):
        shutil.rmtree(self.scratch, ignore_errors=True)

    # ---------------------------------------------------------------- violations
    def violation(self, sig, replay_obj, what=""):
        """Report a violation observed on the real code. `sig` is a stable signature string used
        to match known findings."""
        for f in self.findings.get("findings", []):
            if f.get("property") == self.pid and re.search(f["match"], sig):
                key = f["match"]
                if key not in self.known_printed:
                    self.known_printed.add(key)
                    print("KNOWN-FINDING: property=%s %s" % (self.pid, f["what"]), flush=True)
                self.violations.append((sig, None, True))
                return False
        self._nviol += 1
        if self._nviol > 25:
            self.violations.append((sig, None, False))
            return True
        d = os.path.join(OUT, self.pid)
        os.makedirs(d, exist_ok=True)
        path = os.path.join(d, "%s-%d-%d.json" % (self.tier, self.seed, self._nviol))
        with open(path, "w") as fh:
            json.dump({"property": self.pid, "signature": sig, "what": what, "replay": replay_obj},
                      fh, indent=1, default=str)
        if self._nviol <= 5:
            print("VIOLATION property=%s replay=%s" % (self.pid, path), flush=True)
            log("  signature:", sig, "|", what)
        self.violations.append((sig, path, False))
        return True

    def nviol(self):
        return self._nviol

    # ---------------------------------------------------------------- evidence
    def add_samples(self, items, maxn=3):
        for it in items:
            if len(self.cov["samples"]) < maxn:
                self.cov["samples"].append(it)

    def write_evidence(self, level="model_checking"):
        global EVID
        if REPO != "/repo":
            # mutation experiment (VERIF_REPO): never clobber the committed evidence of the real tree
            EVID = os.path.join(tempfile.gettempdir(), "verif-evidence-mut")
        os.makedirs(EVID, exist_ok=True)
        cov = dict(self.cov)
        if not cov["samples"]:
            cov["samples"] = ["(no sample recorded)"]
        ev = {
            "property_id": self.pid, "tier": self.tier, "seed": self.seed, "level": level,
            "coverage": cov, "assumptions": self.assumptions,
            "wall_s": round(time.time() - self.t0, 2), "violations": self._nviol,
            "known_findings_seen": sorted(self.known_printed),
        }
        with open(os.path.join(EVID, self.pid + ".json"), "w") as fh:
            json.dump(ev, fh, indent=1, default=str)


def load_findings():
    p = os.path.join(ROOT, "known_findings.json")
    if os.path.exists(p):
        with open(p) as fh:
            return json.load(fh)
    return {"findings": [], "fixed": []}


# -------------------------------------------------------------------- Go drivers
def _harness_dir():
    """The harness module is built against REPO. For the default /repo the module is used in place;
    for VERIF_REPO=<scratch worktree> (mutation experiments) a private copy with a rewritten
    `replace` directive is used so that concurrent runs do not interfere."""
    global _HDIR
    if REPO == "/repo":
        return HARNESS, BIN
    if _HDIR:
        return _HDIR
    tag = hashlib.sha1(REPO.encode()).hexdigest()[:8]
    d = os.path.join(tempfile.gettempdir(), "verif-harness-" + tag)
    if os.path.exists(d):
        shutil.rmtree(d)
    shutil.copytree(os.path.join(ROOT, "harness"), d)
    gm = os.path.join(d, "go.mod")
    txt = open(gm).read().replace("=> /repo", "=> " + REPO)
    open(gm, "w").write(txt)
    b = os.path.join(d, "bin")
    os.makedirs(b, exist_ok=True)
    _HDIR = (d, b)
    return d, b


_HDIR = None


def build_driver(name, race=False):
    global HARNESS, BIN
    HARNESS, BIN = _harness_dir()
    os.makedirs(BIN, exist_ok=True)
    gosum = os.path.join(HARNESS, "go.sum")
    try:
        # atomically (checks started at the same moment share the harness copy: a half-written go.sum makes a
        # concurrent `go build` look for the missing sums on the network)
        tmp = "%s.%d" % (gosum, os.getpid())
        shutil.copyfile(os.path.join(REPO, "go.sum"), tmp)
        os.replace(tmp, gosum)
    except OSError as e:
        raise Infra("cannot copy go.sum: %s" % e)
    out = os.path.join(BIN, name + ("-race" if race else ""))
    cmd = ["go", "build", "-tags", "verif"] + (["-race"] if race else []) + ["-o", out, "./cmd/" + name]
    t = time.time()
    r = subprocess.run(cmd, cwd=HARNESS, env=goenv(), capture_output=True, text=True)
    if r.returncode != 0:
        raise Infra("go build %s failed:\n%s" % (name, r.stderr[-4000:]))
    log("[build] %s in %.1fs" % (name, time.time() - t))
    return out


def _raise_nofile():
    try:
        import resource
        soft, hard = resource.getrlimit(resource.RLIMIT_NOFILE)
        if soft < hard or hard == resource.RLIM_INFINITY:
            resource.setrlimit(resource.RLIMIT_NOFILE, (hard, hard))
    except Exception:
        pass


def run_driver(binpath, args, stdin_path=None, timeout=3600, env=None, ok_codes=(0,)):
    """Run a driver; returns (returncode, list of parsed JSON lines from stdout, stderr tail)."""
    e = goenv()
    if env:
        e.update(env)
    fin = open(stdin_path) if stdin_path else subprocess.DEVNULL
    _raise_nofile()
    try:
        r = subprocess.run([binpath] + list(args), stdin=fin, env=e, capture_output=True, text=True,
                           timeout=timeout)
    except subprocess.TimeoutExpired:
        raise Infra("driver %s timed out after %ss" % (binpath, timeout))
    finally:
        if stdin_path:
            fin.close()
    outs = []
    for ln in r.stdout.splitlines():
        ln = ln.strip()
        if ln.startswith("{"):
            try:
                outs.append(json.loads(ln))
            except ValueError:
                pass
    if r.returncode not in ok_codes:
        said = [o for o in outs if o.get("infra") or "what" in o][-3:]
        raise Infra("driver %s %s exit %d: %s\n%s" % (binpath, args, r.returncode, json.dumps(said)[:1500], r.stderr[-4000:]))
    return r.returncode, outs, r.stderr[-4000:]


# -------------------------------------------------------------------- TLC
class TLCResult:
    def __init__(self):
        self.generated = 0
        self.distinct = 0
        self.depth = 0
        self.ok = False
        self.violated = None      # name of violated invariant/property, if any
        self.error = None
        self.cases = []
        self.lines = []
        self.coverage = {}
        self.wall = 0.0
        self.rc = None

    def summary(self, name):
        return {"spec": name, "generated": self.generated, "distinct": self.distinct,
                "depth": self.depth, "ok": self.ok, "wall_s": round(self.wall, 1)}


_unesc = re.compile(r'\\(.)')


def tla_unescape(s):
    return _unesc.sub(lambda m: {"n": "\n", "t": "\t"}.get(m.group(1), m.group(1)), s)


def parse_case_line(ln, tag="CASE"):
    # <<"CASE", "{...}">>
    pre = '<<"%s", "' % tag
    if not ln.startswith(pre):
        return None
    body = ln[len(pre):]
    if body.endswith('">>'):
        body = body[:-3]
    return json.loads(tla_unescape(body))


def run_tlc(ctx, module, cfg, workers=None, simulate=None, depth=None, env=None, timeout=3600,
            tags=("CASE",), keep_lines=False, extra=None, on_case=None, deadlock=False,
            heap=None, coverage=False, quiet=False, case_file=None):
    """Run TLC on spec/<module>.tla with spec/<cfg>. Returns TLCResult. Lines printed through
    PrintT(<<tag, ToJson(x)>>) are parsed into result.cases (or streamed to on_case)."""
    wd = os.path.join(ctx.scratch, "tlc-%s-%d" % (cfg.replace("/", "_"), int(time.time() * 1000) % 100000))
    os.makedirs(wd)
    for f in os.listdir(SPEC):
        p = os.path.join(SPEC, f)
        if os.path.isfile(p):
            shutil.copy(p, wd)
    meta = os.path.join(wd, "meta")
    w = str(workers or NCPU)
    cmd = ["java", "-XX:+UseParallelGC"]
    cmd += ["-Xmx%s" % (heap or "8g"), "-Xss64m"]
    if env and env.get("_DFS"):
        cmd += ["-Dtlc2.tool.queue.IStateQueue=StateDeque"]
    cmd += ["-cp", TLA_CP, "tlc2.TLC", "-metadir", meta, "-workers", w, "-config", cfg]
    if not deadlock:
        cmd += ["-deadlock"]
    if simulate:
        cmd += ["-simulate", simulate]
        if depth:
            cmd += ["-depth", str(depth)]
        cmd += ["-seed", str(ctx.seed)]
    if coverage:
        cmd += ["-coverage", "1"]
    if extra:
        cmd += list(extra)
    cmd += [module]
    e = dict(os.environ)
    if env:
        e.update({k: str(v) for k, v in env.items() if not k.startswith("_")})
    res = TLCResult()
    t = time.time()
    p = subprocess.Popen(cmd, cwd=wd, env=e, stdout=subprocess.PIPE, stderr=subprocess.STDOUT,
                         text=True, bufsize=1 << 20)
    prefixes = tuple('<<"%s", "' % tg for tg in tags)
    errbuf = []
    cfh = open(case_file, "a") if case_file else None
    res.ncases = 0
    try:
        for ln in p.stdout:
            ln = ln.rstrip("\n")
            if cfh is not None and ln.startswith(prefixes[0]):
                body = ln[len(prefixes[0]):]
                if body.endswith('">>'):
                    body = body[:-3]
                cfh.write(tla_unescape(body))
                cfh.write("\n")
                res.ncases += 1
                continue
            if ln.startswith(prefixes):
                for tg in tags:
                    c = parse_case_line(ln, tg)
                    if c is not None:
                        if len(tags) > 1:
                            c = (tg, c)
                        if on_case:
                            on_case(c)
                        else:
                            res.cases.append(c)
                        break
                continue
            if keep_lines:
                res.lines.append(ln)
            m = re.search(r"(\d+) states generated, (\d+) distinct states found", ln)
            if m:
                res.generated = int(m.group(1))
                res.distinct = int(m.group(2))
            m = re.search(r"The number of states generated: (\d+)", ln)
            if m:
                res.generated = int(m.group(1))
                res.distinct = max(res.distinct, res.ncases)
            m = re.search(r"depth of the complete state graph search is (\d+)", ln)
            if m:
                res.depth = int(m.group(1))
            if "No error has been found" in ln:
                res.ok = True
            m = re.search(r"Invariant (\S+) is violated", ln)
            if m:
                res.violated = m.group(1)
            m = re.search(r"(Temporal properties were violated|Action property \S+ .*violated|Deadlock reached)", ln)
            if m and not res.violated:
                res.violated = m.group(1)
            if ln.startswith("Error:") or errbuf:
                if len(errbuf) < 60:
                    errbuf.append(ln)
            if time.time() - t > timeout:
                p.kill()
                raise Infra("TLC %s/%s timed out after %ss" % (module, cfg, timeout))
        p.wait()
    finally:
        if p.poll() is None:
            p.kill()
        if cfh is not None:
            cfh.close()
    if not case_file:
        res.ncases = len(res.cases)
    res.rc = p.returncode
    res.wall = time.time() - t
    if errbuf:
        res.error = "\n".join(errbuf)
    if simulate and res.rc == 0:
        res.ok = True
    if not quiet:
        log("[tlc] %s %s: generated=%d distinct=%d depth=%d ok=%s rc=%s cases=%d %.1fs" % (
            module, cfg, res.generated, res.distinct, res.depth, res.ok, res.rc, res.ncases, res.wall))
    ctx.cov["tlc_runs"].append(res.summary(module + "/" + cfg))
    ctx.cov["states"] += res.distinct
    ctx.cov["transitions"] += res.generated
    shutil.rmtree(wd, ignore_errors=True)
    return res


def require_tlc_ok(res, what):
    if not res.ok:
        raise Infra("TLC did not finish cleanly on %s (rc=%s violated=%s):\n%s" % (
            what, res.rc, res.violated, (res.error or "")[:3000]))


def sany_all():
    bad = []
    for f in sorted(os.listdir(SPEC)):
        if f.endswith(".tla"):
            r = subprocess.run(["java", "-cp", TLA_CP, "tla2sany.SANY", f], cwd=SPEC,
                               capture_output=True, text=True)
            if r.returncode != 0 or "Semantic errors" in r.stdout or "***Parse Error***" in r.stdout \
                    or "Fatal errors" in r.stdout:
                bad.append((f, r.stdout[-1500:]))
    return bad


def jhash(o):
    return hashlib.sha1(json.dumps(o, sort_keys=True).encode()).hexdigest()[:12]


def write_jsonl(path, items):
    with open(path, "w") as fh:
        for it in items:
            fh.write(json.dumps(it, separators=(",", ":")))
            fh.write("\n")


# -------------------------------------------------------------------- case replay (B3)
def run_cases(ctx, binpath, args, cases, label="cases", timeout=3600, crash_is_violation=True,
              max_crashes=3, chunk=40000, procs=1):
    """Chunked front end of _run_cases: every chunk gets a fresh driver process (bounds the file
    descriptors / goroutines leaked by abandoned in-process stores)."""
    if isinstance(cases, str):
        with open(cases) as fh:
            lines = [ln.rstrip("\n") for ln in fh if ln.startswith("{")]
    else:
        lines = [json.dumps(c, separators=(",", ":")) for c in cases]
    mism, crashes = [], []
    summ = {"cases": 0, "evals": 0, "nontrivial": 0, "corpora": 0}
    if procs > 1 and len(lines) > procs:
        chunk = min(chunk, (len(lines) + procs - 1) // procs)

    seq = [0]

    def run_part(part, base):
        seq[0] += 1
        tag = "%s-%d" % (label, seq[0])
        pth = os.path.join(ctx.scratch, "%s-chunk.jsonl" % tag)
        with open(pth, "w") as fh:
            fh.write("\n".join(part) + "\n")
        try:
            m, s_, c = _run_cases(ctx, binpath, args, pth, label=tag, timeout=timeout,
                                  crash_is_violation=crash_is_violation, max_crashes=max_crashes)
        except Infra as e:
            # in-process stores that a driver abandons keep a few descriptors each (leaked goroutines of the
            # store hold them): a chunk that runs out of descriptors is replayed in two halves
            if "too many open files" in str(e) and len(part) >= 100:
                os.remove(pth)
                h = len(part) // 2
                log("[run_cases] %s: descriptors exhausted, replaying %d cases in two halves" % (label, len(part)))
                m1, s1, c1 = run_part(part[:h], base)
                m2, s2, c2 = run_part(part[h:], base + h)
                return m1 + m2, {k_: s1[k_] + s2[k_] for k_ in s1}, c1 + c2
            raise
        for o in m:
            if isinstance(o.get("n"), int):
                o["n"] += base
        os.remove(pth)
        return m, s_, c

    def one(k):
        return run_part(lines[k:k + chunk], k)
    starts = [k for k in range(0, len(lines), chunk)]
    if procs > 1:
        import concurrent.futures
        with concurrent.futures.ThreadPoolExecutor(max_workers=procs) as ex:
            results = list(ex.map(one, starts))
    else:
        results = [one(k) for k in starts]
    for m, s_, c in results:
        mism.extend(m)
        crashes.extend(c)
        for key in summ:
            summ[key] += s_[key]
    return mism, summ, crashes


def _run_cases(ctx, binpath, args, cases, label="cases", timeout=3600, crash_is_violation=True,
               max_crashes=3):
    """Feed cases (list of dicts) to a driver that prints one JSON line per disagreement
    ({"n": index, "what": ...}) and a final {"summary": true, ...}.  If the driver dies (panic in a
    goroutine of the real code, Fatal, ...) the culprit case is located by a serial re-run with
    begin/end markers and reported; the remaining cases are then replayed without it."""
    if isinstance(cases, str):
        with open(cases) as fh:
            cases = [ln.rstrip("\n") for ln in fh if ln.startswith("{")]
        raw = True
    else:
        cases = list(cases)
        raw = False
    mism = []
    summ = {"cases": 0, "evals": 0, "nontrivial": 0, "corpora": 0}
    crashes = []
    rounds = 0
    while cases:
        rounds += 1
        path = os.path.join(ctx.scratch, "%s-%d.jsonl" % (label, rounds))
        if raw:
            with open(path, "w") as fh:
                fh.write("\n".join(cases))
                fh.write("\n")
        else:
            write_jsonl(path, cases)
        rc, outs, err = run_driver(binpath, args, stdin_path=path, timeout=timeout, ok_codes=range(0, 256))
        done = any(o.get("summary") for o in outs)
        for o in outs:
            if o.get("infra"):
                raise Infra("driver reported: %s" % o["infra"])
        if rc == 0 and done:
            for o in outs:
                if o.get("summary"):
                    for k in summ:
                        summ[k] += int(o.get(k, 0))
                elif "what" in o:
                    if isinstance(o.get("n"), int) and o["n"] < len(cases):
                        c = cases[o["n"]]
                        o["case"] = json.loads(c) if raw else c
                    mism.append(o)
            break
        # the driver died: locate the culprit serially
        if "too many open files" in err:
            raise Infra("driver died: too many open files")
        if len(crashes) >= max_crashes:
            if crash_is_violation:
                # several different cases kill the store: enough evidence, stop replaying this chunk
                log("[run_cases] %d cases crash the real code; remaining cases of this chunk are skipped" % len(crashes))
                break
            raise Infra("driver keeps dying (%d crashes); last stderr:\n%s" % (len(crashes), err[-2000:]))
        rc2, outs2, err2 = run_driver(binpath, list(args) + ["-progress"], stdin_path=path, timeout=timeout,
                                      ok_codes=range(0, 256))
        if rc2 == 0:
            # not reproducible serially: flaky infrastructure or a schedule-dependent crash
            raise Infra("driver died (rc=%s) but the serial re-run passed; stderr:\n%s" % (rc, err[-3000:]))
        begun = None
        for o in outs2:
            if "begin" in o:
                begun = o
            elif "end" in o and begun and o["end"] == begun["begin"]:
                begun = None
        if begun is None:
            raise Infra("driver died outside any case (rc=%s); stderr:\n%s" % (rc2, err2[-3000:]))
        n = begun["begin"]
        culprit = json.loads(cases[n]) if raw else cases[n]
        crashes.append({"n": n, "what": "crash", "form": begun.get("form"), "case": culprit,
                        "stderr": err2[-1500:]})
        cases = cases[:n] + cases[n + 1:]
    if crash_is_violation:
        mism.extend(crashes)
    return mism, summ, crashes


# -------------------------------------------------------------------- trace validation (B2)
def validate_trace(ctx, module, cfg, trace_path, timeout=1800, env=None, dfs=False):
    """Check a recorded ndjson trace against a *Trace.tla spec (POSTCONDITION TraceAccepted on the
    diameter). Returns dict(accepted, matched, total, violated, next_line)."""
    with open(trace_path) as fh:
        lines = [ln for ln in fh.read().splitlines() if ln.strip()]
    e = {"TRACE": trace_path}
    if env:
        e.update(env)
    if dfs:
        e["_DFS"] = "1"
    r = run_tlc(ctx, module, cfg, workers=1, env=e, timeout=timeout, deadlock=True, keep_lines=True)
    post_failed = any("Postcondition" in ln and "is false" in ln for ln in r.lines)
    accepted = r.rc == 0 and r.ok and not post_failed and not r.violated
    matched = max(r.depth - 1, 0)
    res = {"accepted": accepted, "matched": matched, "total": len(lines), "violated": r.violated,
           "next_line": lines[matched] if matched < len(lines) else None, "rc": r.rc}
    if not accepted and not post_failed and not r.violated:
        raise Infra("trace validation did not run properly (rc=%s): %s" % (r.rc, (r.error or "\n".join(r.lines[-15:]))[:2000]))
    return res


def selftest_trace(ctx, module, cfg, trace_path, mutate, timeout=600):
    """Binding self-test: a mutated copy of an accepted trace must be rejected, otherwise the trace
    spec constrains nothing (Infra). `mutate(lines) -> lines`."""
    with open(trace_path) as fh:
        lines = fh.read().splitlines()
    bad = mutate(list(lines))
    p = trace_path + ".mutated"
    with open(p, "w") as fh:
        fh.write("\n".join(bad) + "\n")
    r = validate_trace(ctx, module, cfg, p, timeout=timeout)
    os.remove(p)
    if r["accepted"]:
        raise Infra("binding self-test failed: a corrupted trace was accepted by %s" % module)
    return r
